#!/bin/bash
# rustc wrapper for /verif: runs the real rustc invocation, then (for crates whose name matches
# $VP_EXPAND_FILTER) the same invocation again with -Zunpretty=expanded, writing
# $VP_EXPAND_OUT/<crate>[.test|.bin].expanded.rs . Invoked by cargo as: wrapper <rustc> <args...>
rustc="$1"; shift
"$rustc" "$@"
rc=$?
[ -z "$VP_EXPAND_OUT" ] && exit $rc
name=""; istest=""; prev=""; ctype=""
for a in "$@"; do
  if [ "$prev" = "--crate-name" ]; then name="$a"; fi
  if [ "$prev" = "--crate-type" ]; then ctype="$a"; fi
  [ "$a" = "--test" ] && istest=".test"
  prev="$a"
done
[ -z "$name" ] && exit $rc
if ! [[ "$name" =~ $VP_EXPAND_FILTER ]]; then exit $rc; fi
[ "$name" = "build_script_build" ] && exit $rc
args=()
skip=0
for a in "$@"; do
  if [ $skip -eq 1 ]; then skip=0; continue; fi
  case "$a" in
    --emit|--error-format|--json|-o|--out-dir) skip=1; continue;;
    --emit=*|--error-format=*|--json=*|--out-dir=*) continue;;
  esac
  args+=("$a")
done
suffix="$istest"
[ -z "$suffix" ] && [ "$ctype" = "bin" ] && suffix=".bin"
out="$VP_EXPAND_OUT/$name$suffix.expanded.rs"
"$rustc" "${args[@]}" -Zunpretty=expanded -Awarnings -o "$out.tmp" >/dev/null 2>"$out.err"
if [ -s "$out.tmp" ]; then mv "$out.tmp" "$out"; else rm -f "$out.tmp"; fi
exit $rc
