#!/bin/bash
# mk-alt-env.sh : an isolated copy of /verif and a worktree of /repo under /tmp/alt, so that a long campaign can run there
# (VERIF_REPO=/tmp/alt/repo TMPDIR=/tmp/alt/tmp python3 /tmp/alt/verif/tools/campaign.py ...) while /verif stays usable.
# Remove with: git -C /repo worktree remove --force /tmp/alt/repo; rm -rf /tmp/alt
set -e
mkdir -p /tmp/alt/tmp
rsync -a --exclude .git --exclude .cache/facts --exclude '.cache/target/debug/incremental' /verif/ /tmp/alt/verif/ 2>/dev/null || true
[ -d /tmp/alt/repo ] || git -C /repo worktree add -q --detach /tmp/alt/repo HEAD
cp -a /repo/target /tmp/alt/repo/target 2>/dev/null || true
echo "alt env ready: cd /tmp/alt/verif; export VERIF_REPO=/tmp/alt/repo TMPDIR=/tmp/alt/tmp"
