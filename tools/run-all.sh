#!/bin/bash
# run-all.sh [quick|thorough] [ids...] : run the registered checks one after another, print one line per property
tier="${1:-quick}"; shift
ids="$@"; [ -z "$ids" ] && ids="C01 C02 C03 C04 C05 C06 C07 C08 C09 C10 C11 C12 C13 C14 C15 C16 C17 C18 C19 C20"
cd "$(dirname "$0")/.."
for id in $ids; do
  out=$(./bin/svcheck check $id --tier $tier 2>&1); rc=$?
  line=$(echo "$out" | grep -E "^\[$id\]" | sed -E 's/instances:.*programs=/programs=/' | cut -c1-160)
  echo "$id rc=$rc $line"
  [ $rc -ne 0 ] && echo "$out" | grep -E "VIOLATION|CHECK-ERROR|^  (rule|expected|found)" | head -9 | cut -c1-300
done
