#!/bin/bash
# confirm-seed.sh <worktree-id> <seed-name> <property> <demo relative path> "<needs>"
# Confirms in the scratch worktree /tmp/seed-<id>: patch applies to a clean tree, existing suite passes with it,
# demo fails with it and passes without it. On success stores /verif/seeded/<seed-name>/{patch.diff,demo,meta.json}.
id="$1"; name="$2"; prop="$3"; demo="$4"; needs="$5"
wt="/tmp/$id"
cd "$wt" || exit 2
[ -f patch.diff ] || git diff -- sylvia-derive sylvia/src > patch.diff
cp patch.diff /tmp/$id.patch
git checkout -q -- sylvia-derive sylvia/src 2>/dev/null
git stash list >/dev/null
demo_name=$(basename "$demo" .rs)
mkdir -p /tmp/seed-demo-hold && mv "$demo" /tmp/seed-demo-hold/ 2>/dev/null
git status --porcelain -- sylvia-derive sylvia/src | grep -q . && { echo "tree not clean after checkout"; exit 2; }
mv /tmp/seed-demo-hold/$(basename "$demo") "$demo"
echo "== demo WITHOUT change"
cargo test -p sylvia --offline --features mt,stargate,iterator,cosmwasm_1_4 --test "$demo_name" 2>&1 | grep -E "^test result|^error(\[|:)|could not compile" | head -5
without=$(cargo test -p sylvia --offline --features mt,stargate,iterator,cosmwasm_1_4 --test "$demo_name" >/dev/null 2>&1; echo $?)
git apply /tmp/$id.patch || { echo "patch does not apply"; exit 2; }
echo "== demo WITH change"
cargo test -p sylvia --offline --features mt,stargate,iterator,cosmwasm_1_4 --test "$demo_name" 2>&1 | grep -E "^test result|^error(\[|:)|could not compile" | head -5
with=$(cargo test -p sylvia --offline --features mt,stargate,iterator,cosmwasm_1_4 --test "$demo_name" >/dev/null 2>&1; echo $?)
echo "== suite WITH change (demo moved aside)"
mv "$demo" /tmp/seed-demo-hold/
suite=$(cargo test --workspace --no-fail-fast --offline 2>&1 | grep -E "^test result|^error" | awk '/test result/{p+=$4; f+=$6} /^error/{e=1} END {print p" "f" "e+0}')
mv /tmp/seed-demo-hold/$(basename "$demo") "$demo"
echo "without_rc=$without with_rc=$with suite(passed failed builderr)=$suite"
set -- $suite
if [ "$without" = "0" ] && [ "$with" != "0" ] && [ "$2" = "0" ] && [ "$3" = "0" ] && [ "$1" -ge 47 ]; then
  d="/verif/seeded/$name"; mkdir -p "$d"
  cp /tmp/$id.patch "$d/patch.diff"; cp "$demo" "$d/"
  python3 - "$d" "$prop" "$needs" "$demo" "$without" "$with" "$1" <<'PY'
import json, sys
d, prop, needs, demo, wo, wi, passed = sys.argv[1:8]
json.dump({"property": prop, "needs": needs, "demo": demo.split('/')[-1],
           "confirmed": {"demo_without_change_rc": int(wo), "demo_with_change_rc": int(wi), "repo_suite_with_change": f"{passed} passed, 0 failed",
                         "commands": ["git apply patch.diff", f"cargo test -p sylvia --offline --features mt,stargate,iterator,cosmwasm_1_4 --test {demo.split('/')[-1][:-3]}", "cargo test --workspace --no-fail-fast --offline"]},
           "origin": "independent sub-agent given only the property text and a scratch worktree"}, open(d + "/meta.json", "w"), indent=1)
PY
  echo "KEPT -> $d"
else
  echo "NOT CONFIRMED"
fi
