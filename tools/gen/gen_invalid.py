#!/usr/bin/env python3
"""Generates /verif/corpus/w-invalid/src/bin/*.rs: one must-fail-here witness per documented rule (C18), each with a
compiling twin that differs only in the offending construct. `//~ ERROR` marks the line the diagnostic must point at."""
import os

OUT = os.path.join(os.path.dirname(os.path.abspath(__file__)), "..", "..", "corpus", "w-invalid", "src", "bin")

PRELUDE = """#![allow(dead_code, unused_variables, unused_imports, deprecated, clippy::new_without_default)]
use sylvia::ctx::{ExecCtx, InstantiateCtx, MigrateCtx, QueryCtx, ReplyCtx, SudoCtx};
use sylvia::cw_std::{Binary, Empty, Response, StdError, StdResult, SubMsgResult};
use sylvia::{contract, entry_points, interface};

#[sylvia::cw_schema::cw_serde]
pub struct Resp {}
pub type MyResult<T> = Result<T, StdError>;
"""

INST = "    #[sv::msg(instantiate)]\n    fn instantiate(&self, _ctx: InstantiateCtx) -> StdResult<Response> { Ok(Response::new()) }\n"
NEW = "    pub fn new() -> Self { Self }\n"


def contract(body, attrs="", pre="#[contract]", head="impl Contract", struct="pub struct Contract;"):
    return f"{struct}\n\n{pre}\n{attrs}{head} {{\n{body}}}\n"


CASES = []


def case(name, what, fail, ok):
    CASES.append((name, what, fail, ok))


E = " //~ ERROR"

# ---- instantiate / migrate cardinality, constructor
case("two_instantiate", "two methods marked instantiate",
     # the diagnostic names one of the two methods (primary span) and the other in a note: the first one is marked
     contract(NEW + INST.replace("{ Ok(Response::new()) }", "{ Ok(Response::new()) }" + E) + "    #[sv::msg(instantiate)]\n    fn instantiate_again(&self, _ctx: InstantiateCtx) -> StdResult<Response> { Ok(Response::new()) }\n"),
     contract(NEW + INST + "    #[sv::msg(exec)]\n    fn instantiate_again(&self, _ctx: ExecCtx) -> StdResult<Response> { Ok(Response::new()) }\n"))
MIG = "    #[sv::msg(migrate)]\n    fn migrate(&self, _ctx: MigrateCtx) -> StdResult<Response> { Ok(Response::new()) }\n"
case("two_migrate", "two methods marked migrate",
     contract(NEW + INST + MIG.replace("{ Ok(Response::new()) }", "{ Ok(Response::new()) }" + E) + "    #[sv::msg(migrate)]\n    fn migrate_again(&self, _ctx: MigrateCtx) -> StdResult<Response> { Ok(Response::new()) }\n"),
     contract(NEW + INST + MIG + "    #[sv::msg(sudo)]\n    fn migrate_again(&self, _ctx: SudoCtx) -> StdResult<Response> { Ok(Response::new()) }\n"))
INST3 = "    #[sv::msg(instantiate)]\n    fn instantiate_third(&self, _ctx: InstantiateCtx) -> StdResult<Response> { Ok(Response::new()) }\n"
case("three_instantiate", "three methods marked instantiate",
     contract(NEW + INST.replace("{ Ok(Response::new()) }", "{ Ok(Response::new()) }" + E) + "    #[sv::msg(instantiate)]\n    fn instantiate_again(&self, _ctx: InstantiateCtx) -> StdResult<Response> { Ok(Response::new()) }\n" + INST3),
     contract(NEW + INST + "    #[sv::msg(exec)]\n    fn instantiate_again(&self, _ctx: ExecCtx) -> StdResult<Response> { Ok(Response::new()) }\n" + INST3.replace("sv::msg(instantiate)", "sv::msg(exec)").replace("InstantiateCtx", "ExecCtx")))
case("three_migrate", "three methods marked migrate (identical signatures)",
     contract(NEW + INST + MIG.replace("{ Ok(Response::new()) }", "{ Ok(Response::new()) }" + E) + MIG.replace("fn migrate(", "fn migrate_again(") + MIG.replace("fn migrate(", "fn migrate_third(")),
     contract(NEW + INST + MIG + MIG.replace("fn migrate(", "fn migrate_again(").replace("sv::msg(migrate)", "sv::msg(sudo)").replace("MigrateCtx", "SudoCtx") + MIG.replace("fn migrate(", "fn migrate_third(").replace("sv::msg(migrate)", "sv::msg(sudo)").replace("MigrateCtx", "SudoCtx")))
case("entry_points_no_instantiate", "entry_points on a contract without an instantiate handler",
     contract(NEW + "    #[sv::msg(exec)]\n    fn run(&self, _ctx: ExecCtx) -> StdResult<Response> { Ok(Response::new()) }\n", pre="#[entry_points]" + E + "\n#[contract]"),
     contract(NEW + INST + "    #[sv::msg(exec)]\n    fn run(&self, _ctx: ExecCtx) -> StdResult<Response> { Ok(Response::new()) }\n", pre="#[entry_points]\n#[contract]"))
case("entry_points_too_few_generics", "entry_points with fewer concrete types than the contract has generics",
     contract("    pub fn new() -> Self { Self { _p: std::marker::PhantomData } }\n" + "    #[sv::msg(instantiate)]\n    fn instantiate(&self, _ctx: InstantiateCtx, a: A, b: B) -> StdResult<Response> { Ok(Response::new()) }\n",
              pre="#[entry_points(generics<Empty>)]" + E + "\n#[contract]", head="impl<A, B> Contract<A, B> where A: sylvia::types::CustomMsg + 'static, B: sylvia::types::CustomMsg + 'static",
              struct="pub struct Contract<A, B> { _p: std::marker::PhantomData<(A, B)> }"),
     contract("    pub fn new() -> Self { Self { _p: std::marker::PhantomData } }\n" + "    #[sv::msg(instantiate)]\n    fn instantiate(&self, _ctx: InstantiateCtx, a: A, b: B) -> StdResult<Response> { Ok(Response::new()) }\n",
              pre="#[entry_points(generics<Empty, Empty>)]\n#[contract]", head="impl<A, B> Contract<A, B> where A: sylvia::types::CustomMsg + 'static, B: sylvia::types::CustomMsg + 'static",
              struct="pub struct Contract<A, B> { _p: std::marker::PhantomData<(A, B)> }"))

# ---- interface restrictions
IFACE_OK = """pub mod api {
    use super::*;
    #[interface]
    #[sv::custom(msg = Empty, query = Empty)]
    pub trait Api1 {
        type Error: From<StdError>;
        #[sv::msg(exec)]
        fn run(&self, ctx: ExecCtx, a: u32) -> Result<Response, Self::Error>;
    }
}
"""
case("interface_generics", "generics on an interface trait",
     IFACE_OK.replace("pub trait Api1 {", "pub trait Api1<T> {" + E).replace("a: u32", "a: T"),
     IFACE_OK)
case("interface_no_error_type", "interface without the Error associated type",
     IFACE_OK.replace("        type Error: From<StdError>;\n", "").replace("Result<Response, Self::Error>", "Result<Response, StdError>").replace("pub trait Api1 {", "pub trait Api1 {" + E),
     IFACE_OK)
case("interface_instantiate", "instantiate handler inside an interface",
     IFACE_OK.replace("        #[sv::msg(exec)]\n        fn run(", "        #[sv::msg(instantiate)]\n        fn run(").replace("ctx: ExecCtx", "ctx: InstantiateCtx").replace("a: u32) -> Result<Response, Self::Error>;", "a: u32) -> Result<Response, Self::Error>;" + E),
     IFACE_OK)
case("interface_migrate", "migrate handler inside an interface",
     IFACE_OK.replace("        #[sv::msg(exec)]\n        fn run(", "        #[sv::msg(migrate)]\n        fn run(").replace("ctx: ExecCtx", "ctx: MigrateCtx").replace("a: u32) -> Result<Response, Self::Error>;", "a: u32) -> Result<Response, Self::Error>;" + E),
     IFACE_OK)

# ---- signatures
RUN = "    #[sv::msg(exec)]\n    fn run(&self, _ctx: ExecCtx, a: u32) -> StdResult<Response> { Ok(Response::new()) }\n"
case("sv_attr_on_ctx", "a sylvia attribute on the ctx parameter",
     contract(NEW + INST + "    #[sv::msg(exec)]\n    fn run(&self, #[sv::data] _ctx: ExecCtx, a: u32) -> StdResult<Response> { Ok(Response::new()) }" + E + "\n"),
     contract(NEW + INST + RUN))
case("pattern_argument", "a handler parameter that is a pattern, not a name",
     contract(NEW + INST + "    #[sv::msg(exec)]\n    fn run(&self, _ctx: ExecCtx, (a, b): (u32, u32)) -> StdResult<Response> { Ok(Response::new()) }" + E + "\n"),
     contract(NEW + INST + "    #[sv::msg(exec)]\n    fn run(&self, _ctx: ExecCtx, ab: (u32, u32)) -> StdResult<Response> { Ok(Response::new()) }\n"))
case("query_aliased_result", "query returning an aliased result type without resp=",
     contract(NEW + INST + "    #[sv::msg(query)]\n    fn ask(&self, _ctx: QueryCtx) -> MyResult<Resp> { Ok(Resp {}) }" + E + "\n"),
     contract(NEW + INST + "    #[sv::msg(query, resp = Resp)]\n    fn ask(&self, _ctx: QueryCtx) -> MyResult<Resp> { Ok(Resp {}) }\n"))

# ---- attributes
case("msg_unknown_kind", "unknown message kind in sv::msg",
     contract(NEW + INST + "    #[sv::msg(execute)]" + E + "\n    fn run(&self, _ctx: ExecCtx, a: u32) -> StdResult<Response> { Ok(Response::new()) }\n"),
     contract(NEW + INST + RUN))
case("msg_redefined", "two sv::msg attributes on one method",
     contract(NEW + INST + "    #[sv::msg(exec)]\n    #[sv::msg(sudo)]" + E + "\n    fn run(&self, _ctx: ExecCtx, a: u32) -> StdResult<Response> { Ok(Response::new()) }\n"),
     contract(NEW + INST + RUN))
case("custom_redefined", "two sv::custom attributes on one contract",
     contract(NEW + INST + RUN, attrs="#[sv::custom(msg = Empty)]\n#[sv::custom(query = Empty)]" + E + "\n"),
     contract(NEW + INST + RUN, attrs="#[sv::custom(msg = Empty, query = Empty)]\n"))
case("error_redefined", "two sv::error attributes on one contract",
     contract(NEW + INST + RUN, attrs="#[sv::error(StdError)]\n#[sv::error(StdError)]" + E + "\n"),
     contract(NEW + INST + RUN, attrs="#[sv::error(StdError)]\n"))
case("attr_on_instantiate", "sv::attr on the instantiate handler (a struct message has no variants)",
     contract(NEW + "    #[sv::msg(instantiate)]\n    #[sv::attr(doc = \"x\")]" + E + "\n    fn instantiate(&self, _ctx: InstantiateCtx) -> StdResult<Response> { Ok(Response::new()) }\n"),
     contract(NEW + INST))
case("attr_on_migrate", "sv::attr on the migrate handler",
     contract(NEW + INST + "    #[sv::msg(migrate)]\n    #[sv::attr(doc = \"x\")]" + E + "\n    fn migrate(&self, _ctx: MigrateCtx) -> StdResult<Response> { Ok(Response::new()) }\n"),
     contract(NEW + INST + MIG))
case("features_unknown", "unknown feature in sv::features",
     contract(NEW + INST, attrs="#[sv::features(reply)]" + E + "\n"),
     contract(NEW + INST, attrs="#[sv::features(replies)]\n"))
case("custom_unknown_key", "unknown key in sv::custom",
     contract(NEW + INST, attrs="#[sv::custom(message = Empty)]" + E + "\n"),
     contract(NEW + INST, attrs="#[sv::custom(msg = Empty)]\n"))
case("msg_attr_unknown_kind", "unknown kind in sv::msg_attr",
     contract(NEW + INST + RUN, attrs="#[sv::msg_attr(execute, derive(PartialOrd))]" + E + "\n"),
     contract(NEW + INST + RUN, attrs="#[sv::msg_attr(exec, derive(PartialOrd))]\n"))
case("msg_attr_empty", "sv::msg_attr without an attribute to forward",
     contract(NEW + INST + RUN, attrs="#[sv::msg_attr(exec,)]" + E + "\n"),
     contract(NEW + INST + RUN, attrs="#[sv::msg_attr(exec, derive(PartialOrd))]\n"))
OVR_EP = "pub fn my_sudo(_deps: sylvia::cw_std::DepsMut, _env: sylvia::cw_std::Env, _msg: Resp) -> StdResult<Response> { Ok(Response::new()) }\n"
case("override_unknown_kind", "unknown kind in sv::override_entry_point",
     OVR_EP + contract(NEW + INST, attrs="#[sv::override_entry_point(sudoo=my_sudo(Resp))]" + E + "\n"),
     OVR_EP + contract(NEW + INST, attrs="#[sv::override_entry_point(sudo=my_sudo(Resp))]\n"))
case("override_malformed", "sv::override_entry_point without the message type",
     OVR_EP + contract(NEW + INST, attrs="#[sv::override_entry_point(sudo=my_sudo)]" + E + "\n"),
     OVR_EP + contract(NEW + INST, attrs="#[sv::override_entry_point(sudo=my_sudo(Resp))]\n"))
case("messages_trailing_tokens", "unexpected tokens in sv::messages",
     IFACE_OK + "impl api::Api1 for Contract { type Error = StdError; fn run(&self, _c: ExecCtx, _a: u32) -> StdResult<Response> { Ok(Response::new()) } }\n" + contract(NEW + INST, attrs="#[sv::messages(api as Api1 extra)]" + E + "\n"),
     IFACE_OK + "impl api::Api1 for Contract { type Error = StdError; fn run(&self, _c: ExecCtx, _a: u32) -> StdResult<Response> { Ok(Response::new()) } }\n" + contract(NEW + INST, attrs="#[sv::messages(api as Api1)]\n"))
case("messages_bad_custom", "unknown member in sv::messages(..: custom(..))",
     IFACE_OK + "impl api::Api1 for Contract { type Error = StdError; fn run(&self, _c: ExecCtx, _a: u32) -> StdResult<Response> { Ok(Response::new()) } }\n" + contract(NEW + INST, attrs="#[sv::messages(api as Api1: custom(message))]" + E + "\n"),
     IFACE_OK + "impl api::Api1 for Contract { type Error = StdError; fn run(&self, _c: ExecCtx, _a: u32) -> StdResult<Response> { Ok(Response::new()) } }\n" + contract(NEW + INST, attrs="#[sv::messages(api as Api1)]\n"))

# ---- query response types that are not type paths (unit, tuple, array, reference): rejected with a located diagnostic (D23)
def nonpath_query(name, what, ty, val):
    case(name, what,
         contract(NEW + INST + f"    #[sv::msg(query)]\n    fn ask(&self, _ctx: QueryCtx) -> StdResult<{ty}> {{ Ok({val}) }}" + E + "\n"),
         contract(NEW + INST + "    #[sv::msg(query)]\n    fn ask(&self, _ctx: QueryCtx) -> StdResult<Resp> { Ok(Resp {}) }\n"))


nonpath_query("query_returns_unit", "query handler returning StdResult<()>", "()", "()")
nonpath_query("query_returns_tuple", "query handler returning a tuple", "(u32, String)", "(1, String::new())")
nonpath_query("query_returns_array", "query handler returning an array", "[u8; 4]", "[0u8; 4]")
nonpath_query("query_returns_reference", "query handler returning a reference", "&'static str", '""')

# ---- replies
R = "#[sv::features(replies)]\n"
PAY = "#[sv::payload(raw)] payload: Binary"
OK_S = f"    #[sv::msg(reply, handlers=[h], reply_on=success)]\n    fn on_ok(&self, _ctx: ReplyCtx, {PAY}) -> StdResult<Response> {{ Ok(Response::new()) }}\n"
OK_E = f"    #[sv::msg(reply, handlers=[h], reply_on=error)]\n    fn on_err(&self, _ctx: ReplyCtx, error: String, {PAY}) -> StdResult<Response> {{ Ok(Response::new()) }}\n"
case("reply_same_outcome_twice", "two methods claim the same reply name and outcome",
     contract(NEW + INST + OK_S + f"    #[sv::msg(reply, handlers=[h], reply_on=success)]{E}\n    fn on_ok2(&self, _ctx: ReplyCtx, {PAY}) -> StdResult<Response> {{ Ok(Response::new()) }}\n", attrs=R),
     contract(NEW + INST + OK_S + OK_E, attrs=R))
case("reply_always_plus_success", "an always method and a success method under one reply name",
     contract(NEW + INST + f"    #[sv::msg(reply, handlers=[h], reply_on=always)]\n    fn on_any(&self, _ctx: ReplyCtx, result: SubMsgResult, {PAY}) -> StdResult<Response> {{ Ok(Response::new()) }}\n" + OK_S.replace("reply_on=success)]", "reply_on=success)]" + E), attrs=R),
     contract(NEW + INST + f"    #[sv::msg(reply, handlers=[h2], reply_on=always)]\n    fn on_any(&self, _ctx: ReplyCtx, result: SubMsgResult, {PAY}) -> StdResult<Response> {{ Ok(Response::new()) }}\n" + OK_S, attrs=R))
case("reply_success_plus_always", "a success method and then an always method under one reply name (other declaration order)",
     contract(NEW + INST + OK_S + f"    #[sv::msg(reply, handlers=[h], reply_on=always)]{E}\n    fn on_any(&self, _ctx: ReplyCtx, result: SubMsgResult, {PAY}) -> StdResult<Response> {{ Ok(Response::new()) }}\n", attrs=R),
     contract(NEW + INST + OK_S + f"    #[sv::msg(reply, handlers=[h2], reply_on=always)]\n    fn on_any(&self, _ctx: ReplyCtx, result: SubMsgResult, {PAY}) -> StdResult<Response> {{ Ok(Response::new()) }}\n", attrs=R))
OK_E2 = OK_E.replace("fn on_err(", "fn on_err2(")
OK_S2 = OK_S.replace("fn on_ok(", "fn on_ok2(")
case("reply_three_methods_sse", "three methods under one reply name: success, error, error (the third repeats the outcome of the SECOND)",
     contract(NEW + INST + OK_S + OK_E + OK_E2.replace("reply_on=error)]", "reply_on=error)]" + E), attrs=R),
     contract(NEW + INST + OK_S + OK_E + OK_E2.replace("handlers=[h]", "handlers=[h2]"), attrs=R))
case("reply_three_methods_ess", "three methods under one reply name: error, success, success",
     contract(NEW + INST + OK_E + OK_S + OK_S2.replace("reply_on=success)]", "reply_on=success)]" + E), attrs=R),
     contract(NEW + INST + OK_E + OK_S + OK_S2.replace("handlers=[h]", "handlers=[h2]"), attrs=R))
case("reply_payload_type_mismatch", "merged reply methods with different payload types",
     contract(NEW + INST + "    #[sv::msg(reply, handlers=[h], reply_on=success)]\n    fn on_ok(&self, _ctx: ReplyCtx, p: u32) -> StdResult<Response> { Ok(Response::new()) }" + E + "\n"
              + "    #[sv::msg(reply, handlers=[h], reply_on=error)]\n    fn on_err(&self, _ctx: ReplyCtx, error: String, p: String) -> StdResult<Response> { Ok(Response::new()) }\n", attrs=R),
     contract(NEW + INST + "    #[sv::msg(reply, handlers=[h], reply_on=success)]\n    fn on_ok(&self, _ctx: ReplyCtx, p: u32) -> StdResult<Response> { Ok(Response::new()) }\n"
              + "    #[sv::msg(reply, handlers=[h], reply_on=error)]\n    fn on_err(&self, _ctx: ReplyCtx, error: String, p: u32) -> StdResult<Response> { Ok(Response::new()) }\n", attrs=R))
IDS = "pub mod orders {\n    #[sylvia::cw_schema::cw_serde]\n    pub struct Id(pub u64);\n}\npub mod accounts {\n    #[sylvia::cw_schema::cw_serde]\n    pub struct Id(pub String);\n}\npub struct Contract;"


def payload_mismatch(name, what, t_ok, t_err, second=False):
    """merged success/error methods whose payload types differ in a way a sloppy comparison would miss; twin: the same type twice"""
    lead = "n: u8, " if second else ""
    def prog(a, b, mark):
        return contract(NEW + INST + f"    #[sv::msg(reply, handlers=[h], reply_on=success)]\n    fn on_ok(&self, _ctx: ReplyCtx, {lead}p: {a}) -> StdResult<Response> {{ Ok(Response::new()) }}" + (E if mark else "") + "\n"
                        + f"    #[sv::msg(reply, handlers=[h], reply_on=error)]\n    fn on_err(&self, _ctx: ReplyCtx, error: String, {lead}p: {b}) -> StdResult<Response> {{ Ok(Response::new()) }}\n", attrs=R, struct=IDS)
    case(name, what, prog(t_ok, t_err, True), prog(t_ok, t_ok, False))


payload_mismatch("reply_payload_homonym_mismatch", "merged reply methods whose payload types are different types with the same final path segment (orders::Id / accounts::Id)", "orders::Id", "accounts::Id")
payload_mismatch("reply_payload_homonym_second_mismatch", "the same at the second payload position", "orders::Id", "accounts::Id", second=True)
payload_mismatch("reply_payload_generic_arg_mismatch", "merged reply methods whose payload types differ only in a generic argument (Option<u32> / Option<String>)", "Option<u32>", "Option<String>")
payload_mismatch("reply_payload_nested_homonym_mismatch", "payload types differing only in a nested homonymous argument (Vec<orders::Id> / Vec<accounts::Id>)", "Vec<orders::Id>", "Vec<accounts::Id>")
payload_mismatch("reply_payload_tuple_mismatch", "payload types that are tuples differing in one element", "(u32, orders::Id)", "(u32, accounts::Id)")
case("reply_payload_count_mismatch", "merged reply methods with a different number of payload parameters",
     contract(NEW + INST + "    #[sv::msg(reply, handlers=[h], reply_on=success)]\n    fn on_ok(&self, _ctx: ReplyCtx, p: u32, q: u32) -> StdResult<Response> { Ok(Response::new()) }" + E + "\n"
              + "    #[sv::msg(reply, handlers=[h], reply_on=error)]\n    fn on_err(&self, _ctx: ReplyCtx, error: String, p: u32) -> StdResult<Response> { Ok(Response::new()) }\n", attrs=R),
     contract(NEW + INST + "    #[sv::msg(reply, handlers=[h], reply_on=success)]\n    fn on_ok(&self, _ctx: ReplyCtx, p: u32, q: u32) -> StdResult<Response> { Ok(Response::new()) }\n"
              + "    #[sv::msg(reply, handlers=[h], reply_on=error)]\n    fn on_err(&self, _ctx: ReplyCtx, error: String, p: u32, q: u32) -> StdResult<Response> { Ok(Response::new()) }\n", attrs=R))
case("reply_missing_payload", "reply method without any payload parameter",
     contract(NEW + INST + "    #[sv::msg(reply, handlers=[h], reply_on=error)]\n    fn on_err(&self, _ctx: ReplyCtx, error: String) -> StdResult<Response> { Ok(Response::new()) }" + E + "\n", attrs=R),
     contract(NEW + INST + OK_E, attrs=R))
case("reply_data_not_first", "#[sv::data] on a parameter that is not the first after the context",
     contract(NEW + INST + f"    #[sv::msg(reply, handlers=[h], reply_on=success)]\n    fn on_ok(&self, _ctx: ReplyCtx, first: u32, #[sv::data(raw)] data: Binary) -> StdResult<Response> {{ Ok(Response::new()) }}{E}\n", attrs=R),
     contract(NEW + INST + f"    #[sv::msg(reply, handlers=[h], reply_on=success)]\n    fn on_ok(&self, _ctx: ReplyCtx, #[sv::data(raw)] data: Binary, first: u32) -> StdResult<Response> {{ Ok(Response::new()) }}\n", attrs=R))
case("reply_data_on_error_method", "#[sv::data] on an error method",
     contract(NEW + INST + f"    #[sv::msg(reply, handlers=[h], reply_on=error)]\n    fn on_err(&self, _ctx: ReplyCtx, #[sv::data(raw)] data: Binary, {PAY}) -> StdResult<Response> {{ Ok(Response::new()) }}{E}\n", attrs=R),
     contract(NEW + INST + OK_E, attrs=R))
case("reply_param_after_raw_payload", "a parameter after the raw payload",
     contract(NEW + INST + f"    #[sv::msg(reply, handlers=[h], reply_on=success)]\n    fn on_ok(&self, _ctx: ReplyCtx, {PAY}, more: u32) -> StdResult<Response> {{ Ok(Response::new()) }}{E}\n", attrs=R),
     contract(NEW + INST + OK_S, attrs=R))
case("data_instantiate_with_raw", "sv::data(instantiate, raw) is not a valid combination",
     contract(NEW + INST + f"    #[sv::msg(reply, handlers=[h], reply_on=success)]\n    fn on_ok(&self, _ctx: ReplyCtx, #[sv::data(instantiate, raw)] data: Binary, {PAY}) -> StdResult<Response> {{ Ok(Response::new()) }}{E}\n", attrs=R),
     contract(NEW + INST + f"    #[sv::msg(reply, handlers=[h], reply_on=success)]\n    fn on_ok(&self, _ctx: ReplyCtx, #[sv::data(raw)] data: Binary, {PAY}) -> StdResult<Response> {{ Ok(Response::new()) }}\n", attrs=R))
case("data_unknown_flag", "unknown flag in sv::data",
     contract(NEW + INST + f"    #[sv::msg(reply, handlers=[h], reply_on=success)]\n    fn on_ok(&self, _ctx: ReplyCtx, #[sv::data(optional)] data: Binary, {PAY}) -> StdResult<Response> {{ Ok(Response::new()) }}{E}\n", attrs=R),
     contract(NEW + INST + f"    #[sv::msg(reply, handlers=[h], reply_on=success)]\n    fn on_ok(&self, _ctx: ReplyCtx, #[sv::data(raw, opt)] data: Option<Binary>, {PAY}) -> StdResult<Response> {{ Ok(Response::new()) }}\n", attrs=R))
case("payload_unknown_flag", "unknown flag in sv::payload",
     contract(NEW + INST + "    #[sv::msg(reply, handlers=[h], reply_on=success)]\n    fn on_ok(&self, _ctx: ReplyCtx, #[sv::payload(bytes)] payload: Binary) -> StdResult<Response> { Ok(Response::new()) }" + E + "\n", attrs=R),
     contract(NEW + INST + OK_S, attrs=R))
case("payload_without_params", "#[sv::payload] without parameters",
     contract(NEW + INST + "    #[sv::msg(reply, handlers=[h], reply_on=success)]\n    fn on_ok(&self, _ctx: ReplyCtx, #[sv::payload] payload: Binary) -> StdResult<Response> { Ok(Response::new()) }" + E + "\n", attrs=R),
     contract(NEW + INST + OK_S, attrs=R))
case("payload_trailing_tokens", "unexpected tokens after `raw` in sv::payload",
     contract(NEW + INST + "    #[sv::msg(reply, handlers=[h], reply_on=success)]\n    fn on_ok(&self, _ctx: ReplyCtx, #[sv::payload(raw, extra)] payload: Binary) -> StdResult<Response> { Ok(Response::new()) }" + E + "\n", attrs=R),
     contract(NEW + INST + OK_S, attrs=R))
case("entry_points_bad_argument", "entry_points argument that is not generics<..>",
     contract(NEW + INST + RUN, pre="#[entry_points(types<Empty>)]" + E + "\n#[contract]"),
     contract(NEW + INST + RUN, pre="#[entry_points]\n#[contract]"))
case("reply_on_unknown", "unknown value of reply_on",
     contract(NEW + INST + f"    #[sv::msg(reply, handlers=[h], reply_on=failure)]{E}\n    fn on_err(&self, _ctx: ReplyCtx, error: String, {PAY}) -> StdResult<Response> {{ Ok(Response::new()) }}\n", attrs=R),
     contract(NEW + INST + OK_E, attrs=R))
case("msg_unknown_argument", "unknown argument in sv::msg",
     contract(NEW + INST + "    #[sv::msg(query, returns = Resp)]" + E + "\n    fn ask(&self, _ctx: QueryCtx) -> StdResult<Resp> { Ok(Resp {}) }\n"),
     contract(NEW + INST + "    #[sv::msg(query, resp = Resp)]\n    fn ask(&self, _ctx: QueryCtx) -> StdResult<Resp> { Ok(Resp {}) }\n"))
case("missing_new", "contract without a `new` constructor",
     contract(INST + RUN, pre="#[contract]" + E),
     contract(NEW + INST + RUN))
case("new_with_parameters", "`new` that takes parameters",
     contract("    pub fn new(x: u32) -> Self { Self }" + E + "\n" + INST + RUN),
     contract(NEW + INST + RUN))
case("no_instantiate", "contract without an instantiate handler",
     contract(NEW + RUN, pre="#[contract]" + E),
     contract(NEW + INST + RUN))


def main():
    os.makedirs(OUT, exist_ok=True)
    for f in os.listdir(OUT):
        os.unlink(os.path.join(OUT, f))
    for name, what, fail, ok in CASES:
        with open(os.path.join(OUT, name + ".rs"), "w") as f:
            f.write(f"//@ props: C18\n//@ expect: fail\n//@ index: no\n//@ what: {what}\n" + PRELUDE + "\n" + fail + "\nfn main() {}\n")
        with open(os.path.join(OUT, name + "_twin.rs"), "w") as f:
            f.write(f"//@ props: C18\n//@ expect: pass\n//@ index: no\n//@ what: compiling twin of {name}\n" + PRELUDE + "\n" + ok + "\nfn main() {}\n")
    d = os.path.join(OUT, "..", "..")
    with open(os.path.join(d, "Cargo.toml.in"), "w") as f:
        f.write("""[package]
name = "w-invalid"
version = "0.0.0"
edition = "2021"

[dependencies]
@SYLVIA_DEP@
@SERDE_DEP@
@DEP:cosmwasm-std@
@DEP:cosmwasm-schema@
@DEP:schemars@
""")
    print(len(CASES), "offences,", 2 * len(CASES), "programs")


if __name__ == "__main__":
    main()
