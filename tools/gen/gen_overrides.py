#!/usr/bin/env python3
"""Generates override-subset witness libraries for C06/C12:
   corpus/w-overrides (quick): each kind alone, a pair, all six, none; migrate/reply handlers present or absent;
                               replies feature on/off; one generic contract.
   corpus/w-overrides-all (thorough): all 64 subsets x {migrate+reply handlers present, absent} x replies on/off."""
import itertools
import os

HERE = os.path.dirname(os.path.abspath(__file__))
KINDS = ["instantiate", "exec", "query", "sudo", "migrate", "reply"]
EP = {"instantiate": "instantiate", "exec": "execute", "query": "query", "sudo": "sudo", "migrate": "migrate", "reply": "reply"}

HEADER = """//@ props: C06 C12 C04
//@ expect: pass
//@ what: {what}
#![allow(dead_code, unused_imports, deprecated, clippy::new_without_default)]
use sylvia::ctx::{{ExecCtx, InstantiateCtx, MigrateCtx, QueryCtx, ReplyCtx, SudoCtx}};
use sylvia::cw_std::{{Binary, Deps, DepsMut, Empty, Env, MessageInfo, Reply, Response, StdError, StdResult}};
use sylvia::{{contract, entry_points}};

#[sylvia::cw_schema::cw_serde]
pub struct Resp {{}}
"""


def eps_module(subset):
    fns = []
    for k in subset:
        if k in ("instantiate", "exec"):
            fns.append(f"        pub fn {EP[k]}(_deps: DepsMut, _env: Env, _info: MessageInfo, _msg: Custom{k.capitalize()}) -> StdResult<Response> {{ Ok(Response::new()) }}")
        elif k == "query":
            fns.append("        pub fn query(_deps: Deps, _env: Env, _msg: CustomQuery) -> StdResult<Binary> { Ok(Binary::default()) }")
        elif k == "reply":
            fns.append("        pub fn reply(_deps: DepsMut, _env: Env, _msg: Reply) -> StdResult<Response> { Ok(Response::new()) }")
        else:
            fns.append(f"        pub fn {EP[k]}(_deps: DepsMut, _env: Env, _msg: Custom{k.capitalize()}) -> StdResult<Response> {{ Ok(Response::new()) }}")
    types = "\n".join(f"        #[sylvia::cw_schema::cw_serde]\n        pub struct Custom{k.capitalize()} {{}}" for k in subset if k != "reply")
    return "    pub mod eps {\n        use super::super::*;\n" + types + "\n" + "\n".join(fns) + "\n    }\n"


def module(name, subset, with_mr, replies, generic=False, shared=False):
    ovr = []
    for k in subset:
        # shared: every overridden kind names the SAME function path and message type (legal when the signatures agree:
        # instantiate/exec, and sudo/migrate/reply with a Reply message)
        f = subset[-1] if shared else k
        msg = "sylvia::cw_std::Reply" if f == "reply" else f"eps::Custom{f.capitalize()}"
        ovr.append(f"    #[sv::override_entry_point({k}=eps::{EP[f]}({msg}))]")
    feats = "    #[sv::features(replies)]\n" if replies else ""
    g_decl = "<T>" if generic else ""
    g_use = "<T>" if generic else ""
    g_where = " where T: sylvia::types::CustomMsg + 'static" if generic else ""
    ep_args = "(generics<Empty>)" if generic else ""
    struct = "pub struct Contract<T> { _p: std::marker::PhantomData<T> }" if generic else "pub struct Contract;"
    new_body = "Self { _p: std::marker::PhantomData }" if generic else "Self"
    exec_arg = ", _t: Option<T>" if generic else ""
    mr = ""
    if with_mr:
        mr += "        #[sv::msg(migrate)]\n        fn migrate(&self, _ctx: MigrateCtx) -> StdResult<Response> { Ok(Response::new()) }\n"
        if replies:
            mr += "        #[sv::msg(reply, handlers=[on_done], reply_on=success)]\n        fn on_done(&self, _ctx: ReplyCtx, #[sv::payload(raw)] _payload: Binary) -> StdResult<Response> { Ok(Response::new()) }\n"
        else:
            mr += "        #[sv::msg(reply)]\n        fn reply(&self, _ctx: sylvia::types::ReplyCtx, _msg: Reply) -> StdResult<Response> { Ok(Response::new()) }\n"
    return f"""
pub mod {name} {{
    use super::*;
{eps_module(subset[-1:] if shared else subset)}
    {struct}

    #[entry_points{ep_args}]
    #[contract]
{feats}{chr(10).join(ovr)}
    impl{g_decl} Contract{g_use}{g_where} {{
        pub fn new() -> Self {{ {new_body} }}
        #[sv::msg(instantiate)]
        fn instantiate(&self, _ctx: InstantiateCtx) -> StdResult<Response> {{ Ok(Response::new()) }}
        #[sv::msg(exec)]
        fn do_exec(&self, _ctx: ExecCtx{exec_arg}) -> StdResult<Response> {{ Ok(Response::new()) }}
        #[sv::msg(query)]
        fn do_query(&self, _ctx: QueryCtx) -> StdResult<Resp> {{ Ok(Resp {{}}) }}
        #[sv::msg(sudo)]
        fn do_sudo(&self, _ctx: SudoCtx) -> StdResult<Response> {{ Ok(Response::new()) }}
{mr}    }}
}}
"""


def sub_name(subset):
    return "none" if not subset else "_".join(k[:4] for k in subset)


def write_pkg(pkg, what, mods, tier=None):
    d = os.path.join(HERE, "..", "..", "corpus", pkg)
    os.makedirs(os.path.join(d, "src"), exist_ok=True)
    with open(os.path.join(d, "src", "lib.rs"), "w") as f:
        f.write(HEADER.format(what=what) + "".join(mods))
    with open(os.path.join(d, "Cargo.toml.in"), "w") as f:
        f.write(f"""[package]
name = "{pkg}"
version = "0.0.0"
edition = "2021"

[lib]
test = false
doctest = false

[dependencies]
@SYLVIA_DEP@
@VPROBE_DEP@
@SERDE_DEP@
@DEP:cosmwasm-std@
@DEP:cosmwasm-schema@
@DEP:schemars@
""")
    if tier:
        with open(os.path.join(d, "TIER"), "w") as f:
            f.write(tier + "\n")
    print(pkg, len(mods), "modules")


def main():
    mods = []
    for k in KINDS:
        mods.append(module(f"ovr_{k[:4]}_mr_r", [k], True, True))
    for k in ("migrate", "reply"):
        mods.append(module(f"ovr_{k[:4]}_nomr", [k], False, False))     # override of a kind without a handler
        mods.append(module(f"ovr_{k[:4]}_mr_legacy", [k], True, False))
    mods.append(module("ovr_pair_mr_r", ["query", "sudo"], True, True))
    mods.append(module("ovr_pair2_nomr", ["instantiate", "exec"], False, False))
    mods.append(module("ovr_all_mr_r", KINDS, True, True))
    mods.append(module("ovr_none_mr_r", [], True, True))
    mods.append(module("ovr_none_mr_legacy", [], True, False))
    mods.append(module("ovr_none_nomr", [], False, False))
    for k in ("exec", "query"):
        mods.append(module(f"ovr_gen_{k[:4]}", [k], True, True, generic=True))
    mods.append(module("ovr_gen_none", [], True, True, generic=True))
    # the `replies` feature switched on without any reply handler (and without migrate): no reply / migrate entry point
    mods.append(module("ovr_none_nomr_r", [], False, True))
    mods.append(module("ovr_sudo_nomr_r", ["sudo"], False, True))
    mods.append(module("ovr_gen_none_nomr_r", [], False, True, generic=True))
    # several kinds overridden by one shared function path
    mods.append(module("ovr_shared_sudo_migr", ["sudo", "migrate"], True, True, shared=True))
    mods.append(module("ovr_shared_inst_exec", ["instantiate", "exec"], True, False, shared=True))
    mods.append(module("ovr_shared_sudo_migr_repl", ["sudo", "migrate", "reply"], True, True, shared=True))
    mods.append(module("ovr_shared_migr_sudo_nomr", ["migrate", "sudo"], False, False, shared=True))
    write_pkg("w-overrides", "override subsets (quick): each kind alone, pairs, all, none; migrate/reply handlers present/absent; replies on/off; generic", mods)
    mods = []
    for r in range(0, 7):
        for subset in itertools.combinations(KINDS, r):
            for with_mr in (True, False):
                for replies in (True, False):
                    nm = f"s_{sub_name(subset)}_{'mr' if with_mr else 'nomr'}_{'r' if replies else 'l'}"
                    mods.append(module(nm, list(subset), with_mr, replies))
    write_pkg("w-overrides-all", "all 64 override subsets x migrate/reply handlers present/absent x replies feature on/off", mods, tier="thorough")


if __name__ == "__main__":
    main()
