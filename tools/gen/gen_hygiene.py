#!/usr/bin/env python3
"""Generates C19 witnesses:
   corpus/w-names/src/bin/*.rs : generic contracts / interfaces whose type parameters (associated types) use every single
                                 upper-case letter and conventional words; each must type-check.
   corpus/w-renamed/src/lib.rs : the reply + override witness suites and an interface/contract suite compiled in a crate whose
                                 ONLY dependency is `sv_renamed = { package = "sylvia" }`."""
import os
import re
import string

HERE = os.path.dirname(os.path.abspath(__file__))
CORPUS = os.path.join(HERE, "..", "..", "corpus")

WORDS = ["Msg", "Query", "Param", "Exec", "Sudo", "Data", "Error", "Contract", "App", "Api", "Custom", "Storage", "Resp", "Payload",
         "Item", "Ctx", "Response", "Binary", "Addr", "Remote", "State", "Value", "Key", "Ret", "Return", "Input", "Output", "Args"]


def contract_prog(what, params, with_iface=True):
    """a generic contract using every parameter: exec args, query args, query response, sudo, instantiate, migrate, reply payload"""
    ps = ", ".join(params)
    bounds = "\n".join(f"    {p}: sylvia::types::CustomMsg + 'static," for p in params)
    n = len(params)
    ex = params[0 % n]
    qa = params[1 % n]
    qr = params[2 % n]
    su = params[3 % n]
    ins = params[4 % n]
    mig = params[5 % n]
    rp = params[6 % n]
    return f"""//@ props: C19
//@ expect: pass
//@ index: no
//@ what: {what}
#![allow(dead_code, non_camel_case_types, clippy::type_complexity, clippy::new_without_default)]
use sylvia::{{contract, entry_points}};

type WitResult = sylvia::cw_std::StdResult<sylvia::cw_std::Response>;
fn ok() -> WitResult {{ Ok(sylvia::cw_std::Response::new()) }}

pub struct Holder<{ps}> {{
    _p: std::marker::PhantomData<({ps},)>,
}}

#[entry_points(generics<{', '.join(['sylvia::cw_std::Empty'] * n)}>)]
#[contract]
#[sv::features(replies)]
impl<{ps}> Holder<{ps}>
where
{bounds}
{{
    pub fn new() -> Self {{
        Self {{ _p: std::marker::PhantomData }}
    }}
    #[sv::msg(instantiate)]
    fn instantiate(&self, _ctx: sylvia::ctx::InstantiateCtx, _a: {ins}) -> WitResult {{ ok() }}
    #[sv::msg(exec)]
    fn run(&self, _ctx: sylvia::ctx::ExecCtx, _a: {ex}, _b: Vec<Option<{qa}>>) -> WitResult {{ ok() }}
    #[sv::msg(query)]
    fn ask(&self, _ctx: sylvia::ctx::QueryCtx, _a: {qa}, _b: {rp}) -> Result<{qr}, sylvia::cw_std::StdError> {{ unimplemented!() }}
    #[sv::msg(sudo)]
    fn force(&self, _ctx: sylvia::ctx::SudoCtx, _a: {su}) -> WitResult {{ ok() }}
    #[sv::msg(migrate)]
    fn migrate(&self, _ctx: sylvia::ctx::MigrateCtx, _a: {mig}) -> WitResult {{ ok() }}
    #[sv::msg(reply, handlers=[done], reply_on=success)]
    fn done(&self, _ctx: sylvia::ctx::ReplyCtx, _p: u32) -> WitResult {{ ok() }}
}}

fn main() {{}}
"""


def iface_prog(what, assoc):
    decl = "\n".join(f"        type {a}: sylvia::types::CustomMsg + 'static;" for a in assoc)
    n = len(assoc)
    impl_types = "\n".join(f"    type {a} = Empty;" for a in assoc)
    return f"""//@ props: C19
//@ expect: pass
//@ index: no
//@ what: {what}
#![allow(dead_code, non_camel_case_types, clippy::new_without_default)]
use sylvia::ctx::{{ExecCtx, InstantiateCtx, QueryCtx, SudoCtx}};
use sylvia::cw_std::{{Empty, Response, StdError, StdResult}};
use sylvia::{{contract, interface}};

pub mod api {{
    use sylvia::ctx::{{ExecCtx, QueryCtx, SudoCtx}};
    use sylvia::interface;
    #[interface]
    #[sv::custom(msg = sylvia::cw_std::Empty, query = sylvia::cw_std::Empty)]
    pub trait Api2 {{
        type Error: From<sylvia::cw_std::StdError>;
{decl}
        #[sv::msg(exec)]
        fn run(&self, ctx: ExecCtx, a: Self::{assoc[0 % n]}, b: Vec<Self::{assoc[1 % n]}>) -> Result<sylvia::cw_std::Response, Self::Error>;
        #[sv::msg(query)]
        fn ask(&self, ctx: QueryCtx, a: Self::{assoc[2 % n]}, b: Self::{assoc[5 % n]}, c: Self::{assoc[6 % n]}) -> Result<Self::{assoc[3 % n]}, Self::Error>;
        #[sv::msg(sudo)]
        fn force(&self, ctx: SudoCtx, a: Self::{assoc[4 % n]}) -> Result<sylvia::cw_std::Response, Self::Error>;
    }}
}}

pub struct Holder;

impl api::Api2 for Holder {{
    type Error = StdError;
{impl_types}
    fn run(&self, _ctx: ExecCtx, _a: Empty, _b: Vec<Empty>) -> StdResult<Response> {{ Ok(Response::new()) }}
    fn ask(&self, _ctx: QueryCtx, _a: Empty, _b: Empty, _c: Empty) -> StdResult<Empty> {{ Ok(Empty {{}}) }}
    fn force(&self, _ctx: SudoCtx, _a: Empty) -> StdResult<Response> {{ Ok(Response::new()) }}
}}

#[contract]
#[sv::messages(api as Api2)]
impl Holder {{
    pub fn new() -> Self {{ Self }}
    #[sv::msg(instantiate)]
    fn instantiate(&self, _ctx: InstantiateCtx) -> StdResult<Response> {{ Ok(Response::new()) }}
}}

fn main() {{}}
"""


def write(path, text):
    os.makedirs(os.path.dirname(path), exist_ok=True)
    with open(path, "w") as f:
        f.write(text)


def gen_names():
    d = os.path.join(CORPUS, "w-names")
    bdir = os.path.join(d, "src", "bin")
    if os.path.isdir(bdir):
        for f in os.listdir(bdir):
            os.unlink(os.path.join(bdir, f))
    write(os.path.join(d, "Cargo.toml.in"), """[package]
name = "w-names"
version = "0.0.0"
edition = "2021"

[dependencies]
@SYLVIA_DEP@
@SERDE_DEP@
@DEP:cosmwasm-std@
@DEP:cosmwasm-schema@
@DEP:schemars@
""")
    letters = list(string.ascii_uppercase)
    n = 0
    # each letter alone would be 26 programs; groups of 7 keep the count small, and singletons localise a failure
    for i in range(0, 26, 7):
        grp = letters[i:i + 7]
        write(os.path.join(bdir, f"contract_letters_{grp[0]}_{grp[-1]}.rs".lower()), contract_prog(f"generic contract over single-letter parameters {''.join(grp)}", grp))
        n += 1
    for i in range(0, len(WORDS), 7):
        grp = WORDS[i:i + 7]
        write(os.path.join(bdir, f"contract_words_{i // 7}.rs"), contract_prog(f"generic contract over conventionally named parameters {', '.join(grp)}", grp))
        n += 1
    for i in range(0, 26, 7):
        grp = [l for l in letters[i:i + 7]]
        write(os.path.join(bdir, f"iface_letters_{grp[0]}_{grp[-1]}.rs".lower()), iface_prog(f"interface whose associated types are the single letters {''.join(grp)}", grp))
        n += 1
    # `Error` is the mandatory associated type; `Api` is the name of a generated *item* (struct sv::Api), not a helper type parameter
    iw = [w for w in WORDS if w not in ("Error", "Api")]
    for i in range(0, len(iw), 7):
        grp = iw[i:i + 7]
        write(os.path.join(bdir, f"iface_words_{i // 7}.rs"), iface_prog(f"interface whose associated types are named {', '.join(grp)}", grp))
        n += 1
    print("w-names", n, "programs")


DERIVE = ('#[derive(fw::serde::Serialize, fw::serde::Deserialize, Clone, Debug, PartialEq, fw::schemars::JsonSchema)]\n'
          '#[serde(crate = "fw::serde")]\n#[schemars(crate = "fw::schemars")]')


def rename(src):
    src = re.sub(r"^//@.*\n", "", src, flags=re.M)
    src = re.sub(r"^#!\[allow\([^\]]*\)\]\n", "", src, flags=re.M)
    src = src.replace("#[sylvia::cw_schema::cw_serde]", DERIVE)
    src = re.sub(r"\bsylvia::", "fw::", src)
    return src


IFACE_SUITE = '''
pub mod iface_suite {
    use fw::ctx::{ExecCtx, InstantiateCtx, QueryCtx, SudoCtx};
    use fw::cw_std::{Empty, Response, StdError, StdResult};
    use fw::{contract, entry_points, interface};

    DERIVE
    pub struct MyMsg {}
    impl fw::cw_std::CustomMsg for MyMsg {}
    DERIVE
    pub struct MyQuery {}
    impl fw::cw_std::CustomQuery for MyQuery {}
    DERIVE
    pub struct Resp {}

    pub mod native {
        use super::*;
        #[interface]
        #[sv::custom(msg = Empty, query = Empty)]
        pub trait Native {
            type Error: From<StdError>;
            #[sv::msg(exec)]
            fn n_exec(&self, ctx: ExecCtx, a: u32) -> Result<Response, Self::Error>;
            #[sv::msg(query)]
            fn n_query(&self, ctx: QueryCtx) -> Result<Resp, Self::Error>;
            #[sv::msg(sudo)]
            fn n_sudo(&self, ctx: SudoCtx) -> Result<Response, Self::Error>;
        }
    }
    pub mod assoc {
        use super::*;
        #[interface]
        pub trait Assoc {
            type Error: From<StdError>;
            type ExecC: fw::types::CustomMsg;
            type QueryC: fw::types::CustomQuery;
            type Extra: fw::types::CustomMsg + 'static;
            #[sv::msg(exec)]
            fn a_exec(&self, ctx: ExecCtx<Self::QueryC>, a: Self::Extra) -> Result<Response<Self::ExecC>, Self::Error>;
            #[sv::msg(query)]
            fn a_query(&self, ctx: QueryCtx<Self::QueryC>) -> Result<Self::Extra, Self::Error>;
        }
    }

    pub struct Contract<T> { _p: std::marker::PhantomData<T> }

    impl<T: fw::types::CustomMsg + 'static> native::Native for Contract<T> {
        type Error = StdError;
        fn n_exec(&self, _ctx: ExecCtx, _a: u32) -> StdResult<Response> { Ok(Response::new()) }
        fn n_query(&self, _ctx: QueryCtx) -> StdResult<Resp> { Ok(Resp {}) }
        fn n_sudo(&self, _ctx: SudoCtx) -> StdResult<Response> { Ok(Response::new()) }
    }
    impl<T: fw::types::CustomMsg + 'static> assoc::Assoc for Contract<T> {
        type Error = StdError;
        type ExecC = MyMsg;
        type QueryC = MyQuery;
        type Extra = T;
        fn a_exec(&self, _ctx: ExecCtx<MyQuery>, _a: T) -> StdResult<Response<MyMsg>> { Ok(Response::new()) }
        fn a_query(&self, _ctx: QueryCtx<MyQuery>) -> StdResult<T> { unimplemented!() }
    }

    #[entry_points(generics<Empty>)]
    #[contract]
    #[sv::custom(msg = MyMsg, query = MyQuery)]
    #[sv::messages(native: custom(msg, query))]
    #[sv::messages(assoc)]
    impl<T> Contract<T> where T: fw::types::CustomMsg + 'static {
        pub fn new() -> Self { Self { _p: std::marker::PhantomData } }
        #[sv::msg(instantiate)]
        fn instantiate(&self, _ctx: InstantiateCtx<MyQuery>, _t: T) -> StdResult<Response<MyMsg>> { Ok(Response::new()) }
        #[sv::msg(exec)]
        fn own_exec(&self, _ctx: ExecCtx<MyQuery>, _t: Vec<T>) -> StdResult<Response<MyMsg>> { Ok(Response::new()) }
        #[sv::msg(query)]
        fn own_query(&self, _ctx: QueryCtx<MyQuery>) -> StdResult<Resp> { Ok(Resp {}) }
    }
}
'''.replace("DERIVE", DERIVE)


def gen_renamed():
    d = os.path.join(CORPUS, "w-renamed")
    write(os.path.join(d, "Cargo.toml.in"), """[package]
name = "w-renamed"
version = "0.0.0"
edition = "2021"

[lib]
test = false
doctest = false

[dependencies]
sv_renamed = { package = "sylvia", path = "@REPO@/sylvia", features = [@SYLVIA_FEATURES@] }
""")
    parts = ["""//@ props: C19
//@ expect: pass
//@ index: no
//@ what: reply suite, override suite and an interface/custom/generic suite compiled in a crate whose only dependency is `sv_renamed = { package = "sylvia" }`
#![allow(dead_code, unused_imports, unused_variables, deprecated, clippy::new_without_default)]
extern crate sv_renamed as fw;
"""]
    for pkg, modname in (("w-reply", "reply_suite"), ("w-overrides", "override_suite")):
        with open(os.path.join(CORPUS, pkg, "src", "lib.rs")) as f:
            src = rename(f.read())
        src = src.replace("use super::super::*;", "use super::super::*;")
        parts.append(f"\npub mod {modname} {{\n" + "\n".join("    " + l if l.strip() else l for l in src.split("\n")) + "\n}\n")
    parts.append(IFACE_SUITE)
    write(os.path.join(d, "src", "lib.rs"), "".join(parts))
    print("w-renamed written")


if __name__ == "__main__":
    gen_names()
    gen_renamed()
