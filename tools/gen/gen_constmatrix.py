#!/usr/bin/env python3
"""Generates the const-eval matrix for sylvia::utils::assert_no_intersection (C05 e):
every tuple of <= 3 sorted duplicate-free lists of length <= 2 over a 3-letter alphabet, one const item per line.
Lines whose lists share a name carry `//~ ERROR`; the check requires rustc's rejected set == marked set."""
import itertools
import os

OUT = os.path.join(os.path.dirname(os.path.abspath(__file__)), "..", "..", "corpus", "w-constmatrix", "src", "bin")


def lists(alpha):
    out = [[]]
    for n in (1, 2):
        for c in itertools.combinations(sorted(alpha), n):
            out.append(list(c))
    return out


def emit(name, alpha, what):
    L = lists(alpha)
    lines = [f"//@ props: C05\n//@ expect: fail\n//@ exact: yes\n//@ index: no\n//@ what: {what}\n#![allow(dead_code)]\n"]
    n = 0
    nfail = 0
    for N in (1, 2, 3):
        for tup in itertools.product(L, repeat=N):
            seen = set()
            clash = False
            for l in tup:
                for x in l:
                    if x in seen:
                        clash = True
                    seen.add(x)
            arr = ", ".join("&[" + ", ".join(f'"{x}"' for x in l) + "]" for l in tup)
            mark = " //~ ERROR" if clash else ""
            lines.append(f"const _: () = {{ let m: [&[&str]; {N}] = [{arr}]; sylvia::utils::assert_no_intersection(m) }};{mark}\n")
            n += 1
            nfail += clash
    lines.append("fn main() {}\n")
    with open(os.path.join(OUT, name + ".rs"), "w") as f:
        f.write("".join(lines))
    print(name, n, "tuples,", nfail, "must be rejected")


os.makedirs(OUT, exist_ok=True)
emit("matrix_abc", ["a", "b", "c"], "all tuples of <=3 sorted duplicate-free lists (len<=2) over {a,b,c}: rejected iff two lists share a name")
emit("matrix_prefix", ["a", "aa", "ab"], "same over {a,aa,ab}: names that are prefixes of each other are distinct")
emit("matrix_len", ["aa", "b", "c"], "same over {aa,b,c}: a longer name that sorts BEFORE shorter ones (the scan must advance in lexicographic, not length, order)")
emit("matrix_len2", ["a", "bb", "c"], "same over {a,bb,c}: a longer name between shorter ones")
