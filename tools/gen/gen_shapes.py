#!/usr/bin/env python3
"""Generates the name-shape witness libraries (C01-C05, C10):
   corpus/w-shapes (quick): representatives of the method-name shapes that the casing routines involved (convert_case in sylvia,
       serde's rename_all, cosmwasm-schema's) treat differently, under exec / query / sudo, in a contract, in an interface and in a
       contract using that interface; plus the twin-name programs (`setup_1` exec next to `setup1` instantiate).
   corpus/w-shapes-all (thorough): every name over the classes {letter, digit, underscore} up to length 5 (one letter/digit per class)
       that is a valid identifier, spread over contracts of <= 12 handlers with pairwise distinct variant/constructor names."""
import itertools
import os
import re

HERE = os.path.dirname(os.path.abspath(__file__))
CORPUS = os.path.join(HERE, "..", "..", "corpus")

HEADER = """//@ props: C01 C02 C03 C04 C05 C10
//@ expect: pass
//@ what: {what}
#![allow(dead_code, unused_variables, non_snake_case, clippy::new_without_default)]
use sylvia::ctx::{{ExecCtx, InstantiateCtx, QueryCtx, SudoCtx}};
use sylvia::cw_std::{{Response, StdError, StdResult}};
use sylvia::{{contract, entry_points, interface}};

#[sylvia::cw_schema::cw_serde]
pub struct Resp {{}}
"""

REPRESENTATIVES = ["foo2_bar", "step_2", "a_b_c", "v1", "x1y", "ab_cd_e", "a1_b2", "foo_bar2", "a", "_lead", "trail_", "a__b", "__x__y", "get_v2_info", "s3_key_7",
                   # non-ASCII identifiers (legal Rust): serde's rename rule lower-cases ASCII only, so the upper-case first letter of a word survives
                   "überweisen", "konto_ändern", "zurück_setzen"]


def upper_camel_guess(n):
    # only used to keep names with identical variant / constructor identifiers apart; being wrong costs a compile error, not soundness
    parts = re.split(r"_+|(?<=[^\W\d_])(?=[0-9])|(?<=[0-9])(?=[^\W\d_])", n)
    return "".join(p[:1].upper() + p[1:] for p in parts if p)


def snake_guess(n):
    return re.sub(r"_+", "_", n.strip("_")).replace("_", "")


def groups(names, size):
    out = []
    for n in names:
        placed = False
        for g in out:
            if len(g) < size and all(upper_camel_guess(n).lower() != upper_camel_guess(x).lower() and snake_guess(n) != snake_guess(x) for x in g):
                g.append(n)
                placed = True
                break
        if not placed:
            out.append([n])
    return out


def contract_mod(mod, kind_names, iface=None):
    ctx = {"exec": "ExecCtx", "query": "QueryCtx", "sudo": "SudoCtx"}
    ms = []
    for kind, names in kind_names.items():
        for n in names:
            if kind == "query":
                ms.append(f"        #[sv::msg(query)]\n        fn {n}(&self, _ctx: QueryCtx, first: u32, second: u32) -> StdResult<Resp> {{ Ok(Resp {{}}) }}\n")
            else:
                ms.append(f"        #[sv::msg({kind})]\n        fn {n}(&self, _ctx: {ctx[kind]}, first: u32, second: u32) -> StdResult<Response> {{ Ok(Response::new()) }}\n")
    msgs = f"    #[sv::messages({iface})]\n" if iface else ""
    return f"""
pub mod {mod} {{
    use super::*;
    pub struct Contract;

    #[entry_points]
    #[contract]
{msgs}    impl Contract {{
        pub fn new() -> Self {{ Self }}
        #[sv::msg(instantiate)]
        fn instantiate(&self, _ctx: InstantiateCtx) -> StdResult<Response> {{ Ok(Response::new()) }}
{''.join(ms)}    }}
}}
"""


def iface_mod(mod, trait, kind_names, impl_for=None):
    ctx = {"exec": "ExecCtx", "query": "QueryCtx", "sudo": "SudoCtx"}
    ms, ims = [], []
    for kind, names in kind_names.items():
        for n in names:
            ret = "Result<Resp, Self::Error>" if kind == "query" else "Result<Response, Self::Error>"
            ms.append(f"        #[sv::msg({kind})]\n        fn {n}(&self, ctx: {ctx[kind]}, first: u32, second: u32) -> {ret};\n")
            body = "Ok(Resp {})" if kind == "query" else "Ok(Response::new())"
            r2 = "StdResult<Resp>" if kind == "query" else "StdResult<Response>"
            ims.append(f"        fn {n}(&self, _ctx: {ctx[kind]}, first: u32, second: u32) -> {r2} {{ {body} }}\n")
    s = f"""
pub mod {mod} {{
    use super::*;
    #[interface]
    #[sv::custom(msg = sylvia::cw_std::Empty, query = sylvia::cw_std::Empty)]
    pub trait {trait} {{
        type Error: From<StdError>;
{''.join(ms)}    }}
}}
"""
    impl = f"    impl super::{mod}::{trait} for Contract {{\n        type Error = StdError;\n{''.join(ims)}    }}\n"
    return s, impl


def write_pkg(pkg, what, mods, tier=None):
    d = os.path.join(CORPUS, pkg)
    os.makedirs(os.path.join(d, "src"), exist_ok=True)
    with open(os.path.join(d, "src", "lib.rs"), "w") as f:
        f.write(HEADER.format(what=what) + "".join(mods))
    with open(os.path.join(d, "Cargo.toml.in"), "w") as f:
        f.write(f"""[package]
name = "{pkg}"
version = "0.0.0"
edition = "2021"

[lib]
test = false
doctest = false

[dependencies]
@SYLVIA_DEP@
@VPROBE_DEP@
@SERDE_DEP@
@DEP:cosmwasm-std@
@DEP:cosmwasm-schema@
@DEP:schemars@
""")
    if tier:
        with open(os.path.join(d, "TIER"), "w") as f:
            f.write(tier + "\n")
    print(pkg, len(mods), "modules")


def build(names, per_contract, prefix):
    mods = []
    gs = groups(names, per_contract)
    for i, g in enumerate(gs):
        third = max(1, len(g) // 3)
        ke = {"exec": g[:third], "query": g[third:2 * third], "sudo": g[2 * third:]}
        mods.append(contract_mod(f"{prefix}c{i}", ke))
        # the same names with the kinds rotated, in an interface used by a contract whose own names are a fixed disjoint set
        ki = {"exec": g[2 * third:], "query": g[:third], "sudo": g[third:2 * third]}
        im, impl = iface_mod(f"{prefix}i{i}", f"Shapes{i}", ki)
        mods.append(im)
        user = contract_mod(f"{prefix}u{i}", {"exec": ["zz_own_exec"], "query": ["zz_own_query"]}, iface=f"super::{prefix}i{i} as Shapes{i}")
        user = user.replace("    #[entry_points]\n", impl + "\n    #[entry_points]\n")
        mods.append(user)
    return mods


def main():
    mods = build(REPRESENTATIVES, 9, "r")
    # twin names: a handler whose name does not survive UpperCamel -> snake next to a handler of another kind with the collapsed name
    mods.append("""
pub mod twin_exec_instantiate {
    use super::*;
    pub struct Contract;

    #[entry_points]
    #[contract]
    impl Contract {
        pub fn new() -> Self { Self }
        #[sv::msg(instantiate)]
        fn setup1(&self, _ctx: InstantiateCtx, owner: String) -> StdResult<Response> { Ok(Response::new().add_attribute("kind", "instantiate")) }
        #[sv::msg(exec)]
        fn setup_1(&self, _ctx: ExecCtx, owner: String) -> StdResult<Response> { Ok(Response::new().add_attribute("kind", "exec")) }
        #[sv::msg(exec)]
        fn plain(&self, _ctx: ExecCtx) -> StdResult<Response> { Ok(Response::new()) }
    }
}
""")
    write_pkg("w-shapes", "method-name shape representatives under exec/query/sudo in contracts, interfaces and contracts using them; twin names setup_1 (exec) / setup1 (instantiate)", mods)

    # ---- thorough: all class sequences up to length 5
    classes = {"L": "a", "D": "2", "U": "_"}
    names = []
    for n in range(1, 6):
        for seq in itertools.product("LDU", repeat=n):
            if seq[0] == "D":
                continue
            if all(c == "U" for c in seq):
                continue
            # the first non-underscore character must be a letter: `_2` has no UpperCamel form (the macro panics with
            # "`2` is not a valid identifier"); such names are outside every property's quantifier
            first = next(c for c in seq if c != "U")
            if first == "D":
                continue
            # letters vary by position so that words differ: a, b, c ...
            s = ""
            li = 0
            for c in seq:
                if c == "L":
                    s += "abcde"[li]
                    li += 1
                elif c == "D":
                    s += "2"
                else:
                    s += "_"
            if s in ("a", "as", "do", "fn", "if", "in"):
                pass
            names.append(s)
    names = sorted(set(names))
    mods = build(names, 12, "t")
    write_pkg("w-shapes-all", f"all {len(names)} method names over the classes letter/digit/underscore up to length 5, under exec/query/sudo in contracts, interfaces and contracts using them", mods, tier="thorough")


if __name__ == "__main__":
    main()
