#!/usr/bin/env python3
"""Generates reply witness libraries:
   corpus/w-reply (quick): hand-picked coverings, both declaration orders, data on/off, payload shapes, multi-name, generic.
   corpus/w-reply-tables (thorough): every accepted reply table with <= 2 names, <= 3 methods, outcomes {success, error, always},
                                     every declaration order, data on the success method on/off."""
import itertools
import os

HERE = os.path.dirname(os.path.abspath(__file__))

HEADER = """//@ props: C07 C08 C09 C14
//@ expect: pass
//@ what: {what}
#![allow(dead_code, unused_imports, unused_variables, clippy::new_without_default)]
use sylvia::ctx::{{ExecCtx, InstantiateCtx, QueryCtx, ReplyCtx}};
use sylvia::cw_std::{{Addr, Binary, Empty, Response, StdError, StdResult, SubMsgResult}};
use sylvia::contract;

#[sylvia::cw_schema::cw_serde]
pub struct Payload {{ pub x: u32 }}
#[sylvia::cw_schema::cw_serde]
pub struct Data {{ pub y: String }}
"""

PAYLOADS = {
    "fieldnames": "gas_limit: u64, msg: String",
    "ctxnames": "gas_used: u64, note: String",
    "raw": "#[sv::payload(raw)] payload: Binary",
    "one": "first: Payload",
    "many": "first: u32, second: String, third: Addr",
}


def method(fn, names, on, payload="raw", data=None, data_ty=None):
    """data: None | '' | 'opt' | 'raw' | 'raw, opt' | 'instantiate' | 'instantiate, opt' """
    hs = f", handlers=[{', '.join(names)}]" if names else ""
    lead = ""
    if on == "success":
        if data is not None:
            attr = "#[sv::data]" if data == "" else f"#[sv::data({data})]"
            ty = {"": "Data", "opt": "Option<Data>", "raw": "Binary", "raw, opt": "Option<Binary>",
                  "instantiate": "sylvia::cw_utils::MsgInstantiateContractResponse", "instantiate, opt": "Option<sylvia::cw_utils::MsgInstantiateContractResponse>"}[data]
            lead = f"{attr} data: {data_ty or ty}, "
    elif on == "error":
        lead = "error: String, "
    else:
        lead = "result: SubMsgResult, "
    return f"        #[sv::msg(reply{hs}, reply_on={on})]\n        fn {fn}(&self, _ctx: ReplyCtx, {lead}{PAYLOADS[payload]}) -> StdResult<Response> {{ Ok(Response::new()) }}\n"


def module(name, methods, generic=False):
    g = "<T>" if generic else ""
    where = " where T: sylvia::types::CustomMsg + 'static" if generic else ""
    struct = "pub struct Contract<T> { _p: std::marker::PhantomData<T> }" if generic else "pub struct Contract;"
    new_body = "Self { _p: std::marker::PhantomData }" if generic else "Self"
    custom = "    #[sv::custom(msg = T)]\n" if generic else ""
    resp = "Response<T>" if generic else "Response"
    ms = "".join(methods)
    if generic:
        ms = ms.replace("StdResult<Response>", "StdResult<Response<T>>")
    return f"""
pub mod {name} {{
    use super::*;
    {struct}

    #[contract]
    #[sv::features(replies)]
{custom}    impl{g} Contract{g}{where} {{
        pub fn new() -> Self {{ {new_body} }}
        #[sv::msg(instantiate)]
        fn instantiate(&self, _ctx: InstantiateCtx) -> StdResult<{resp}> {{ Ok(Response::new()) }}
{ms}    }}
}}
"""


def write_pkg(pkg, what, mods, tier=None, props=None):
    d = os.path.join(HERE, "..", "..", "corpus", pkg)
    os.makedirs(os.path.join(d, "src"), exist_ok=True)
    hdr = HEADER.format(what=what)
    if props:
        hdr = hdr.replace("//@ props: C07 C08 C09 C14", "//@ props: " + props)
    with open(os.path.join(d, "src", "lib.rs"), "w") as f:
        f.write(hdr + "".join(mods))
    with open(os.path.join(d, "Cargo.toml.in"), "w") as f:
        f.write(f"""[package]
name = "{pkg}"
version = "0.0.0"
edition = "2021"

[lib]
test = false
doctest = false

[dependencies]
@SYLVIA_DEP@
@VPROBE_DEP@
@SERDE_DEP@
@DEP:cosmwasm-std@
@DEP:cosmwasm-schema@
@DEP:schemars@
@DEP:cw-utils@
""")
    if tier:
        with open(os.path.join(d, "TIER"), "w") as f:
            f.write(tier + "\n")
    print(pkg, len(mods), "modules")


def main():
    mods = []
    S = lambda fn="on_ok", names=("h",), **kw: method(fn, list(names), "success", **kw)
    E = lambda fn="on_err", names=("h",), **kw: method(fn, list(names), "error", **kw)
    Al = lambda fn="on_any", names=("h",), **kw: method(fn, list(names), "always", **kw)
    mods.append(module("cov_s", [S()]))
    mods.append(module("cov_s_data", [S(data="")]))
    mods.append(module("cov_e", [E()]))
    mods.append(module("cov_a", [Al()]))
    mods.append(module("cov_se", [S(), E()]))
    mods.append(module("cov_es", [E(), S()]))
    mods.append(module("cov_se_data", [S(data="opt"), E()]))
    mods.append(module("cov_es_data", [E(), S(data="opt")]))
    for p in ("one", "many"):
        mods.append(module(f"pay_{p}_se", [S(payload=p, data="raw"), E(payload=p)]))
        mods.append(module(f"pay_{p}_a", [Al(payload=p)]))
    # one method under several names + another method sharing one of the names
    mods.append(module("multi_name", [S(fn="both_ok", names=("first", "second")), E(fn="second_err", names=("second",)), Al(fn="third_any", names=("third",))]))
    # default name = function name
    mods.append(module("default_name", [method("on_default", [], "success"), method("other_default", [], "error")]))
    # names that need casing care in the id constants
    mods.append(module("name_shapes", [S(fn="a1", names=("step2_go",)), E(fn="a2", names=("a_b_c",)), Al(fn="a3", names=("x1y",))]))
    for dm, nm in (("", "typed"), ("opt", "opt"), ("raw", "raw"), ("raw, opt", "raw_opt"), ("instantiate", "inst"), ("instantiate, opt", "inst_opt")):
        mods.append(module(f"data_{nm}", [S(data=dm, payload="one")]))
    # the mode is what the ATTRIBUTE says, whatever the parameter's type looks like: mandatory typed data whose type is an Option,
    # optional typed data of a non-Option-looking alias is not expressible; raw mandatory stays Binary
    mods.append(module("data_typed_option_type", [method("on_done", ["done"], "success", payload="one", data="", data_ty="Option<Data>")]))
    mods.append(module("data_typed_option_type_se", [method("on_done", ["done"], "success", payload="one", data="", data_ty="Option<Data>"), method("on_fail", ["done"], "error", payload="one")]))
    mods.append(module("generic_se", [S(data=""), E()], generic=True))
    # payload parameters named like SubMsg fields (gas_limit, msg): the builder on an existing SubMsg must still encode the PARAMETERS
    mods.append(module("payload_named_like_submsg_fields", [Al(payload="fieldnames")]))
    # payload parameters named like bindings of the generated dispatcher (gas_used): the context must still carry the reply's gas
    mods.append(module("payload_named_like_dispatch_locals", [S(payload="ctxnames"), E(payload="ctxnames")]))
    write_pkg("w-reply", "reply coverings (S, E, A, S+E in both orders, data on/off), payload shapes, multi-name, default name, data modes, generic contract", mods)

    # ---- thorough: exhaustive small tables
    mods = []
    names = ["na", "nb"]
    outcomes = ["success", "error", "always"]
    count = 0
    seen = set()
    for n_methods in (1, 2, 3):
        for assign in itertools.product([(n, o) for n in names for o in outcomes], repeat=n_methods):
            # a method = (name, outcome); accepted iff per name: no duplicate outcome, always alone
            per = {}
            ok = True
            for n, o in assign:
                s = per.setdefault(n, [])
                if o in s or "always" in s or (o == "always" and s):
                    ok = False
                s.append(o)
            if not ok:
                continue
            # canonical: names used must start with na (avoid pure renamings)
            used = [n for n, _ in assign]
            if used and used[0] != "na":
                continue
            for data in (False, True):
                if data and not any(o == "success" for _, o in assign):
                    continue
                key = (assign, data)
                if key in seen:
                    continue
                seen.add(key)
                ms = []
                for i, (n, o) in enumerate(assign):
                    ms.append(method(f"m{i}_{o[:3]}", [n], o, payload="one", data=("opt" if (data and o == "success") else None)))
                mods.append(module(f"t{count}", ms))
                count += 1
    # rejected tables -> must-fail bins (thorough)
    rej_dir = os.path.join(HERE, "..", "..", "corpus", "w-reply-tables-fail")
    os.makedirs(os.path.join(rej_dir, "src", "bin"), exist_ok=True)
    for f in os.listdir(os.path.join(rej_dir, "src", "bin")):
        os.unlink(os.path.join(rej_dir, "src", "bin", f))
    nrej = 0
    for n_methods in (2, 3):
        for assign in itertools.product([(n, o) for n in names for o in outcomes], repeat=n_methods):
            per = {}
            ok = True
            for n, o in assign:
                s_ = per.setdefault(n, [])
                if o in s_ or "always" in s_ or (o == "always" and s_):
                    ok = False
                s_.append(o)
            if ok or assign[0][0] != "na":
                continue
            ms = [method(f"m{i}_{o[:3]}", [n], o, payload="one") for i, (n, o) in enumerate(assign)]
            body = module("t", ms)
            desc = ", ".join(f"{n}:{o}" for n, o in assign)
            src = HEADER.format(what=f"rejected reply table [{desc}]: a (name, outcome) pair is claimed twice or `always` is combined with another method").replace("//@ props: C07 C08 C09 C14", "//@ props: C18").replace("//@ expect: pass", "//@ expect: fail\n//@ index: no")
            with open(os.path.join(rej_dir, "src", "bin", f"rej{nrej}.rs"), "w") as f:
                f.write(src + body + "\nfn main() {}\n")
            nrej += 1
    with open(os.path.join(rej_dir, "Cargo.toml.in"), "w") as f:
        f.write("""[package]
name = "w-reply-tables-fail"
version = "0.0.0"
edition = "2021"

[dependencies]
@SYLVIA_DEP@
@SERDE_DEP@
@DEP:cosmwasm-std@
@DEP:cosmwasm-schema@
@DEP:schemars@
@DEP:cw-utils@
""")
    with open(os.path.join(rej_dir, "TIER"), "w") as f:
        f.write("thorough\n")
    print("w-reply-tables-fail", nrej, "programs")
    write_pkg("w-reply-tables", "every accepted reply table with <=2 names, <=3 methods over {success,error,always}, every declaration order, data on success on/off", mods, tier="thorough")


if __name__ == "__main__":
    main()
