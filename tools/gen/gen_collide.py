#!/usr/bin/env python3
"""Generates /verif/corpus/w-collide/src/bin/*.rs (committed): collision witnesses for C05(d)."""
import os

OUT = os.path.join(os.path.dirname(os.path.abspath(__file__)), "..", "..", "corpus", "w-collide", "src", "bin")
CTX = {"exec": "ExecCtx", "query": "QueryCtx", "sudo": "SudoCtx"}
RET = {"exec": "Result<Response, Self::Error>", "query": "Result<Resp, Self::Error>", "sudo": "Result<Response, Self::Error>"}
RETC = {"exec": "StdResult<Response>", "query": "StdResult<Resp>", "sudo": "StdResult<Response>"}
BODY = {"exec": "Ok(Response::new())", "query": "Ok(Resp {})", "sudo": "Ok(Response::new())"}


def iface(modname, trait, methods):
    ms = "\n".join(f"        #[sv::msg({k})]\n        fn {n}(&self, ctx: {CTX[k]}) -> {RET[k]};" for k, n in methods)
    return f"""pub mod {modname} {{
    use super::*;
    #[interface]
    #[sv::custom(msg = sylvia::cw_std::Empty, query = sylvia::cw_std::Empty)]
    pub trait {trait} {{
        type Error: From<StdError>;
{ms}
    }}
}}
"""


def impl_iface(modname, trait, methods):
    ms = "\n".join(f"    fn {n}(&self, _ctx: {CTX[k]}) -> {RETC[k]} {{\n        {BODY[k]}\n    }}" for k, n in methods)
    return f"impl {modname}::{trait} for Contract {{\n    type Error = StdError;\n{ms}\n}}\n"


def program(what, expect, ifaces, contract_methods, generic=False):
    marker = " //~ ERROR" if expect == "fail" else ""
    parts = [f"//@ props: C05\n//@ expect: {expect}\n//@ index: no\n//@ what: {what}\n#![allow(dead_code)]\n"
             "use sylvia::ctx::{ExecCtx, InstantiateCtx, QueryCtx, SudoCtx};\nuse sylvia::cw_std::{Response, StdError, StdResult};\n"
             "use sylvia::{contract, interface};\n\n"
             "#[sylvia::cw_schema::cw_serde]\npub struct Resp {}\n\n"]
    for modname, trait, methods in ifaces:
        parts.append(iface(modname, trait, methods))
    if generic:
        # a generic contract that this crate never instantiates with concrete types: the overlap check must not wait for monomorphisation
        parts.append("pub struct Contract<T> { _p: std::marker::PhantomData<T> }\n\n")
        for modname, trait, methods in ifaces:
            parts.append(impl_iface(modname, trait, methods).replace("for Contract {", "for Contract<T> {").replace("impl ", "impl<T> ", 1))
    else:
        parts.append("pub struct Contract;\n\n")
        for modname, trait, methods in ifaces:
            parts.append(impl_iface(modname, trait, methods))
    msgs = "\n".join(f"#[sv::messages({modname})]" for modname, _, _ in ifaces)
    cms = "\n".join(f"    #[sv::msg({k})]\n    fn {n}(&self, _ctx: {CTX[k]}) -> {RETC[k]} {{\n        {BODY[k]}\n    }}" for k, n in contract_methods)
    head = "impl<T> Contract<T> where T: sylvia::types::CustomMsg + 'static {" if generic else "impl Contract {"
    new_body = "Self { _p: std::marker::PhantomData }" if generic else "Self"
    targ = ", _t: Option<T>" if generic else ""
    if generic:
        # the first contract method mentions T so that the contract's own message is generic too
        cms = cms.replace(") -> ", f"{targ}) -> ", 1)
    parts.append(f"""
#[contract]{marker}
{msgs}
{head}
    pub const fn new() -> Self {{
        {new_body}
    }}
    #[sv::msg(instantiate)]
    fn instantiate(&self, _ctx: InstantiateCtx) -> StdResult<Response> {{
        Ok(Response::new())
    }}
{cms}
}}

fn main() {{}}
""")
    return "".join(parts)


def main():
    os.makedirs(OUT, exist_ok=True)
    for f in os.listdir(OUT):
        os.unlink(os.path.join(OUT, f))
    cases = []
    for k in ("exec", "query", "sudo"):
        # contract vs interface
        cases.append((f"ci_{k}_fail", "fail", f"contract and interface share {k} name `shared_name`",
                      [("ia", "Ia", [(k, "shared_name"), (k, "only_a")])], [(k, "shared_name"), (k, "zz_own")]))
        cases.append((f"ci_{k}_pass", "pass", f"twin of ci_{k}_fail with the contract method renamed",
                      [("ia", "Ia", [(k, "shared_name"), (k, "only_a")])], [(k, "shared_namf"), (k, "zz_own")]))
        # interface vs interface
        cases.append((f"ii_{k}_fail", "fail", f"two interfaces share {k} name `shared_name`",
                      [("ia", "Ia", [(k, "shared_name")]), ("ib", "Ib", [(k, "b_first"), (k, "shared_name")])], [(k, "own")]))
        cases.append((f"ii_{k}_pass", "pass", f"twin of ii_{k}_fail with one interface method renamed",
                      [("ia", "Ia", [(k, "shared_name")]), ("ib", "Ib", [(k, "b_first"), (k, "shared_name2")])], [(k, "own")]))
    # three parts: collision between the 2nd and 3rd interface only, contract has none of that kind
    cases.append(("iii_query_fail", "fail", "three interfaces, the last two share query `q`",
                  [("ia", "Ia", [("query", "a")]), ("ib", "Ib", [("query", "q")]), ("ic", "Ic", [("query", "m"), ("query", "q")])], []))
    cases.append(("iii_query_pass", "pass", "twin of iii_query_fail",
                  [("ia", "Ia", [("query", "a")]), ("ib", "Ib", [("query", "q")]), ("ic", "Ic", [("query", "m"), ("query", "q2")])], []))
    # same name under different kinds is NOT a collision (per kind)
    cases.append(("cross_kind_pass", "pass", "the same name under different kinds (exec and sudo in two interfaces, query in the contract) is not a collision",
                  [("ia", "Ia", [("exec", "shared_name")]), ("ib", "Ib", [("sudo", "shared_name")])], [("query", "shared_name")]))
    # prefix names are not collisions
    cases.append(("prefix_pass", "pass", "a name that is a prefix of another (`a` / `aa` / `ab` / `a_b`) is not a collision",
                  [("ia", "Ia", [("exec", "a"), ("exec", "ab")])], [("exec", "aa"), ("exec", "a_b")]))
    # digit names: wire names collide although identifiers differ only by digit placement is impossible; but equal wire names must be caught
    cases.append(("digit_fail", "fail", "names with digits: interface `step2_go` and contract `step2_go` collide (list computed with the wire-name rule)",
                  [("ia", "Ia", [("exec", "step2_go")])], [("exec", "step2_go")]))
    cases.append(("digit_pass", "pass", "twin of digit_fail: `step2_go` vs `step3_go` are different wire names",
                  [("ia", "Ia", [("exec", "step2_go")])], [("exec", "step3_go")]))
    # declaration order must not matter to the scan: the colliding contract method declared AFTER one whose name sorts later, and before
    for k in ("exec", "query", "sudo"):
        cases.append((f"order_late_{k}_fail", "fail", f"contract declares `transfer` then `burn`; interface has `burn`, `mint` ({k})",
                      [("ia", "Ia", [(k, "burn"), (k, "mint")])], [(k, "transfer"), (k, "burn")]))
        cases.append((f"order_late_{k}_pass", "pass", f"twin of order_late_{k}_fail",
                      [("ia", "Ia", [(k, "burn"), (k, "mint")])], [(k, "transfer"), (k, "burm")]))
    cases.append(("order_iface_late_fail", "fail", "the interface declares the shared name after a later-sorting one (`mint`, `burn`), contract `zap`, `burn`, `aaa`",
                  [("ia", "Ia", [("exec", "mint"), ("exec", "burn")])], [("exec", "zap"), ("exec", "burn"), ("exec", "aaa")]))
    cases.append(("order_iface_late_pass", "pass", "twin of order_iface_late_fail",
                  [("ia", "Ia", [("exec", "mint"), ("exec", "burn")])], [("exec", "zap"), ("exec", "burn2"), ("exec", "aaa")]))
    # two interfaces sharing a name that is the alphabetically last message of only ONE of them, listed in both orders
    for k in ("exec", "query", "sudo"):
        cases.append((f"ii_mid_{k}_ab_fail", "fail", f"interfaces {{burn, mint}} then {{mint, transfer}} share {k} `mint`",
                      [("ia", "Ia", [(k, "burn"), (k, "mint")]), ("ib", "Ib", [(k, "mint"), (k, "transfer")])], [(k, "own")]))
        cases.append((f"ii_mid_{k}_ba_fail", "fail", f"the same two interfaces listed the other way round ({k})",
                      [("ib", "Ib", [(k, "mint"), (k, "transfer")]), ("ia", "Ia", [(k, "burn"), (k, "mint")])], [(k, "own")]))
    cases.append(("ii_mid_pass", "pass", "twin of ii_mid_*: {burn, mint} and {minz, transfer}",
                  [("ia", "Ia", [("exec", "burn"), ("exec", "mint")]), ("ib", "Ib", [("exec", "minz"), ("exec", "transfer")])], [("exec", "own")]))
    gen_cases = []
    for k in ("exec", "query", "sudo"):
        gen_cases.append((f"generic_{k}_fail", "fail", f"generic contract never instantiated in this crate shares {k} `mint` with its interface",
                          [("ia", "Ia", [(k, "mint")])], [(k, "mint"), (k, "own")]))
        gen_cases.append((f"generic_{k}_pass", "pass", f"twin of generic_{k}_fail",
                          [("ia", "Ia", [(k, "mint")])], [(k, "burn"), (k, "own")]))
    for name, expect, what, ifaces, cm in cases:
        with open(os.path.join(OUT, name + ".rs"), "w") as f:
            f.write(program(what, expect, ifaces, cm))
    for name, expect, what, ifaces, cm in gen_cases:
        with open(os.path.join(OUT, name + ".rs"), "w") as f:
            f.write(program(what, expect, ifaces, cm, generic=True))
    cases += gen_cases
    print(len(cases), "witness programs written to", os.path.normpath(OUT))


if __name__ == "__main__":
    main()
