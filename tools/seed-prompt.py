#!/usr/bin/env python3
"""Writes the task prompt for a seeded-break sub-agent: seed-prompt.py <property id> <worktree dir> [<idea to avoid>]
The prompt contains only the property text (from properties.jsonl) - nothing about /verif's machinery."""
import json
import sys

pid, wt = sys.argv[1], sys.argv[2]
avoid = sys.argv[3] if len(sys.argv) > 3 else None
prop = None
for l in open("/verif/properties.jsonl"):
    p = json.loads(l)
    if p["id"] == pid:
        prop = f"{p['id']}: {p['title']}\n\nStatement: {p['statement']}\n\nQuantified over: {p['quantifier']['text']}\n"
avoid_txt = f"An earlier attempt already explored this idea: \"{avoid}\". Do something DIFFERENT: another part of the code base, another mechanism, another trigger.\n\n" if avoid else ""
print(f"""You are working in a scratch git worktree of the CosmWasm/sylvia repository at {wt} (sylvia: a Rust proc-macro framework generating CosmWasm smart-contract message types, dispatch, entry points, reply routing and multitest helpers from annotated traits/impls; crates `sylvia-derive` = the macros, `sylvia` = the runtime). Work ONLY inside {wt}. Do not read or touch /repo or /verif. There is no network: always pass `--offline` to cargo. A warm build directory is already at {wt}/target, so `cargo test --workspace --offline` takes well under a minute. NOTE: single-package runs need the features the workspace build unifies to, e.g. `cargo test -p sylvia --offline --features mt,stargate,iterator,cosmwasm_1_4 --test seed_demo`; make sure your demo passes/fails with exactly that command.

Here is a semantic property the framework is supposed to satisfy:

{prop}

{avoid_txt}YOUR TASK: produce a realistic code change to sylvia's own source (files under sylvia-derive/src or sylvia/src only - not tests, not examples) that BREAKS this property, such that
  (1) the workspace still compiles and the whole existing test suite still passes: `cd {wt} && cargo test --workspace --offline` (all green), and
  (2) the break needs something SPECIFIC to manifest - e.g. an unusual but legal input program (a particular method/argument name shape, a particular number or order of declarations, a particular combination of attributes/features/generics), two cooperating sites that each look fine alone, a rarely taken branch of the generator - NOT something that ordinary use of the framework would expose at once. Think of the kind of plausible bug a maintainer could introduce in a refactor or an "optimisation" and that code review and the existing tests would miss. Avoid trivial sabotage (e.g. deleting a whole feature) and avoid changes that are behaviour-preserving.

Also write a DEMONSTRATION: a new integration test file {wt}/sylvia/tests/seed_demo.rs that PASSES on the unmodified tree and FAILS with your change (fails at run time, or fails to compile when it should compile, or compiles when it must not - say which). Verify both directions yourself (use `git stash` / `git apply -R` etc. to flip the change; the demo file is untracked so it survives).

DELIVERABLES (leave them in place when you finish):
  - {wt}/patch.diff : output of `git diff -- sylvia-derive sylvia/src` containing ONLY the source change (not the demo);
  - the demo file(s) under {wt} (untracked);
  - leave the worktree with the change APPLIED.
In your final answer report: the files/functions changed and why the property breaks; exactly what is needed for the break to manifest; the demo path and the exact commands you ran with their pass/fail results in both directions; and confirm the existing suite passes with the change applied. Keep the change small (a few lines). Do not commit anything.""")
