#!/usr/bin/env python3
"""Mutant / harmless-edit campaign driver (development aid; not part of any registered check).

  campaign.py mutants  [name ...]     apply each seeded edit to /repo, run the repo test suite and the listed checks, restore
  campaign.py harmless [name ...]     apply each behaviour-preserving edit, run ALL quick checks (must stay silent), restore
  campaign.py seeded   [id ...]       apply /verif/seeded/<id>/patch.diff, run the checks named in meta.json (or all), restore

Results are appended to /verif/campaign-results.jsonl; MUTANTS.md is written from them by `campaign.py report`.
/repo must be clean before and is restored with `git checkout -- .` after every edit."""
import json
import os
import re
import subprocess
import sys
import time

REPO = os.environ.get("VERIF_REPO", "/repo")
VERIF = os.path.dirname(os.path.dirname(os.path.abspath(__file__)))
ALL = [f"C{n:02d}" for n in range(1, 21)]
RESULTS = os.path.join(VERIF, "campaign-results.jsonl")


def sh(cmd, cwd=None, timeout=3600):
    return subprocess.run(cmd, shell=True, cwd=cwd, stdout=subprocess.PIPE, stderr=subprocess.STDOUT, text=True, timeout=timeout)


def repo_clean():
    return sh("git status --porcelain", REPO).stdout.strip() == ""


def restore():
    sh("git checkout -- . && git clean -fdq sylvia/tests sylvia-derive/src sylvia/src", REPO)


def edit_file(rel, old, new, count=1, regex=False):
    p = os.path.join(REPO, rel)
    s = open(p).read()
    if regex:
        s2, n = re.subn(old, new, s, count=count if count else 0)
    else:
        n = s.count(old)
        s2 = s.replace(old, new, count) if count else s.replace(old, new)
    if n == 0:
        raise RuntimeError(f"edit does not apply: {rel}: {old[:60]!r}")
    open(p, "w").write(s2)


def run_checks(props):
    out = {}
    for p in props:
        r = sh(f"./bin/svcheck check {p} --tier quick", VERIF)
        vio = re.findall(r"^VIOLATION property=(\S+) replay=(\S+)", r.stdout, re.M)
        rules = sorted(set(re.findall(r"^\s+rule=(\S+)", r.stdout, re.M)))
        first = re.search(r"^\s+rule=(\S+) where=(.*)\n\s+expected: (.*)\n\s+found:\s+(.*)", r.stdout, re.M)
        out[p] = {"rc": r.returncode, "violations": len(vio), "rules": rules[:8],
                  "first": {"rule": first.group(1), "where": first.group(2)[:160], "expected": first.group(3)[:160], "found": first.group(4)[:160]} if first else None,
                  "error": "CHECK-ERROR" in r.stdout}
    return out


def repo_tests():
    r = sh("cargo test --workspace --no-fail-fast --offline 2>&1 | grep -E '^test result|^error|FAILED|failed to'", REPO, timeout=3600)
    passed = sum(int(x) for x in re.findall(r"test result: \w+\. (\d+) passed", r.stdout))
    failed = sum(int(x) for x in re.findall(r"(\d+) failed", r.stdout))
    build_err = bool(re.search(r"^error", r.stdout, re.M))
    return {"passed": passed, "failed": failed, "build_error": build_err}


# ------------------------------------------------------------------ seeded mutants (DESIGN §9) : (name, property, [(file, old, new)], checks expected to fire, note)
D = "sylvia-derive/src/"
MUTANTS = [
    ("swap-dispatch-args", "C02", [(D + "types/msg_variant.rs", ".zip(args.clone())", ".zip({ let mut r = args.clone(); r.reverse(); r })")], ["C02"], "field bindings zipped with reversed fieldN names: same-typed arguments swapped"),
    ("sudo-list-in-exec-wrapper", "C04", [(D + "types/interfaces.rs", 'let ep_name = msg_ty.emit_ep_name();\n                let messages_fn_name = Ident::new(&format!("{}_messages", ep_name), module.span());\n\n                quote! {\n                    let msgs', 'let ep_name = if matches!(msg_ty, MsgType::Exec) { MsgType::Sudo.emit_ep_name() } else { msg_ty.emit_ep_name() };\n                let messages_fn_name = Ident::new(&format!("{}_messages", ep_name), module.span());\n\n                quote! {\n                    let msgs')], ["C03", "C04"], "execute wrapper consults the interface's sudo list"),
    ("drop-sort-contract", "C05", [(D + "contract/communication/enum_msg.rs", "variant_names.sort();", "")], ["C05"], "published list no longer sorted (overlap scan precondition)"),
    ("drop-sort-interface", "C05", [(D + "interface/communication/enum_msg.rs", "msgs.sort();", "")], ["C05"], "interface list no longer sorted"),
    ("reply-arms-swapped", "C07", [(D + "contract/communication/reply.rs", "reply_on == &ReplyOn::Error || reply_on == &ReplyOn::Always)\n        {\n            Some((method_name, reply_on)) if reply_on == &ReplyOn::Error", "reply_on == &ReplyOn::Success || reply_on == &ReplyOn::Always)\n        {\n            Some((method_name, reply_on)) if reply_on == &ReplyOn::Success")], ["C07"], "error arm looks up the success method"),
    ("submsg-gas-limit-none", "C08", [(D + "contract/communication/reply.rs", "                    payload,\n                    ..self\n", "                    payload,\n                    gas_limit: None,\n                    ..self\n")], ["C08"], "SubMsg receiver loses its gas limit"),
    ("reply-on-ignores-error", "C08", [(D + "contract/communication/reply.rs", "if is_always || (is_success && is_error) {", "if is_always {")], ["C08"], "success+error methods no longer request ReplyOn::Always"),
    ("data-mandatory-returns-none", "C09", [(D + "contract/communication/reply.rs", "                        deserialized_data\n                    },\n                    None => return Err(Into::into( #sylvia ::cw_std::StdError::generic_err( #missing_data_err ))),\n                };\n            },\n        }", "                        Some(deserialized_data)\n                    },\n                    None => None,\n                };\n            },\n        }")], ["C09"], "typed mandatory mode behaves like opt"),
    ("executor-build-drops-funds", "C10", [("sylvia/src/types.rs", "            funds: self.funds,\n        }\n    }\n}\n\n/// Represents a contract", "            funds: vec![],\n        }\n    }\n}\n\n/// Represents a contract")], ["C10"], "ExecutorBuilder::build sends no funds"),
    ("ibuilder-label-not-defaulted", "C10", [("sylvia/src/builder/instantiate.rs", "label: self.label.unwrap_or_default(),\n            funds: self.funds,\n        }\n    }\n\n    #[cfg", "label: self.label.unwrap_or_else(|| \"unnamed\".to_string()),\n            funds: self.funds,\n        }\n    }\n\n    #[cfg")], ["C10"], "unset label no longer empty"),
    ("update-admin-swapped", "C10", [("sylvia/src/types.rs", "contract_addr: self.addr.to_string(),\n            admin: new_admin.to_string(),", "contract_addr: new_admin.to_string(),\n            admin: self.addr.to_string(),")], ["C10"], "update_admin swaps contract and admin"),
    ("into-response-drops-events", "C11", [("sylvia/src/into_response.rs", "            .add_events(self.events)\n", "")], ["C11"], "bridged response loses events"),
    ("into-msg-resets-payload", "C11", [("sylvia/src/into_response.rs", "payload: self.payload,", "payload: Default::default(),")], ["C11"], "bridged sub-message loses payload"),
    ("into-response-rev", "C11", [("sylvia/src/into_response.rs", ".into_iter()\n            .map(|msg| msg.into_msg())", ".into_iter()\n            .rev()\n            .map(|msg| msg.into_msg())")], ["C11"], "sub-message order reversed"),
    ("execproxy-ignores-funds", "C12", [("sylvia/src/multitest.rs", "                &self.msg,\n                self.funds,\n            )", "                &self.msg,\n                &[],\n            )")], ["C12"], "ExecProxy::call sends no funds"),
    ("sudo-proxy-hits-exec", "C12", [(D + "contract/mt.rs", ".wasm_sudo(self.contract_addr.clone(), &msg)", ".wasm_sudo(self.contract_addr.clone(), &msg)"), ], ["C12"], "placeholder (replaced below)"),
    ("strip-all-two-segment-attrs", "C13", [(D + "parser/attributes/mod.rs", "let segments = &attr.path().segments;", "let segments = &attr.path().segments;\n        if segments.len() == 2 && segments[0].ident == \"rustfmt\" {\n            return Some(Self::Features);\n        }")], ["C13"], "a foreign two-segment attribute is treated as sylvia's and stripped"),
    ("hashmap-in-generator", "C13", [(D + "utils.rs", "use convert_case::Casing;", "use convert_case::Casing;\n#[allow(unused_imports)]\nuse std::collections::HashMap;")], ["C13"], "a HashMap enters the macro crate"),
    ("generic-unused-leaks", "C15", [(D + "parser/check_generics.rs", "        let unused = self\n            .generics\n            .iter()\n            .filter(|gen| !self.used.contains(*gen))\n            .copied()\n            .collect();\n\n        (self.used, unused)", "        let unused: Vec<_> = self\n            .generics\n            .iter()\n            .filter(|gen| !self.used.contains(*gen))\n            .copied()\n            .collect();\n        let mut used = self.used;\n        if used.len() == 1 && unused.len() == 1 { used.extend(unused.iter().copied()); return (used, vec![]); }\n\n        (used, unused)")], ["C15"], "with exactly one used and one unused parameter the unused one leaks into the type"),
    ("query-accessor-exec-in-responses", "C16", [(D + "types/interfaces.rs", "let type_name = msg_ty.as_accessor_name();\n                quote! {\n                    < <#contract as #module ::sv::InterfaceMessagesApi> :: #type_name as", "let type_name = msg_ty.as_accessor_name();\n                let _ = type_name;\n                let type_name = MsgType::Query.as_accessor_name();\n                quote! {\n                    < <#contract as #module ::sv::InterfaceMessagesApi> :: #type_name as")], [], "behaviour preserving (msg_ty is always Query here) - sanity: must stay silent"),
    ("msg-attr-kind-filter-dropped", "C17", [(D + "contract/communication/struct_msg.rs", ".filter(|attr| attr.msg_type == msg_ty)", ".filter(|attr| attr.msg_type == msg_ty || attr.msg_type == MsgType::Exec)")], ["C17"], "exec msg_attr also lands on instantiate/migrate structs"),
    ("two-instantiate-accepted", "C18", [(D + "contract/communication/struct_msg.rs", "} else if variants.variants().count() > 1 {", "} else if variants.variants().count() > 2 {")], ["C18"], "two instantiate handlers no longer rejected"),
    ("reintroduce-D15", "C02", [(D + "contract/communication/struct_msg.rs", "let Self { #(#fields_names: #dispatch_args,)* } = self;", "let Self { #(#fields_names,)* } = self;"), (D + "contract/communication/struct_msg.rs", "contract.#function_name(Into::into(ctx), #(#dispatch_args,)*)", "contract.#function_name(Into::into(ctx), #(#fields_names,)*)")], ["C02"], "D15 returns: struct dispatch destructures over its own parameters (argument named contract / ctx)"),
    ("reintroduce-D16", "C10", [(D + "contract/communication/instantiate_builder.rs", "sv_code_id", "code_id", 0)], ["C10"], "D16 returns: builder parameter code_id next to a handler argument code_id"),
    ("reintroduce-D17", "C02", [(D + "contract/communication/enum_msg.rs", "                    match self {", "                    use #enum_name::*;\n\n                    match self {")], ["C02"], "D17 returns: variants glob-imported into dispatch (handler named into)"),
    ("reintroduce-D19", "C10", [(D + "contract/communication/executor.rs", "#sylvia ::types::ExecutorBuilder::contract(&self).to_owned(),", "self.contract().to_owned(),")], ["C10"], "D19 returns: self.contract() resolves to an exec handler named contract"),
    ("reintroduce-D21", "C19", [(D + "contract/mt.rs", "SvBankT", "BankT", 0)], ["C19"], "D21 returns: multitest helper parameter BankT"),
    ("reintroduce-D22", "C19", [(D + "interface/communication/enum_msg.rs", "SvContractT", "ContractT", 0), (D + "types/associated_types.rs", "SvContractT", "ContractT", 0), (D + "interface/mt.rs", "SvContractT", "ContractT", 0)], ["C19"], "D22 returns: interface dispatch helper parameter ContractT"),
    ("reintroduce-D1", "C06", [(D + "parser/attributes/override_entry_point.rs", '"query" => MsgType::Query,', '"query" => MsgType::Instantiate,')], ["C04", "C06"], "D1 returns"),
    ("reintroduce-D2", "C19", [(D + "contract/communication/reply.rs", "let mut resp = #sylvia ::cw_std::Response::new()", "let mut resp = sylvia::cw_std::Response::new()")], ["C19"], "D2 returns"),
    ("reintroduce-D6", "C11", [("sylvia/src/into_response.rs", "            #[cfg(feature = \"stargate\")]\n            #[allow(deprecated)]\n            CosmosMsg::Stargate { type_url, value } => CosmosMsg::Stargate { type_url, value },\n", "")], ["C11"], "D6 returns"),
    ("remote-rename", "C20", [("sylvia/src/types.rs", "pub struct Remote<'a, Contract: ?Sized> {\n    addr:", "pub struct Remote<'a, Contract: ?Sized> {\n    #[serde(rename = \"address\")]\n    addr:")], ["C20"], "Remote encodes under another key"),
    ("remote-schema-name-typed", "C20", [("sylvia/src/types.rs", '"Remote".to_owned()', 'format!("Remote_{}", std::any::type_name::<Contract>())')], ["C20"], "schema name depends on the type parameter"),
    ("legacy-merge-order", "C14", [(D + "contract/communication/reply.rs", "        if self.data.is_none() {\n            self.data = new_reply_data.data;\n        }\n", "")], ["C07", "C14"], "D4 returns (order dependence)"),
]
MUTANTS = [m for m in MUTANTS if m[0] != "sudo-proxy-hits-exec"]

HARMLESS = [
    ("rename-field-bindings", [(D + "types/msg_variant.rs", 'format!("field{}", num)', 'format!("arg_{}", num)')], "generated binding names field1.. -> arg_1.."),
    ("ctx-dot-into", [(D + "types/msg_type.rs", "contract.#function_name(Into::into(ctx), #(#args),*).map_err(Into::into)", "contract.#function_name(ctx.into(), #(#args),*).map_err(From::from)")], "Into::into(ctx) -> ctx.into(); map_err(Into::into) -> map_err(From::from)"),
    ("reorder-emitted-items", [(D + "contract.rs", "                #messages\n\n                #multitest_helpers\n\n                #querier\n\n                #executor\n", "                #querier\n\n                #executor\n\n                #messages\n\n                #multitest_helpers\n")], "order of items inside `mod sv`"),
    ("reword-diagnostics", [(D + "contract/communication/struct_msg.rs", "More than one instantiation or migration message", "Only a single instantiate / migrate handler is allowed"), (D + "parser/mod.rs", "Parameters not allowed in `new` method.", "`new` must not take parameters.")], "diagnostic wording"),
    ("rename-generator-helper", [(D + "types/msg_variant.rs", "as_names_snake_cased", "wire_names"), (D + "contract/communication/enum_msg.rs", "as_names_snake_cased", "wire_names"), (D + "interface/communication/enum_msg.rs", "as_names_snake_cased", "wire_names")], "rename of an internal generator function"),
    ("wrapper-arm-order", [(D + "contract/communication/wrapper_msg.rs", "                        #(#dispatch_arms,)*\n                        #dispatch_arm\n", "                        #dispatch_arm,\n                        #(#dispatch_arms,)*\n")], "contract's own arm first in the wrapper dispatch"),
    ("rename-reply-local", [(D + "contract/communication/reply.rs", "sub_msg_resp", "sub_response")], "local binding name inside dispatch_reply"),
    ("variant-order-reversed", [(D + "types/msg_variant.rs", "    pub fn emit(&self) -> impl Iterator<Item = TokenStream> + '_ {\n        self.variants.iter().map(MsgVariant::emit)", "    pub fn emit(&self) -> impl Iterator<Item = TokenStream> + '_ {\n        self.variants.iter().rev().map(MsgVariant::emit)")], "enum variants emitted in reverse order (wire format is keyed by name)"),
    ("entry-point-let-contract", [(D + "entry_points.rs", "msg.dispatch(& #contract_turbofish ::new() , ( #values )).map_err(Into::into)", "let contract = #contract_turbofish ::new();\n                msg.dispatch(&contract, ( #values )).map_err(Into::into)")], "entry point binds the contract with a let before dispatching"),
    ("executor-let-encoded-msg", [(D + "contract/communication/executor.rs", "Ok(#sylvia ::types::ExecutorBuilder::<#sylvia ::types::ReadyExecutorBuilderState>::new(\n                    #sylvia ::types::ExecutorBuilder::contract(&self).to_owned(),\n                    #sylvia ::types::ExecutorBuilder::funds(&self).to_owned(),\n                    #sylvia ::cw_std::to_json_binary( & #api_path :: #variant_name (#(#fields_names),*) )?,\n                ))", "let encoded = #sylvia ::cw_std::to_json_binary( & #api_path :: #variant_name (#(#fields_names),*) )?;\n                Ok(#sylvia ::types::ExecutorBuilder::<#sylvia ::types::ReadyExecutorBuilderState>::new(\n                    #sylvia ::types::ExecutorBuilder::contract(&self).to_owned(),\n                    #sylvia ::types::ExecutorBuilder::funds(&self).to_owned(),\n                    encoded,\n                ))")], "executor helper encodes the message into a local first"),
    ("reply-let-ctx", [(D + "contract/communication/reply.rs", "#contract_turbofish ::new(). #method_name ((deps, env, gas_used, events, msg_responses).into(), #data #(#payload_values),* )", "let sv_ctx = (deps, env, gas_used, events, msg_responses).into();\n                        #contract_turbofish ::new(). #method_name (sv_ctx, #data #(#payload_values),* )")], "dispatch_reply binds the success context with a let"),
    ("wrapper-contains", [(D + "types/interfaces.rs", "if msgs.into_iter().any(|msg| msg == &recv_msg_name) {", "if msgs.contains(&recv_msg_name.as_str()) {"), (D + "contract/communication/wrapper_msg.rs", "if msgs.into_iter().any(|msg| msg == &recv_msg_name) {", "if msgs.contains(&recv_msg_name.as_str()) {")], "membership test spelled with contains()"),
    ("rename-keyword-table-fn", [(D + "types/msg_type.rs", "pub fn emit_ep_name(self)", "pub fn ep_ident(self)"), (D, None, None)], "rename MsgType::emit_ep_name everywhere"),
]


def apply_edits(edits):
    for e in edits:
        if len(e) == 4:
            edit_file(e[0], e[1], e[2], count=e[3])      # count 0 = every occurrence
            continue
        rel, old, new = e
        if old is None:
            # crate-wide rename emit_ep_name -> ep_ident
            for root, _, files in os.walk(os.path.join(REPO, rel)):
                for f in files:
                    if f.endswith(".rs"):
                        p = os.path.join(root, f)
                        s = open(p).read()
                        if "emit_ep_name" in s:
                            open(p, "w").write(s.replace("emit_ep_name", "ep_ident"))
            continue
        edit_file(rel, old, new, count=0 if rel.endswith("reply.rs") and old == "sub_msg_resp" else (0 if old in ("as_names_snake_cased",) else 1))


def record(rec):
    with open(RESULTS, "a") as f:
        f.write(json.dumps(rec) + "\n")


def do_mutants(names):
    for name, prop, edits, expect, note in MUTANTS:
        if names and name not in names:
            continue
        assert repo_clean(), "/repo not clean"
        t0 = time.time()
        try:
            apply_edits(edits)
            tests = repo_tests()
            checks = run_checks(sorted(set(expect) | {prop}))
        except Exception as e:
            restore()
            record({"kind": "mutant", "name": name, "property": prop, "error": str(e)})
            print(name, "ERROR", e)
            continue
        restore()
        fired = [p for p, r in checks.items() if r["violations"]]
        rec = {"kind": "mutant", "name": name, "property": prop, "note": note, "repo_tests": tests, "checks": checks, "fired": fired, "expected": expect, "wall": round(time.time() - t0)}
        record(rec)
        print(f"{name:34s} tests={tests['passed']}/{tests['failed']}{' BUILD-ERR' if tests['build_error'] else ''} fired={fired} expected={expect}")


def do_harmless(names):
    for name, edits, note in HARMLESS:
        if names and name not in names:
            continue
        assert repo_clean(), "/repo not clean"
        t0 = time.time()
        try:
            apply_edits(edits)
            tests = repo_tests()
            checks = run_checks(ALL)
        except Exception as e:
            restore()
            record({"kind": "harmless", "name": name, "error": str(e)})
            print(name, "ERROR", e)
            continue
        restore()
        fired = {p: r["first"] for p, r in checks.items() if r["violations"] or r["rc"] not in (0,)}
        record({"kind": "harmless", "name": name, "note": note, "repo_tests": tests, "fired": fired, "wall": round(time.time() - t0)})
        print(f"{name:28s} tests={tests['passed']}/{tests['failed']} alarms={list(fired)}")
        for p, fr in fired.items():
            print("    ", p, fr)


def do_seeded(ids):
    sdir = os.path.join(VERIF, "seeded")
    for sid in sorted(os.listdir(sdir)):
        if ids and sid not in ids:
            continue
        d = os.path.join(sdir, sid)
        if not os.path.isfile(os.path.join(d, "patch.diff")):
            continue
        meta = json.load(open(os.path.join(d, "meta.json"))) if os.path.exists(os.path.join(d, "meta.json")) else {}
        assert repo_clean(), "/repo not clean"
        r = sh(f"git apply {d}/patch.diff", REPO)
        if r.returncode != 0:
            print(sid, "patch does not apply:", r.stdout[:300])
            restore()
            continue
        props = meta.get("run_checks") or ALL
        checks = run_checks(props)
        restore()
        fired = [p for p, rr in checks.items() if rr["violations"]]
        record({"kind": "seeded", "name": sid, "property": meta.get("property"), "checks": checks, "fired": fired})
        print(f"{sid:20s} property={meta.get('property')} fired={fired}")
        for p in fired:
            print("    ", p, checks[p]["first"])


def do_report(_):
    recs = [json.loads(l) for l in open(RESULTS)] if os.path.exists(RESULTS) else []
    latest = {}
    for r in recs:
        latest[(r["kind"], r["name"])] = r
    out = ["# Seeded breaks, mutants and harmless edits: which check catches what", "",
           "Generated by `tools/campaign.py report` from `campaign-results.jsonl` (each edit was applied to /repo, the repository's own",
           "suite and the listed quick checks were run, /repo was restored). `fired` lists the properties whose quick check printed a",
           "VIOLATION; the rule shown is the first one reported by the property the change was aimed at (or the first that fired).", ""]
    out += ["## Seeded breaks from independent sub-agents (`/verif/seeded/<id>/`)", "",
            "Each sub-agent got only the property text and a scratch worktree; every change compiles, passes the 67 repo tests, and comes",
            "with a demonstration that fails with it and passes without it (re-confirmed here, see each meta.json).", "",
            "| seed | aimed at | needs, to manifest | caught by | first report |", "|---|---|---|---|---|"]
    for (k, n), r in sorted(latest.items()):
        if k != "seeded":
            continue
        meta = {}
        mp = os.path.join(VERIF, "seeded", n, "meta.json")
        if os.path.exists(mp):
            meta = json.load(open(mp))
        prop = r.get("property")
        fired = r.get("fired", [])
        pick = prop if prop in fired else (fired[0] if fired else None)
        fr = r["checks"][pick]["first"] if pick else None
        nonc = [p for p in fired if not (r["checks"][p]["first"] and r["checks"][p]["first"]["rule"].endswith(".compile"))]
        out.append(f"| {n} | {prop} | {meta.get('needs', '')} | {', '.join(fired) if len(fired) <= 6 else ', '.join(nonc[:6]) + f' (+{len(fired) - len(nonc[:6])} more: corpus witness no longer compiles)'} | "
                   f"{('`' + fr['rule'] + '` ' + fr['where'][:90] + ': expected ' + fr['expected'][:80] + ' / found ' + fr['found'][:80]).replace('|', '/') if fr else 'NOT CAUGHT'} |")
    out += ["", "## Own mutants (DESIGN §9)", "", "| mutant | aimed at | repo tests | fired | expected | verdict |", "|---|---|---|---|---|---|"]
    for (k, n), r in sorted(latest.items()):
        if k != "mutant":
            continue
        if "error" in r:
            out.append(f"| {n} | {r.get('property')} | - | - | - | edit did not apply: {r['error'][:60]} |")
            continue
        t = r["repo_tests"]
        ok = bool(r["fired"]) if r["expected"] else not r["fired"]
        tests = "build error" if t["build_error"] else f"{t['passed']} pass / {t['failed']} fail"
        verdict = ("caught" if r["expected"] else "silent (behaviour-preserving control)") if ok else ("MISSED" if r["expected"] else "FALSE ALARM")
        if t["build_error"] or t["failed"]:
            verdict += " (also caught by the repo's own build/tests: not a surviving mutant)"
        out.append(f"| {n}: {r.get('note', '')} | {r['property']} | {tests} | {', '.join(r['fired'])} | {', '.join(r['expected'])} | {verdict} |")
    out += ["", "## Harmless (behaviour-preserving) edits: every quick check must stay silent", "", "| edit | repo tests | alarms |", "|---|---|---|"]
    for (k, n), r in sorted(latest.items()):
        if k != "harmless":
            continue
        if "error" in r:
            out.append(f"| {n} | - | edit did not apply: {r['error'][:80]} |")
            continue
        t = r["repo_tests"]
        al = "; ".join(f"{p}: {(fr or {}).get('rule')}" for p, fr in r["fired"].items()) or "none"
        out.append(f"| {n}: {r.get('note', '')} | {t['passed']} pass / {t['failed']} fail | {al} |")
    open(os.path.join(VERIF, "MUTANTS.md"), "w").write("\n".join(out) + "\n")
    print("MUTANTS.md written:", sum(1 for k in latest if k[0] == "seeded"), "seeded,", sum(1 for k in latest if k[0] == "mutant"), "mutants,", sum(1 for k in latest if k[0] == "harmless"), "harmless")


if __name__ == "__main__":
    cmd = sys.argv[1]
    {"mutants": do_mutants, "harmless": do_harmless, "seeded": do_seeded, "report": do_report}[cmd](sys.argv[2:])
