#!/bin/bash
# creates a scratch worktree of /repo for a seeded-break sub-agent, with a warm copy of the build directory
id="$1"
d="/tmp/$id"
[ -d "$d" ] && { echo "exists $d"; exit 0; }
git -C /repo worktree add -q --detach "$d" HEAD || exit 1
cp -a /repo/target "$d/target"
echo "created $d"
