//! syn2json: Rust source -> JSON AST (file:line on every node), for the /verif static rules.
//!
//! Usage:
//!   syn2json ast <file.rs>            full AST of a file (items, exprs, types, patterns)
//!   syn2json tokens <file.rs>         token tree of the whole file (for template rules)
//!
//! The JSON is deliberately lossy in places that no rule looks at (`k: "other"` with the token
//! string), never silently: every such node carries its tokens so a rule can fail closed.

use proc_macro2::{Delimiter, Span, TokenStream, TokenTree};
use quote::ToTokens;
use serde_json::{json, Map, Value};
use syn::spanned::Spanned;
use syn::*;

fn ln(s: Span) -> Value {
    json!(s.start().line)
}

fn span4(s: Span) -> Value {
    let a = s.start();
    let b = s.end();
    json!([a.line, a.column, b.line, b.column])
}

fn ts<T: ToTokens>(t: &T) -> String {
    t.to_token_stream().to_string()
}

fn tt_json(stream: TokenStream) -> Value {
    let mut out = Vec::new();
    for t in stream {
        match t {
            TokenTree::Group(g) => {
                let d = match g.delimiter() {
                    Delimiter::Parenthesis => "(",
                    Delimiter::Brace => "{",
                    Delimiter::Bracket => "[",
                    Delimiter::None => "",
                };
                out.push(json!({"t": "group", "d": d, "c": tt_json(g.stream()), "ln": ln(g.span())}));
            }
            TokenTree::Ident(i) => out.push(json!({"t": "ident", "s": i.to_string(), "ln": ln(i.span())})),
            TokenTree::Punct(p) => out.push(json!({"t": "punct", "s": p.as_char().to_string(),
                "j": matches!(p.spacing(), proc_macro2::Spacing::Joint), "ln": ln(p.span())})),
            TokenTree::Literal(l) => out.push(json!({"t": "lit", "s": l.to_string(), "ln": ln(l.span())})),
        }
    }
    Value::Array(out)
}

fn attrs(a: &[Attribute]) -> Value {
    Value::Array(a.iter().map(attr).collect())
}

fn attr(a: &Attribute) -> Value {
    let path = ts(a.path()).replace(' ', "");
    let (kind, tokens, tt) = match &a.meta {
        Meta::Path(_) => ("path", String::new(), Value::Null),
        Meta::List(l) => ("list", l.tokens.to_string(), tt_json(l.tokens.clone())),
        Meta::NameValue(nv) => ("nv", ts(&nv.value), Value::Null),
    };
    let mut m = Map::new();
    m.insert("path".into(), json!(path));
    m.insert("kind".into(), json!(kind));
    m.insert("tokens".into(), json!(tokens));
    if !tt.is_null() {
        m.insert("tt".into(), tt);
    }
    m.insert("inner".into(), json!(matches!(a.style, AttrStyle::Inner(_))));
    m.insert("ln".into(), ln(a.span()));
    m.insert("span".into(), span4(a.span()));
    if let Meta::NameValue(nv) = &a.meta {
        if let Expr::Lit(ExprLit { lit: Lit::Str(s), .. }) = &nv.value {
            m.insert("str".into(), json!(s.value()));
        }
    }
    Value::Object(m)
}

fn vis(v: &Visibility) -> Value {
    match v {
        Visibility::Public(_) => json!("pub"),
        Visibility::Restricted(r) => json!(ts(r).replace(' ', "")),
        Visibility::Inherited => json!(""),
    }
}

fn generics(g: &Generics) -> Value {
    let params: Vec<Value> = g
        .params
        .iter()
        .map(|p| match p {
            GenericParam::Type(t) => json!({"k": "type", "name": t.ident.to_string(),
                "bounds": t.bounds.iter().map(bound).collect::<Vec<_>>(),
                "default": t.default.as_ref().map(ty), "attrs": attrs(&t.attrs), "ln": ln(t.span())}),
            GenericParam::Lifetime(l) => json!({"k": "lifetime", "name": l.lifetime.to_string(),
                "bounds": l.bounds.iter().map(|b| json!(b.to_string())).collect::<Vec<_>>(), "ln": ln(l.span())}),
            GenericParam::Const(c) => json!({"k": "const", "name": c.ident.to_string(), "ty": ty(&c.ty), "ln": ln(c.span())}),
        })
        .collect();
    let wh: Vec<Value> = g
        .where_clause
        .as_ref()
        .map(|w| w.predicates.iter().map(where_pred).collect())
        .unwrap_or_default();
    json!({"params": params, "where": wh})
}

fn where_pred(p: &WherePredicate) -> Value {
    match p {
        WherePredicate::Type(t) => json!({"k": "type", "bounded": ty(&t.bounded_ty),
            "bounds": t.bounds.iter().map(bound).collect::<Vec<_>>(), "s": ts(p), "ln": ln(p.span())}),
        WherePredicate::Lifetime(l) => json!({"k": "lifetime", "s": ts(l), "ln": ln(p.span())}),
        _ => json!({"k": "other", "s": ts(p)}),
    }
}

fn bound(b: &TypeParamBound) -> Value {
    match b {
        TypeParamBound::Trait(t) => json!({"k": "trait", "path": path(&t.path),
            "maybe": matches!(t.modifier, TraitBoundModifier::Maybe(_)),
            "hrtb": t.lifetimes.as_ref().map(ts), "s": ts(b)}),
        TypeParamBound::Lifetime(l) => json!({"k": "lifetime", "name": l.to_string(), "s": ts(b)}),
        _ => json!({"k": "other", "s": ts(b)}),
    }
}

fn path(p: &Path) -> Value {
    let segs: Vec<Value> = p.segments.iter().map(seg).collect();
    json!({"global": p.leading_colon.is_some(), "segs": segs, "s": ts(p)})
}

fn seg(s: &PathSegment) -> Value {
    let args = match &s.arguments {
        PathArguments::None => Value::Null,
        PathArguments::AngleBracketed(a) => Value::Array(a.args.iter().map(generic_arg).collect()),
        PathArguments::Parenthesized(p) => json!({"k": "fnargs", "inputs": p.inputs.iter().map(ty).collect::<Vec<_>>(),
            "output": match &p.output { ReturnType::Default => Value::Null, ReturnType::Type(_, t) => ty(t) }}),
    };
    json!({"id": s.ident.to_string(), "args": args})
}

fn generic_arg(a: &GenericArgument) -> Value {
    match a {
        GenericArgument::Type(t) => ty(t),
        GenericArgument::Lifetime(l) => json!({"k": "lifetime", "name": l.to_string(), "s": l.to_string()}),
        GenericArgument::Const(e) => json!({"k": "constarg", "expr": expr(e), "s": ts(e)}),
        GenericArgument::AssocType(a) => json!({"k": "assoc", "name": a.ident.to_string(), "ty": ty(&a.ty), "s": ts(a)}),
        _ => json!({"k": "other", "s": ts(a)}),
    }
}

fn ty(t: &Type) -> Value {
    let mut v = ty_inner(t);
    if let Value::Object(m) = &mut v { m.insert("t".into(), json!(1)); }
    v
}

fn ty_inner(t: &Type) -> Value {
    let s = ts(t);
    match t {
        Type::Path(p) => json!({"k": "path", "qself": p.qself.as_ref().map(|q| ty(&q.ty)),
            "qpos": p.qself.as_ref().map(|q| q.position), "path": path(&p.path), "s": s, "ln": ln(t.span())}),
        Type::Reference(r) => json!({"k": "ref", "mut": r.mutability.is_some(),
            "lt": r.lifetime.as_ref().map(|l| l.to_string()), "elem": ty(&r.elem), "s": s}),
        Type::Tuple(tu) => json!({"k": "tuple", "elems": tu.elems.iter().map(ty).collect::<Vec<_>>(), "s": s}),
        Type::Paren(p) => ty(&p.elem),
        Type::Group(g) => ty(&g.elem),
        Type::TraitObject(o) => json!({"k": "dyn", "bounds": o.bounds.iter().map(bound).collect::<Vec<_>>(), "s": s}),
        Type::ImplTrait(o) => json!({"k": "impl", "bounds": o.bounds.iter().map(bound).collect::<Vec<_>>(), "s": s}),
        Type::Slice(sl) => json!({"k": "slice", "elem": ty(&sl.elem), "s": s}),
        Type::Array(a) => json!({"k": "array", "elem": ty(&a.elem), "len": ts(&a.len), "s": s}),
        Type::Ptr(p) => json!({"k": "ptr", "mut": p.mutability.is_some(), "elem": ty(&p.elem), "s": s}),
        Type::Infer(_) => json!({"k": "infer", "s": s}),
        Type::Never(_) => json!({"k": "never", "s": s}),
        _ => json!({"k": "other", "s": s}),
    }
}

fn member(m: &Member) -> Value {
    match m {
        Member::Named(i) => json!(i.to_string()),
        Member::Unnamed(i) => json!(i.index),
    }
}

fn pat(p: &Pat) -> Value {
    let mut v = pat_inner(p);
    if let Value::Object(m) = &mut v { m.insert("p".into(), json!(1)); }
    v
}

fn pat_inner(p: &Pat) -> Value {
    match p {
        Pat::Ident(i) => json!({"k": "ident", "name": i.ident.to_string(), "byref": i.by_ref.is_some(),
            "mut": i.mutability.is_some(), "sub": i.subpat.as_ref().map(|(_, s)| pat(s)), "ln": ln(p.span())}),
        Pat::Struct(s) => json!({"k": "struct", "path": path(&s.path),
            "fields": s.fields.iter().map(|f| json!({"member": member(&f.member), "pat": pat(&f.pat), "short": f.colon_token.is_none()})).collect::<Vec<_>>(),
            "rest": s.rest.is_some(), "ln": ln(p.span())}),
        Pat::TupleStruct(s) => json!({"k": "tuplestruct", "path": path(&s.path),
            "elems": s.elems.iter().map(pat).collect::<Vec<_>>(), "ln": ln(p.span())}),
        Pat::Tuple(t) => json!({"k": "tuple", "elems": t.elems.iter().map(pat).collect::<Vec<_>>()}),
        Pat::Wild(_) => json!({"k": "wild"}),
        Pat::Path(e) => json!({"k": "path", "path": path(&e.path), "qself": e.qself.as_ref().map(|q| ty(&q.ty))}),
        Pat::Lit(l) => json!({"k": "lit", "s": ts(l)}),
        Pat::Reference(r) => json!({"k": "ref", "mut": r.mutability.is_some(), "pat": pat(&r.pat)}),
        Pat::Or(o) => json!({"k": "or", "cases": o.cases.iter().map(pat).collect::<Vec<_>>()}),
        Pat::Type(t) => json!({"k": "typed", "pat": pat(&t.pat), "ty": ty(&t.ty)}),
        Pat::Paren(pp) => pat(&pp.pat),
        Pat::Rest(_) => json!({"k": "rest"}),
        Pat::Slice(s) => json!({"k": "slice", "elems": s.elems.iter().map(pat).collect::<Vec<_>>()}),
        Pat::Range(r) => json!({"k": "range", "s": ts(r)}),
        Pat::Const(c) => json!({"k": "const", "s": ts(c)}),
        Pat::Macro(m) => json!({"k": "macro", "s": ts(m)}),
        _ => json!({"k": "other", "s": ts(p)}),
    }
}

fn block(b: &Block) -> Value {
    json!({"k": "block", "stmts": b.stmts.iter().map(stmt).collect::<Vec<_>>(), "ln": ln(b.span())})
}

fn stmt(s: &Stmt) -> Value {
    match s {
        Stmt::Local(l) => json!({"k": "let", "pat": pat(&l.pat),
            "init": l.init.as_ref().map(|i| expr(&i.expr)),
            "else": l.init.as_ref().and_then(|i| i.diverge.as_ref().map(|(_, e)| expr(e))),
            "attrs": attrs(&l.attrs), "ln": ln(s.span())}),
        Stmt::Item(i) => json!({"k": "item", "item": item(i), "ln": ln(s.span())}),
        Stmt::Expr(e, semi) => json!({"k": "expr", "expr": expr(e), "semi": semi.is_some(), "ln": ln(s.span())}),
        Stmt::Macro(m) => json!({"k": "macro", "path": ts(&m.mac.path).replace(' ', ""),
            "tt": tt_json(m.mac.tokens.clone()), "semi": m.semi_token.is_some(), "ln": ln(s.span())}),
    }
}

fn expr(e: &Expr) -> Value {
    let mut v = expr_inner(e);
    if let Value::Object(m) = &mut v { m.insert("x".into(), json!(1)); }
    v
}

fn expr_inner(e: &Expr) -> Value {
    let l = ln(e.span());
    match e {
        Expr::Call(c) => json!({"k": "call", "func": expr(&c.func), "args": c.args.iter().map(expr).collect::<Vec<_>>(), "ln": l}),
        Expr::MethodCall(m) => json!({"k": "mcall", "recv": expr(&m.receiver), "method": m.method.to_string(),
            "turbofish": m.turbofish.as_ref().map(|t| t.args.iter().map(generic_arg).collect::<Vec<_>>()),
            "args": m.args.iter().map(expr).collect::<Vec<_>>(), "ln": l}),
        Expr::Path(p) => json!({"k": "path", "qself": p.qself.as_ref().map(|q| ty(&q.ty)),
            "qpos": p.qself.as_ref().map(|q| q.position), "path": path(&p.path), "s": ts(e), "ln": l}),
        Expr::Match(m) => json!({"k": "match", "expr": expr(&m.expr),
            "arms": m.arms.iter().map(|a| json!({"pat": pat(&a.pat), "guard": a.guard.as_ref().map(|(_, g)| expr(g)),
                "body": expr(&a.body), "attrs": attrs(&a.attrs), "ln": ln(a.span())})).collect::<Vec<_>>(), "ln": l}),
        Expr::Block(b) => {
            let mut v = block(&b.block);
            if let Some(lbl) = &b.label { v["label"] = json!(lbl.name.to_string()); }
            v
        }
        Expr::Struct(s) => json!({"k": "struct", "path": path(&s.path), "qself": s.qself.as_ref().map(|q| ty(&q.ty)),
            "fields": s.fields.iter().map(|f| json!({"member": member(&f.member), "expr": expr(&f.expr), "short": f.colon_token.is_none()})).collect::<Vec<_>>(),
            "rest": s.rest.as_ref().map(|r| expr(r)), "dotdot": s.dot2_token.is_some(), "ln": l}),
        Expr::Tuple(t) => json!({"k": "tuple", "elems": t.elems.iter().map(expr).collect::<Vec<_>>(), "ln": l}),
        Expr::Field(f) => json!({"k": "field", "base": expr(&f.base), "member": member(&f.member), "ln": l}),
        Expr::Reference(r) => json!({"k": "ref", "mut": r.mutability.is_some(), "expr": expr(&r.expr), "ln": l}),
        Expr::Try(t) => json!({"k": "try", "expr": expr(&t.expr), "ln": l}),
        Expr::Closure(c) => json!({"k": "closure", "inputs": c.inputs.iter().map(pat).collect::<Vec<_>>(),
            "body": expr(&c.body), "move": c.capture.is_some(), "ln": l}),
        Expr::Lit(li) => {
            let (lk, val) = match &li.lit {
                Lit::Str(s) => ("str", json!(s.value())),
                Lit::Int(i) => ("int", json!(i.base10_digits())),
                Lit::Bool(b) => ("bool", json!(b.value)),
                Lit::ByteStr(b) => ("bytestr", json!(String::from_utf8_lossy(&b.value()).to_string())),
                Lit::Char(c) => ("char", json!(c.value().to_string())),
                other => ("other", json!(ts(other))),
            };
            json!({"k": "lit", "lk": lk, "v": val, "s": ts(e), "ln": l})
        }
        Expr::Macro(m) => json!({"k": "macro", "path": ts(&m.mac.path).replace(' ', ""), "tt": tt_json(m.mac.tokens.clone()), "ln": l}),
        Expr::If(i) => json!({"k": "if", "cond": expr(&i.cond), "then": block(&i.then_branch),
            "else": i.else_branch.as_ref().map(|(_, e)| expr(e)), "ln": l}),
        Expr::Let(le) => json!({"k": "letexpr", "pat": pat(&le.pat), "expr": expr(&le.expr), "ln": l}),
        Expr::Return(r) => json!({"k": "return", "expr": r.expr.as_ref().map(|e| expr(e)), "ln": l}),
        Expr::Unary(u) => json!({"k": "unary", "op": ts(&u.op), "expr": expr(&u.expr), "ln": l}),
        Expr::Binary(b) => json!({"k": "binary", "op": ts(&b.op), "left": expr(&b.left), "right": expr(&b.right), "ln": l}),
        Expr::Assign(a) => json!({"k": "assign", "left": expr(&a.left), "right": expr(&a.right), "ln": l}),
        Expr::Cast(c) => json!({"k": "cast", "expr": expr(&c.expr), "ty": ty(&c.ty), "ln": l}),
        Expr::Index(i) => json!({"k": "index", "expr": expr(&i.expr), "index": expr(&i.index), "ln": l}),
        Expr::Array(a) => json!({"k": "array", "elems": a.elems.iter().map(expr).collect::<Vec<_>>(), "ln": l}),
        Expr::Repeat(r) => json!({"k": "repeat", "expr": expr(&r.expr), "len": expr(&r.len), "ln": l}),
        Expr::Paren(p) => expr(&p.expr),
        Expr::Group(g) => expr(&g.expr),
        Expr::While(w) => json!({"k": "while", "cond": expr(&w.cond), "body": block(&w.body), "ln": l}),
        Expr::Loop(lo) => json!({"k": "loop", "body": block(&lo.body), "ln": l}),
        Expr::ForLoop(f) => json!({"k": "for", "pat": pat(&f.pat), "expr": expr(&f.expr), "body": block(&f.body), "ln": l}),
        Expr::Break(b) => json!({"k": "break", "expr": b.expr.as_ref().map(|e| expr(e)), "ln": l}),
        Expr::Continue(_) => json!({"k": "continue", "ln": l}),
        Expr::Range(r) => json!({"k": "range", "start": r.start.as_ref().map(|e| expr(e)), "end": r.end.as_ref().map(|e| expr(e)),
            "closed": matches!(r.limits, RangeLimits::Closed(_)), "ln": l}),
        Expr::Unsafe(u) => { let mut v = block(&u.block); v["unsafe"] = json!(true); v }
        Expr::Const(c) => { let mut v = block(&c.block); v["const"] = json!(true); v }
        Expr::Async(a) => { let mut v = block(&a.block); v["async"] = json!(true); v }
        Expr::Await(a) => json!({"k": "await", "expr": expr(&a.base), "ln": l}),
        _ => json!({"k": "other", "s": ts(e), "ln": l}),
    }
}

fn fields(f: &Fields) -> (Value, &'static str) {
    let conv = |fl: &Field, idx: usize| {
        json!({"name": fl.ident.as_ref().map(|i| i.to_string()), "index": idx, "ty": ty(&fl.ty),
            "attrs": attrs(&fl.attrs), "vis": vis(&fl.vis), "ln": ln(fl.span())})
    };
    match f {
        Fields::Named(n) => (Value::Array(n.named.iter().enumerate().map(|(i, f)| conv(f, i)).collect()), "named"),
        Fields::Unnamed(u) => (Value::Array(u.unnamed.iter().enumerate().map(|(i, f)| conv(f, i)).collect()), "tuple"),
        Fields::Unit => (json!([]), "unit"),
    }
}

fn sig(s: &Signature) -> Map<String, Value> {
    let mut m = Map::new();
    m.insert("name".into(), json!(s.ident.to_string()));
    m.insert("generics".into(), generics(&s.generics));
    m.insert("const".into(), json!(s.constness.is_some()));
    m.insert("async".into(), json!(s.asyncness.is_some()));
    m.insert("unsafe".into(), json!(s.unsafety.is_some()));
    let inputs: Vec<Value> = s
        .inputs
        .iter()
        .map(|a| match a {
            FnArg::Receiver(r) => json!({"recv": true, "ref": r.reference.is_some(), "mut": r.mutability.is_some(),
                "attrs": attrs(&r.attrs), "s": ts(r), "ln": ln(r.span())}),
            FnArg::Typed(t) => json!({"recv": false, "pat": pat(&t.pat), "ty": ty(&t.ty), "attrs": attrs(&t.attrs),
                "ln": ln(t.span()), "span": span4(t.span())}),
        })
        .collect();
    m.insert("inputs".into(), Value::Array(inputs));
    m.insert(
        "output".into(),
        match &s.output {
            ReturnType::Default => Value::Null,
            ReturnType::Type(_, t) => ty(t),
        },
    );
    m
}

fn item(i: &Item) -> Value {
    let sp = span4(i.span());
    let l = ln(i.span());
    match i {
        Item::Fn(f) => {
            let mut m = sig(&f.sig);
            m.insert("k".into(), json!("fn"));
            m.insert("attrs".into(), attrs(&f.attrs));
            m.insert("vis".into(), vis(&f.vis));
            m.insert("body".into(), block(&f.block));
            m.insert("ln".into(), l);
            m.insert("span".into(), sp);
            Value::Object(m)
        }
        Item::Mod(md) => json!({"k": "mod", "name": md.ident.to_string(), "attrs": attrs(&md.attrs), "vis": vis(&md.vis),
            "items": md.content.as_ref().map(|(_, it)| it.iter().map(item).collect::<Vec<_>>()), "ln": l, "span": sp}),
        Item::Impl(im) => json!({"k": "impl", "attrs": attrs(&im.attrs), "generics": generics(&im.generics),
            "trait": im.trait_.as_ref().map(|(neg, p, _)| json!({"neg": neg.is_some(), "path": path(p)})),
            "unsafe": im.unsafety.is_some(),
            "self_ty": ty(&im.self_ty), "items": im.items.iter().map(impl_item).collect::<Vec<_>>(), "ln": l, "span": sp}),
        Item::Trait(t) => json!({"k": "trait", "name": t.ident.to_string(), "attrs": attrs(&t.attrs), "vis": vis(&t.vis),
            "generics": generics(&t.generics), "supertraits": t.supertraits.iter().map(bound).collect::<Vec<_>>(),
            "items": t.items.iter().map(trait_item).collect::<Vec<_>>(), "ln": l, "span": sp}),
        Item::Struct(s) => {
            let (f, style) = fields(&s.fields);
            json!({"k": "struct", "name": s.ident.to_string(), "attrs": attrs(&s.attrs), "vis": vis(&s.vis),
                "generics": generics(&s.generics), "fields": f, "style": style, "ln": l, "span": sp})
        }
        Item::Enum(e) => json!({"k": "enum", "name": e.ident.to_string(), "attrs": attrs(&e.attrs), "vis": vis(&e.vis),
            "generics": generics(&e.generics),
            "variants": e.variants.iter().map(|v| { let (f, style) = fields(&v.fields);
                json!({"name": v.ident.to_string(), "attrs": attrs(&v.attrs), "fields": f, "style": style,
                    "disc": v.discriminant.as_ref().map(|(_, e)| ts(e)), "ln": ln(v.span())}) }).collect::<Vec<_>>(),
            "ln": l, "span": sp}),
        Item::Const(c) => json!({"k": "const", "name": c.ident.to_string(), "attrs": attrs(&c.attrs), "vis": vis(&c.vis),
            "ty": ty(&c.ty), "expr": expr(&c.expr), "generics": generics(&c.generics), "ln": l, "span": sp}),
        Item::Static(c) => json!({"k": "static", "name": c.ident.to_string(), "attrs": attrs(&c.attrs), "vis": vis(&c.vis),
            "mut": matches!(c.mutability, StaticMutability::Mut(_)),
            "ty": ty(&c.ty), "expr": expr(&c.expr), "ln": l, "span": sp}),
        Item::Type(t) => json!({"k": "type", "name": t.ident.to_string(), "attrs": attrs(&t.attrs), "vis": vis(&t.vis),
            "generics": generics(&t.generics), "ty": ty(&t.ty), "ln": l, "span": sp}),
        Item::Use(u) => json!({"k": "use", "attrs": attrs(&u.attrs), "vis": vis(&u.vis), "s": ts(&u.tree), "ln": l, "span": sp}),
        Item::Macro(m) => json!({"k": "macro", "attrs": attrs(&m.attrs), "path": ts(&m.mac.path).replace(' ', ""),
            "ident": m.ident.as_ref().map(|i| i.to_string()), "tt": tt_json(m.mac.tokens.clone()), "ln": l, "span": sp}),
        Item::ExternCrate(e) => json!({"k": "extern_crate", "name": e.ident.to_string(),
            "rename": e.rename.as_ref().map(|(_, i)| i.to_string()), "attrs": attrs(&e.attrs), "ln": l, "span": sp}),
        _ => json!({"k": "other", "s": ts(i), "ln": l, "span": sp}),
    }
}

fn impl_item(i: &ImplItem) -> Value {
    let sp = span4(i.span());
    let l = ln(i.span());
    match i {
        ImplItem::Fn(f) => {
            let mut m = sig(&f.sig);
            m.insert("k".into(), json!("fn"));
            m.insert("attrs".into(), attrs(&f.attrs));
            m.insert("vis".into(), vis(&f.vis));
            m.insert("body".into(), block(&f.block));
            m.insert("ln".into(), l);
            m.insert("span".into(), sp);
            Value::Object(m)
        }
        ImplItem::Const(c) => json!({"k": "const", "name": c.ident.to_string(), "attrs": attrs(&c.attrs), "vis": vis(&c.vis),
            "ty": ty(&c.ty), "expr": expr(&c.expr), "ln": l, "span": sp}),
        ImplItem::Type(t) => json!({"k": "type", "name": t.ident.to_string(), "attrs": attrs(&t.attrs), "vis": vis(&t.vis),
            "generics": generics(&t.generics), "ty": ty(&t.ty), "ln": l, "span": sp}),
        ImplItem::Macro(m) => json!({"k": "macro", "path": ts(&m.mac.path).replace(' ', ""), "tt": tt_json(m.mac.tokens.clone()), "ln": l, "span": sp}),
        _ => json!({"k": "other", "s": ts(i), "ln": l, "span": sp}),
    }
}

fn trait_item(i: &TraitItem) -> Value {
    let sp = span4(i.span());
    let l = ln(i.span());
    match i {
        TraitItem::Fn(f) => {
            let mut m = sig(&f.sig);
            m.insert("k".into(), json!("fn"));
            m.insert("attrs".into(), attrs(&f.attrs));
            m.insert("vis".into(), json!(""));
            m.insert("body".into(), f.default.as_ref().map(block).unwrap_or(Value::Null));
            m.insert("ln".into(), l);
            m.insert("span".into(), sp);
            Value::Object(m)
        }
        TraitItem::Const(c) => json!({"k": "const", "name": c.ident.to_string(), "attrs": attrs(&c.attrs),
            "ty": ty(&c.ty), "expr": c.default.as_ref().map(|(_, e)| expr(e)), "ln": l, "span": sp}),
        TraitItem::Type(t) => json!({"k": "type", "name": t.ident.to_string(), "attrs": attrs(&t.attrs),
            "generics": generics(&t.generics), "bounds": t.bounds.iter().map(bound).collect::<Vec<_>>(),
            "ty": t.default.as_ref().map(|(_, t)| ty(t)), "ln": l, "span": sp}),
        TraitItem::Macro(m) => json!({"k": "macro", "path": ts(&m.mac.path).replace(' ', ""), "tt": tt_json(m.mac.tokens.clone()), "ln": l, "span": sp}),
        _ => json!({"k": "other", "s": ts(i), "ln": l, "span": sp}),
    }
}

fn main() {
    let args: Vec<String> = std::env::args().collect();
    if args.len() < 3 {
        eprintln!("usage: syn2json ast|tokens <file.rs>");
        std::process::exit(2);
    }
    let src = match std::fs::read_to_string(&args[2]) {
        Ok(s) => s,
        Err(e) => {
            eprintln!("syn2json: cannot read {}: {}", args[2], e);
            std::process::exit(2);
        }
    };
    let out = match args[1].as_str() {
        "ast" => {
            let file: File = match syn::parse_file(&src) {
                Ok(f) => f,
                Err(e) => {
                    eprintln!("syn2json: parse error in {}: {} at line {}", args[2], e, e.span().start().line);
                    std::process::exit(3);
                }
            };
            json!({"file": args[2], "attrs": attrs(&file.attrs), "items": file.items.iter().map(item).collect::<Vec<_>>()})
        }
        "tokens" => {
            let stream: TokenStream = match src.parse() {
                Ok(s) => s,
                Err(e) => {
                    eprintln!("syn2json: lex error in {}: {}", args[2], e);
                    std::process::exit(3);
                }
            };
            json!({"file": args[2], "tt": tt_json(stream)})
        }
        _ => {
            eprintln!("unknown mode");
            std::process::exit(2);
        }
    };
    let stdout = std::io::stdout();
    let mut w = std::io::BufWriter::new(stdout.lock());
    serde_json::to_writer(&mut w, &out).unwrap();
}
