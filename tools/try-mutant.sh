#!/bin/bash
# usage: try-mutant.sh "<sed expr>" <file relative to /repo> <prop> [<prop>...]
# applies a one-off edit to /repo, runs the given checks, restores /repo.  Development aid only.
expr="$1"; file="$2"; shift 2
cd /repo || exit 2
git diff --quiet || { echo "/repo not clean"; exit 2; }
sed -i "$expr" "$file"
if git diff --quiet; then echo "MUTANT DID NOT CHANGE ANYTHING"; exit 3; fi
git diff --stat | tail -1
for p in "$@"; do
  (cd /verif && ./bin/svcheck check "$p" 2>&1 | grep -E "^VIOLATION|^\[C|CHECK-ERROR|rule=" | head -8)
done
git checkout -- .
