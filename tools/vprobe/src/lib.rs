//! `#[vprobe::capture(id)]`: re-emits the annotated item untouched and adds
//! `pub const __VPROBE_<id>: &str = "<the item's tokens as the macro received them>";`
//! Used by /verif to see what each sylvia attribute macro re-emitted *before* further expansion.
extern crate proc_macro;
use proc_macro::TokenStream;

#[proc_macro_attribute]
pub fn capture(attr: TokenStream, item: TokenStream) -> TokenStream {
    let id = attr.to_string().replace(' ', "");
    let text = item.to_string();
    let konst: TokenStream = format!(
        "#[allow(dead_code, non_upper_case_globals)] #[doc(hidden)] pub const __VPROBE_{}: &str = {:?};",
        id, text
    )
    .parse()
    .expect("vprobe: const");
    let mut out = item;
    out.extend(konst);
    out
}
