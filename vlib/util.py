"""Shared helpers: paths, subprocess, syn2json invocation."""
import hashlib
import json
import os
import subprocess
import sys

VERIF = os.path.dirname(os.path.dirname(os.path.abspath(__file__)))
REPO = os.environ.get("VERIF_REPO", "/repo")
CACHE = os.path.join(VERIF, ".cache")
SYN2JSON = os.path.join(VERIF, "tools", "syn2json", "target", "release", "syn2json")
WORK = os.path.join(os.environ.get("TMPDIR", "/tmp"), "vp-work")
TARGET_DIR = os.path.join(CACHE, "target")

KINDS = ["instantiate", "exec", "query", "sudo", "migrate", "reply"]
ENUM_KINDS = ["exec", "query", "sudo"]
EP_NAME = {"instantiate": "instantiate", "exec": "execute", "query": "query", "sudo": "sudo",
           "migrate": "migrate", "reply": "reply"}
MSG_NAME = {"instantiate": "InstantiateMsg", "exec": "ExecMsg", "query": "QueryMsg", "sudo": "SudoMsg",
            "migrate": "MigrateMsg", "reply": "ReplyMsg"}
WRAPPER_NAME = {"exec": "ContractExecMsg", "query": "ContractQueryMsg", "sudo": "ContractSudoMsg"}
ACCESSOR = {"instantiate": "Instantiate", "exec": "Exec", "query": "Query", "sudo": "Sudo",
            "migrate": "Migrate", "reply": "Reply"}
WRAPPER_ACCESSOR = {"exec": "ContractExec", "query": "ContractQuery", "sudo": "ContractSudo"}


class CheckError(Exception):
    """The machinery itself could not do its job (missing anchor, tool failure): fail closed."""


def log(*a):
    print(*a, file=sys.stderr, flush=True)


def run(cmd, **kw):
    kw.setdefault("stdout", subprocess.PIPE)
    kw.setdefault("stderr", subprocess.PIPE)
    kw.setdefault("text", True)
    return subprocess.run(cmd, **kw)


def syn_ast(path):
    """Parse a Rust file into the JSON AST."""
    if not os.path.exists(SYN2JSON):
        raise CheckError(f"syn2json not built ({SYN2JSON}); run MANIFEST.setup_cmd")
    r = run([SYN2JSON, "ast", path])
    if r.returncode != 0:
        raise CheckError(f"syn2json failed on {path}: {r.stderr.strip()}")
    return json.loads(r.stdout)


def syn_tokens(path):
    r = run([SYN2JSON, "tokens", path])
    if r.returncode != 0:
        raise CheckError(f"syn2json tokens failed on {path}: {r.stderr.strip()}")
    return json.loads(r.stdout)


def syn_ast_text(text, tmpname="snippet.rs"):
    os.makedirs(os.path.join(WORK, "snip"), exist_ok=True)
    p = os.path.join(WORK, "snip", f"{os.getpid()}-{tmpname}")
    with open(p, "w") as f:
        f.write(text)
    try:
        return syn_ast(p)
    finally:
        os.unlink(p)


def syn_tokens_text(text, tmpname="snippet.rs"):
    os.makedirs(os.path.join(WORK, "snip"), exist_ok=True)
    p = os.path.join(WORK, "snip", f"{os.getpid()}-tok-{tmpname}")
    with open(p, "w") as f:
        f.write(text)
    try:
        return syn_tokens(p)
    finally:
        os.unlink(p)


def sha256_files(paths):
    h = hashlib.sha256()
    for p in sorted(paths):
        h.update(p.encode())
        h.update(b"\0")
        try:
            with open(p, "rb") as f:
                h.update(f.read())
        except OSError:
            h.update(b"<missing>")
        h.update(b"\0")
    return h.hexdigest()


def walk_files(root, exts=None, skip_dirs=("target", ".git")):
    out = []
    for d, dirs, files in os.walk(root):
        dirs[:] = [x for x in dirs if x not in skip_dirs]
        for f in files:
            if exts is None or os.path.splitext(f)[1] in exts:
                out.append(os.path.join(d, f))
    return sorted(out)
