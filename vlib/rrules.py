"""E-R: field-provenance rules over the hand-written runtime (sylvia/src)."""
import glob
import os
import tomllib

from . import ast as A
from . import util
from .util import CheckError

_cache = {}


def runtime_ast(rel):
    k = ("rt", rel)
    if k not in _cache:
        _cache[k] = util.syn_ast(os.path.join(util.REPO, rel))
    return _cache[k]


def dep_source_dir(name):
    """source directory of the version of a dependency that /repo/Cargo.lock resolves"""
    with open(os.path.join(util.REPO, "Cargo.lock"), "rb") as f:
        lock = tomllib.load(f)
    vers = [p["version"] for p in lock["package"] if p["name"] == name]
    for v in sorted(vers, reverse=True):
        c = glob.glob(os.path.expanduser(f"~/.cargo/registry/src/*/{name}-{v}"))
        if c:
            return c[0]
    raise CheckError(f"source of dependency {name} not found in the cargo registry")


def dep_item(dep, relfile, kind, name):
    k = ("dep", dep, relfile)
    if k not in _cache:
        _cache[k] = util.syn_ast(os.path.join(dep_source_dir(dep), relfile))
    for it in _cache[k]["items"]:
        if it.get("k") == kind and it.get("name") == name:
            return it
    raise CheckError(f"{kind} {name} not found in {dep}/{relfile}")


def cfg_feature(attrs):
    """feature named by a plain #[cfg(feature = "x")] attribute; None if no cfg; raises on other forms"""
    out = None
    for a in attrs:
        if a["path"] != "cfg":
            continue
        s = A.compact(a["tokens"])
        if s.startswith('feature="') and s.endswith('"') and s.count('"') == 2:
            out = s[len('feature="'):-1]
        else:
            raise CheckError(f"unrecognised cfg form: {a['tokens']}")
    return out


def sylvia_feature_closure():
    with open(os.path.join(util.REPO, "sylvia", "Cargo.toml"), "rb") as f:
        man = tomllib.load(f)
    feats = man.get("features", {})

    def closure(f, seen=None):
        seen = seen or set()
        out = set()
        for x in feats.get(f, []):
            out.add(x)
            if x in feats and x not in seen:
                seen.add(x)
                out |= closure(x, seen)
        return out
    return {f: closure(f) for f in feats}


def find_impl_fn(ast, trait_last, fn_name, self_last=None):
    out = []
    for it in ast["items"]:
        if it.get("k") == "impl" and it.get("trait") and it["trait"]["path"]["segs"][-1]["id"] == trait_last:
            if self_last and not (it["self_ty"]["k"] == "path" and it["self_ty"]["path"]["segs"][-1]["id"] == self_last):
                continue
            for f in it["items"]:
                if f.get("k") == "fn" and f["name"] == fn_name:
                    out.append((it, f))
    return out


def self_field(e):
    """`self.<f>` -> f"""
    e = A.strip_expr(e)
    if e["k"] == "field" and A.path_ids(e["base"]) == ["self"]:
        return e["member"]
    return None


# ------------------------------------------------------------------ R2

def rule_r2(ctx, rule="R2.into_msg"):
    rel = "sylvia/src/into_response.rs"
    ast = runtime_ast(rel)
    cands = find_impl_fn(ast, "IntoMsg", "into_msg", "SubMsg")
    if len(cands) != 1:
        ctx.violation(rule, ["anchor"], rel, "one impl IntoMsg for SubMsg<Empty> with fn into_msg", len(cands), "anchor missing")
        return
    imp, f = cands[0]
    cosmos = dep_item("cosmwasm-std", "src/results/cosmos_msg.rs", "enum", "CosmosMsg")
    submsg = dep_item("cosmwasm-std", "src/results/submessages.rs", "struct", "SubMsg")
    closure = sylvia_feature_closure()
    non_exhaustive = A.has_attr(cosmos, "non_exhaustive")
    ms = [m for m in A.find_all(f["body"], lambda n: isinstance(n, dict) and n.get("x") and n.get("k") == "match") if self_field(m["expr"]) == "msg"]
    if len(ms) != 1:
        ctx.unrecognised(rule, [rel], f"{rel}:{f['ln']}", "no single `match self.msg`")
        return
    mt = ms[0]
    arms = {}
    wild = None
    for arm in mt["arms"]:
        p = arm["pat"]
        if p["k"] == "wild":
            wild = arm
            continue
        if p["k"] not in ("tuplestruct", "struct", "path"):
            ctx.unrecognised(rule, [rel, "arm-pattern"], f"{rel}:{arm['ln']}", f"pattern kind {p['k']}")
            continue
        v = p["path"]["segs"][-1]["id"]
        arms.setdefault(v, []).append(arm)
    for var in cosmos["variants"]:
        vn = var["name"]
        gate = cfg_feature(var["attrs"])
        ctx.inst(rule, distinct=vn)
        mine = arms.get(vn, [])
        key = [rel, vn]
        if vn == "Custom":
            ok = len(mine) == 1 and _yields_err(mine[0]["body"])
            if not ok:
                ctx.violation(rule, key + ["custom-fails"], f"{rel}:{mt['ln']}", "the Custom arm (and only it) fails the conversion", "not so",
                              "the conversion fails exactly when the response contains a custom-typed message")
            continue
        if len(mine) != 1:
            ctx.violation(rule, key + ["missing-arm"], f"{rel}:{mt['ln']}", f"an arm rebuilding CosmosMsg::{vn}" + (f" under a gate implying cosmwasm-std/{gate}" if gate else ""),
                          f"{len(mine)} arms (a non-custom message of this kind makes the conversion fail through the catch-all arm)",
                          "every non-custom sub-message survives the bridging conversion")
            continue
        arm = mine[0]
        try:
            agate = cfg_feature(arm["attrs"])
        except CheckError as e:
            ctx.unrecognised(rule, key + ["gate"], f"{rel}:{arm['ln']}", str(e))
            continue
        if gate is None and agate is not None:
            ctx.violation(rule, key + ["gate"], f"{rel}:{arm['ln']}", "ungated arm (the variant always exists)", f'cfg(feature = "{agate}")', "gate mismatch: the variant exists while the arm may be compiled out")
        if gate is not None:
            if agate is None:
                ctx.violation(rule, key + ["gate"], f"{rel}:{arm['ln']}", f"gated arm (variant only exists with cosmwasm-std/{gate})", "ungated", "gate mismatch: would not compile without the feature")
            elif f"cosmwasm-std/{gate}" not in closure.get(agate, set()):
                ctx.violation(rule, key + ["gate"], f"{rel}:{arm['ln']}", f"a sylvia feature that enables cosmwasm-std/{gate}", agate, "gate mismatch")
        # rebuilds the same variant from the same bindings
        binds = _pattern_bindings(arm["pat"])
        body = A.strip_expr(arm["body"])
        ok = False
        if body["k"] == "call" and A.path_ids(body["func"]) and A.path_ids(body["func"])[-1] == vn:
            got = [A.path_ids(A.strip_expr(a)) for a in body["args"]]
            ok = got == [[b] for b in binds["tuple"]] and not binds["named"]
        elif body["k"] == "struct" and body["path"]["segs"][-1]["id"] == vn:
            got = {fl["member"]: A.path_ids(A.strip_expr(fl["expr"])) for fl in body["fields"]}
            ok = got == {k: [v] for k, v in binds["named"].items()} and set(got) == set(fl["name"] for fl in var["fields"]) and body.get("rest") is None
        if not ok:
            ctx.violation(rule, key + ["rebuild"], f"{rel}:{arm['ln']}", f"CosmosMsg::{vn} rebuilt from exactly the matched payload", "something else", "payload of a bridged message is preserved")
    extra = set(arms) - set(v["name"] for v in cosmos["variants"])
    if extra:
        ctx.violation(rule, [rel, "unknown-variants"], f"{rel}:{mt['ln']}", "arms only for CosmosMsg variants", sorted(extra))
    if wild is not None:
        if not non_exhaustive:
            ctx.violation(rule, [rel, "catch-all"], f"{rel}:{wild['ln']}", "no catch-all arm (enum is exhaustive)", "catch-all present", "")
        if not _yields_err(wild["body"]):
            ctx.violation(rule, [rel, "catch-all-ok"], f"{rel}:{wild['ln']}", "catch-all yields Err", "yields a value", "")
    # the resulting SubMsg, on every return path: struct literal, `SubMsg::new(m)` (+ field assignments), or a match over such
    ctx.inst(rule + ".submsg")
    fields = [fl["name"] for fl in submsg["fields"]]
    msg_binding = None
    for s_ in f["body"]["stmts"]:
        if s_["k"] == "let" and s_["init"] is not None and A.strip_expr(s_["init"]) is mt and s_["pat"]["k"] == "ident":
            msg_binding = s_["pat"]["name"]
    try:
        results = submsg_results(f, msg_binding)
    except CheckError as e:
        ctx.unrecognised(rule, [rel, "submsg-result"], f"{rel}:{f['ln']}", str(e))
        results = []
    if not results:
        ctx.unrecognised(rule, [rel, "submsg-result"], f"{rel}:{f['ln']}", "no SubMsg result found on the success path")
    for label, res, ln_ in results:
        for fn_ in fields:
            got = res.get(fn_, ("unset",))
            want = ("converted-msg",) if fn_ == "msg" else ("self", fn_)
            if got != want:
                ctx.violation(rule, [rel, "submsg", fn_, label], f"{rel}:{ln_}", f"{fn_} <- {'the converted message' if fn_ == 'msg' else 'self.' + fn_} on every path", f"{got} (path: {label})",
                              "id / payload / gas_limit / reply_on / msg of a bridged sub-message are preserved")
    ctx.extra["CosmosMsg_variants_parsed"] = [(v["name"], cfg_feature(v["attrs"])) for v in cosmos["variants"]]
    ctx.extra["SubMsg_fields_parsed"] = fields


SUBMSG_NEW_DEFAULTS = {"id": ("default",), "payload": ("default",), "gas_limit": ("none",), "reply_on": ("const", "ReplyOn::Never")}


def submsg_results(f, msg_binding):
    """[(label, {field: provenance}, line)] for every expression the function returns inside Ok(..)"""
    env = {}
    if msg_binding:
        env[msg_binding] = ("converted-msg",)
    stmts, tail = A.block_parts(f["body"])
    objs = {}      # local name -> field map (mutable builder style)
    for s_ in stmts:
        if s_["k"] == "let" and s_["init"] is not None and s_["pat"]["k"] == "ident":
            init = A.strip_expr(s_["init"])
            r = _submsg_expr(init, env)
            if r is not None and len(r) == 1:
                objs[s_["pat"]["name"]] = dict(r[0][1])
            elif s_["pat"]["name"] != msg_binding:
                env[s_["pat"]["name"]] = fprov(init, env)
            continue
        if s_["k"] == "expr":
            e = A.strip_expr(s_["expr"])
            if e["k"] == "assign":
                l = A.strip_expr(e["left"])
                if l["k"] == "field" and A.path_ids(l["base"]) and A.path_ids(l["base"])[0] in objs:
                    objs[A.path_ids(l["base"])[0]][l["member"]] = fprov(e["right"], env)
                    continue
        raise CheckError(f"unrecognised statement in into_msg (line {s_['ln']})")
    t = A.strip_expr(tail) if tail else None
    if not (t and t["k"] == "call" and A.last_seg(t["func"]) == "Ok" and len(t["args"]) == 1):
        raise CheckError("into_msg does not end with Ok(..)")
    inner = A.strip_expr(t["args"][0])
    ids = A.path_ids(inner)
    if ids and len(ids) == 1 and ids[0] in objs:
        return [("builder", objs[ids[0]], inner["ln"])]
    r = _submsg_expr(inner, env)
    if r is None:
        raise CheckError("into_msg: result expression not recognised")
    return r


def _submsg_expr(e, env):
    e = A.strip_expr(e)
    if e["k"] == "struct" and e["path"]["segs"][-1]["id"] == "SubMsg":
        res = {}
        for fl in e["fields"]:
            res[fl["member"]] = fprov(fl["expr"], env)
        if e.get("rest") is not None:
            base = fprov(e["rest"], env)
            if base == ("self",):
                res = _RestSelf(res)
        return [("literal", res, e["ln"])]
    if e["k"] == "call" and A.path_ids(e["func"]) and A.path_ids(e["func"])[-2:] == ["SubMsg", "new"] and len(e["args"]) == 1:
        res = dict(SUBMSG_NEW_DEFAULTS)
        res["msg"] = fprov(e["args"][0], env)
        return [("SubMsg::new", res, e["ln"])]
    if e["k"] == "match":
        out = []
        for arm in e["arms"]:
            env2 = dict(env)
            p = arm["pat"]
            if p["k"] == "ident":
                env2[p["name"]] = fprov(e["expr"], env)
            r = _submsg_expr(arm["body"], env2)
            if r is None:
                return None
            for label, res, ln_ in r:
                out.append((f"match arm `{_pat_s(p)}` -> {label}", res, ln_))
        return out
    return None


class _RestSelf(dict):
    """field map of a literal with `..self`: unset fields come from self"""
    def get(self, k, default=None):
        if k in self:
            return dict.get(self, k)
        return ("self", k)


def _pat_s(p):
    if p["k"] == "path":
        return "::".join(s["id"] for s in p["path"]["segs"][-2:])
    if p["k"] == "ident":
        return p["name"]
    return p["k"]


def _yields_err(e):
    """body evaluates to / returns Err(..) (possibly with `?`)"""
    e = A.strip_expr(e)
    if e["k"] == "try":
        e = A.strip_expr(e["expr"])
    if e["k"] == "return" and e["expr"] is not None:
        e = A.strip_expr(e["expr"])
    return e["k"] == "call" and A.last_seg(e["func"]) == "Err"


def _pattern_bindings(p):
    out = {"tuple": [], "named": {}}
    if p["k"] == "tuplestruct":
        for e in p["elems"]:
            out["tuple"].append(e.get("name") if e["k"] == "ident" else None)
    elif p["k"] == "struct":
        for fl in p["fields"]:
            out["named"][fl["member"]] = fl["pat"].get("name") if fl["pat"]["k"] == "ident" else None
    return out


# ------------------------------------------------------------------ R3

ORDER_PRESERVING = {"into_iter", "iter", "map", "collect", "cloned", "copied"}
SETTERS = {"add_submessages": "messages", "add_events": "events", "add_attributes": "attributes", "set_data": "data"}


def rule_r3(ctx, rule="R3.into_response"):
    rel = "sylvia/src/into_response.rs"
    ast = runtime_ast(rel)
    cands = find_impl_fn(ast, "IntoResponse", "into_response", "Response")
    if len(cands) != 1:
        ctx.violation(rule, ["anchor"], rel, "one impl IntoResponse for Response<Empty>", len(cands), "anchor missing")
        return
    imp, f = cands[0]
    resp = dep_item("cosmwasm-std", "src/results/response.rs", "struct", "Response")
    fields = [fl["name"] for fl in resp["fields"]]
    env = {}       # local -> ('self', field) | ('converted-messages',) | ('resp',)
    assigned = {}  # response field -> provenance
    stmts, tail = A.block_parts(f["body"])

    def prov(e):
        e = A.strip_expr(e)
        sf = self_field(e)
        if sf is not None:
            return ("self", sf)
        ids = A.path_ids(e)
        if ids and len(ids) == 1 and ids[0] in env:
            return env[ids[0]]
        return ("other", e["k"])

    def chain(e):
        """method chain as list of (method, args) from the innermost receiver outwards"""
        out = []
        e = A.strip_expr(e)
        while e["k"] == "mcall":
            out.append((e["method"], e["args"], e))
            e = A.strip_expr(e["recv"])
        out.reverse()
        return e, out

    resp_name = None
    for s in stmts:
        if s["k"] == "let" and s["init"] is not None and s["pat"]["k"] in ("ident", "typed"):
            name = s["pat"]["name"] if s["pat"]["k"] == "ident" else s["pat"]["pat"].get("name")
            init = A.strip_expr(s["init"])
            had_try = False
            if init["k"] == "try":
                had_try = True
                init = A.strip_expr(init["expr"])
            base, ch = chain(init)
            if self_field(base) == "messages":
                methods = [c[0] for c in ch]
                bad = [mname for mname in methods if mname not in ORDER_PRESERVING]
                ctx.inst(rule + ".messages-chain")
                if bad:
                    ctx.violation(rule, [rel, "messages", "order"], f"{rel}:{s['ln']}", f"order-preserving chain over self.messages ({sorted(ORDER_PRESERVING)})", methods,
                                  "sub-messages keep their order")
                maps = [c for c in ch if c[0] == "map"]
                okmap = False
                if len(maps) == 1:
                    cl = A.strip_expr(maps[0][1][0])
                    if cl["k"] == "closure" and len(cl["inputs"]) == 1:
                        b = A.strip_expr(cl["body"])
                        okmap = b["k"] == "mcall" and b["method"] == "into_msg" and A.path_ids(b["recv"]) == [cl["inputs"][0].get("name")]
                    elif cl["k"] == "path" and A.path_ids(cl)[-1] == "into_msg":
                        okmap = True
                if not okmap:
                    ctx.violation(rule, [rel, "messages", "element-map"], f"{rel}:{s['ln']}", "every element converted with into_msg", "other / none", "each sub-message is converted field by field")
                coll = [c for c in ch if c[0] == "collect"]
                is_result = False
                if coll:
                    tf = coll[-1][2].get("turbofish")
                    is_result = bool(tf) and A.type_str(tf[0]).split("<")[0].split("::")[-1] in ("StdResult", "Result")
                if not (coll and is_result and had_try):
                    ctx.violation(rule, [rel, "messages", "all-or-nothing"], f"{rel}:{s['ln']}", "collect::<Result<_,_>>()? (one failing element fails the whole conversion)",
                                  {"collect": bool(coll), "into_result": is_result, "try": had_try}, "no partial response")
                env[name] = ("converted-messages",)
                continue
            # let mut resp = Response::new().add_*(..)...
            if base["k"] == "call" and A.path_ids(base["func"]) and A.path_ids(base["func"])[-2:] == ["Response", "new"] and not base["args"]:
                resp_name = name
                env[name] = ("resp",)
                for mname, args, node in ch:
                    if mname not in SETTERS:
                        ctx.unrecognised(rule, [rel, "setter", mname], f"{rel}:{s['ln']}", f"unknown Response method {mname}")
                        continue
                    assigned[SETTERS[mname]] = prov(args[0]) if args else None
                continue
            ctx.unrecognised(rule, [rel, "let"], f"{rel}:{s['ln']}", "unrecognised let in into_response")
            continue
        if s["k"] == "expr":
            e = A.strip_expr(s["expr"])
            if e["k"] == "assign":
                l = A.strip_expr(e["left"])
                if l["k"] == "field" and A.path_ids(l["base"]) == [resp_name]:
                    assigned[l["member"]] = prov(e["right"])
                    continue
                if A.path_ids(l) == [resp_name]:
                    base, ch = chain(e["right"])
                    if A.path_ids(base) == [resp_name]:
                        for mname, args, node in ch:
                            if mname in SETTERS:
                                assigned[SETTERS[mname]] = prov(args[0]) if args else None
                        continue
            ctx.unrecognised(rule, [rel, "stmt"], f"{rel}:{s['ln']}", "unrecognised statement in into_response")
    t = A.strip_expr(tail) if tail else None
    if not (t and t["k"] == "call" and A.last_seg(t["func"]) == "Ok" and A.path_ids(A.strip_expr(t["args"][0])) == [resp_name]):
        ctx.unrecognised(rule, [rel, "tail"], f"{rel}:{f['ln']}", "tail is not Ok(resp)")
    for fl in fields:
        ctx.inst(rule, distinct=fl)
        want = ("converted-messages",) if fl == "messages" else ("self", fl)
        got = assigned.get(fl)
        if got != want:
            ctx.violation(rule, [rel, fl], f"{rel}:{f['ln']}", f"Response.{fl} <- {'converted self.messages' if fl == 'messages' else 'self.' + fl}", got,
                          "every field of the bridged response reaches the caller")
    ctx.extra["Response_fields_parsed"] = fields


# ------------------------------------------------------------------ R7 (Remote)

def const_string(e):
    """the literal a constant-string expression denotes ("x".to_owned(), String::from("x"), "x".into(), "x".to_string()), else None"""
    e = A.strip_expr(e)
    if e["k"] == "lit" and e.get("lk") == "str":
        return e["v"]
    if e["k"] == "mcall" and e["method"] in ("to_owned", "to_string", "into") and not e["args"]:
        return const_string(e["recv"])
    if e["k"] == "call" and len(e["args"]) == 1 and A.path_ids(e["func"]) and A.path_ids(e["func"])[-1] in ("from", "new"):
        return const_string(e["args"][0])
    return None


def rule_r7(ctx, sylvia_expanded, rule="R7.remote"):
    rel = "sylvia/src/types.rs"
    ast = runtime_ast(rel)
    st = [it for it in ast["items"] if it.get("k") == "struct" and it["name"] == "Remote"]
    if len(st) != 1:
        ctx.violation(rule, ["anchor"], rel, "struct Remote", len(st), "anchor missing")
        return
    st = st[0]
    where = f"{rel}:{st['ln']}"
    ctx.inst(rule + ".shape")
    cont = [A.compact(a["tokens"]) for a in st["attrs"] if a["path"] == "serde"]
    if cont:
        ctx.violation(rule, ["container-attrs"], where, "no serde container attribute (no rename / tag / bound / transparent)", cont, "Remote encodes as {\"addr\": ..}")
    live = []
    for f in st["fields"]:
        sattrs = [A.compact(a["tokens"]) for a in f["attrs"] if a["path"] == "serde"]
        if "skip" in sattrs:
            if sattrs != ["skip"]:
                ctx.violation(rule, [f["name"], "attrs"], where, "only #[serde(skip)] on the phantom", sattrs)
            continue
        live.append((f["name"], A.type_str(f["ty"]), sattrs))
    if [l[0] for l in live] != ["addr"]:
        ctx.violation(rule, ["fields"], where, "exactly one serialised field named `addr`", live, "the phantom must stay skipped; no further member")
    else:
        name, ty, sattrs = live[0]
        if sattrs:
            ctx.violation(rule, ["addr-attrs"], where, "no serde attribute on `addr` (no rename / flatten / with)", sattrs)
        if not (ty.split("<")[0].split("::")[-1] == "Cow" and ty.rstrip(">").split(",")[-1].split("::")[-1] == "Addr"):
            ctx.violation(rule, ["addr-type"], where, "Cow<'a, cosmwasm_std::Addr>", ty)
    # Contract bound: ?Sized only
    for p in st["generics"]["params"]:
        if p["k"] == "type":
            b = [x["s"] for x in p["bounds"] if not x.get("maybe")]
            if b:
                ctx.violation(rule, ["struct-bounds"], where, "no bound on the type parameter beyond ?Sized", b)
    # ---- hand-written JsonSchema
    js = [(i, f) for i, f in find_impl_fn(ast, "JsonSchema", "schema_name", "Remote")]
    ctx.inst(rule + ".schema_name")
    if len(js) != 1:
        ctx.violation(rule, ["schema-impl"], rel, "one manual JsonSchema impl for Remote", len(js))
    else:
        imp, fn = js[0]
        stmts, tail = A.block_parts(fn["body"])
        cs = const_string(tail) if tail is not None and not stmts else None
        mentions = A.find_all(fn["body"], lambda n: isinstance(n, dict) and n.get("k") == "path" and any(s["id"] in ("type_name", "Contract", "Self") for s in n["path"]["segs"]))
        macs = A.find_all(fn["body"], lambda n: isinstance(n, dict) and n.get("k") == "macro")
        if cs is None or mentions or macs:
            ctx.violation(rule, ["schema_name"], f"{rel}:{fn['ln']}", "a constant string independent of the type parameter", "computed" if cs is None else f"mentions {[m['s'] if 's' in m else '?' for m in mentions]}",
                          "schema name does not depend on the contract type")
        # every other identity the schema generator consults (schema_id decides whether two occurrences are ONE definition, and a
        # second id under a taken name is published as `Remote2`) must be independent of the type parameter as well
        for other in imp["items"]:
            if other.get("k") != "fn" or other["name"] in ("schema_name", "json_schema"):
                continue
            ctx.inst(rule + ".schema_identity", distinct=other["name"])
            dep = A.find_all(other["body"], lambda n: isinstance(n, dict) and n.get("k") == "path" and any(s["id"] in ("type_name", "Contract", "Self", "TypeId", "type_id") for s in n["path"]["segs"]))
            macs2 = A.find_all(other["body"], lambda n: isinstance(n, dict) and n.get("k") == "macro")
            if dep or macs2:
                ctx.violation(rule, ["schema-identity", other["name"]], f"{rel}:{other['ln']}", f"`{other['name']}` independent of the type parameter (a constant)",
                              "mentions the type parameter / builds a string" , "schema identity does not depend on the contract type")
        for p in imp["generics"]["params"]:
            if p["k"] == "type" and [x for x in p["bounds"] if not x.get("maybe")]:
                ctx.violation(rule, ["schema-bounds"], f"{rel}:{imp['ln']}", "no bound on Contract in the JsonSchema impl", [x["s"] for x in p["bounds"]])
        if imp["generics"]["where"]:
            ctx.violation(rule, ["schema-where"], f"{rel}:{imp['ln']}", "no where clause", [w["s"] for w in imp["generics"]["where"]])
        jf = next((x for x in imp["items"] if x.get("k") == "fn" and x["name"] == "json_schema"), None)
        if jf is not None:
            ins = A.find_all(jf["body"], lambda n: isinstance(n, dict) and n.get("x") and n.get("k") == "mcall" and n["method"] == "insert")
            props = [const_string(c["args"][0]) for c in ins if c["recv"].get("k") == "field" and c["recv"]["member"] == "properties"]
            req = [const_string(c["args"][0]) for c in ins if c["recv"].get("k") == "field" and c["recv"]["member"] == "required"]
            if props != ["addr"] or req != ["addr"]:
                ctx.violation(rule, ["json_schema"], f"{rel}:{jf['ln']}", "object schema with the single (required) property `addr`", {"properties": props, "required": req})
    # ---- constructors
    for imp in ast["items"]:
        if imp.get("k") == "impl" and imp.get("trait") is None and imp["self_ty"]["k"] == "path" and imp["self_ty"]["path"]["segs"][-1]["id"] == "Remote":
            for fn in imp["items"]:
                if fn.get("k") == "fn" and fn["name"] in ("new", "borrowed"):
                    ctx.inst(rule + ".ctor", distinct=fn["name"])
                    stmts, tail = A.block_parts(fn["body"])
                    t = A.strip_expr(tail) if tail else None
                    ok = False
                    if t and t["k"] == "struct" and not stmts:
                        fl = {x["member"]: A.strip_expr(x["expr"]) for x in t["fields"]}
                        a = fl.get("addr")
                        want = "Owned" if fn["name"] == "new" else "Borrowed"
                        if a is not None and a["k"] == "call" and A.path_ids(a["func"])[-2:] == ["Cow", want] and A.path_ids(A.strip_expr(a["args"][0])) == ["addr"]:
                            ok = True
                    if not ok:
                        ctx.violation(rule, [fn["name"]], f"{rel}:{fn['ln']}", f"addr: Cow::{'Owned' if fn['name'] == 'new' else 'Borrowed'}(addr)", "other", "handle points at the given address")
    # ---- derived impls in the expanded crate
    if sylvia_expanded is None:
        raise CheckError("no expansion of the sylvia crate available")
    types_mod = None
    for it in sylvia_expanded["items"]:
        if it.get("k") == "mod" and it["name"] == "types":
            types_mod = it["items"]
    if types_mod is None:
        raise CheckError("module `types` not found in expanded sylvia")
    ser = de = None
    for it in A.all_items_deep(types_mod):
        if it.get("k") == "impl" and it.get("trait") and it["self_ty"]["k"] == "path" and it["self_ty"]["path"]["segs"][-1]["id"] == "Remote":
            t = it["trait"]["path"]["segs"][-1]["id"]
            if t == "Serialize" and A.has_attr(it, "automatically_derived"):
                ser = it
            if t == "Deserialize" and A.has_attr(it, "automatically_derived"):
                de = it
    ctx.inst(rule + ".derived")
    if ser is None or de is None:
        ctx.violation(rule, ["derived"], rel, "derived Serialize and Deserialize for Remote", {"ser": ser is not None, "de": de is not None})
        return
    from . import gen as G
    fake = {"name": "Remote", "k": "struct"}
    sf = G._ser_facts(ser, fake)
    df = G._de_facts(de, fake)
    if sf["struct_fields"] != [("addr", "addr")]:
        ctx.violation(rule, ["ser-fields"], rel, [("addr", "addr")], sf["struct_fields"], "serialises exactly {addr}")
    if df["FIELDS"] != ["addr"]:
        ctx.violation(rule, ["de-fields"], rel, ["addr"], df["FIELDS"], "deserialises exactly {addr}")
    for imp, nm in ((ser, "Serialize"), (de, "Deserialize")):
        for p in imp["generics"]["params"]:
            if p["k"] == "type" and p["name"] == "Contract" and [x for x in p["bounds"] if not x.get("maybe")]:
                ctx.violation(rule, [nm, "param-bounds"], rel, "Contract: ?Sized only", [x["s"] for x in p["bounds"]], "encoding independent of the type parameter")
        for w in imp["generics"]["where"]:
            if w.get("k") == "type" and A.type_str(w["bounded"]).split("<")[0] in ("Contract", "PhantomData"):
                ctx.violation(rule, [nm, "where-bounds"], rel, "no where-predicate on Contract", w["s"], "encoding independent of the type parameter")
    # ---- Addr is a derive-serialised newtype over String (T2 then gives a JSON string)
    addr = dep_item("cosmwasm-std", "src/addresses.rs", "struct", "Addr")
    ctx.inst(rule + ".addr")
    ok = addr["style"] == "tuple" and len(addr["fields"]) == 1 and A.type_str(addr["fields"][0]["ty"]) == "String" \
        and not [a for a in addr["attrs"] if a["path"] == "serde"]
    der = " ".join(a["tokens"] for a in addr["attrs"] if a["path"] == "derive")
    if not ok or "Serialize" not in der or "Deserialize" not in der:
        ctx.violation(rule, ["addr-newtype"], "cosmwasm-std/src/addresses.rs", "pub struct Addr(String) with derived Serialize/Deserialize and no serde attribute", {"style": addr["style"], "derive": der})


# ------------------------------------------------------------------ R4 / R5 / R6: flow contracts over small runtime functions

IDENTITY_METHODS = {"clone", "to_owned", "to_string", "into", "as_ref", "to_vec", "as_str", "borrow", "as_slice", "deref", "into_owned", "cloned"}
IDENTITY_FUNCS = {("Addr", "unchecked"), ("String", "from"), ("Cow", "Owned"), ("Cow", "Borrowed"), ("Into", "into"), ("From", "from"), ("Binary", "from"), ("Binary", "new")}


def fprov(e, env):
    """field provenance term of an expression"""
    e = A.strip_expr(e)
    k = e["k"]
    if k == "path" and not e.get("qself"):
        ids = [s["id"] for s in e["path"]["segs"]]
        if len(ids) == 1:
            if ids[0] == "self":
                return ("self",)
            if ids[0] == "None":
                return ("none",)
            if ids[0] == "PhantomData":
                return ("phantom",)
            return env.get(ids[0], ("free", ids[0]))
        if ids[-1] == "PhantomData":
            return ("phantom",)
        return ("const", "::".join(ids[-2:]))
    if k == "field":
        b = fprov(e["base"], env)
        if b == ("self",):
            return ("self", e["member"])
        return ("field", b, e["member"])
    if k == "ref" or (k == "unary" and e["op"] == "*"):
        return fprov(e["expr"], env)
    if k == "mcall":
        if e["method"] in IDENTITY_METHODS and not e["args"]:
            return fprov(e["recv"], env)
        if e["method"] == "unwrap_or_default" and not e["args"]:
            return ("or-default", fprov(e["recv"], env))
        if e["method"] == "default" and not e["args"]:
            return ("default",)
        return ("mcall", e["method"], fprov(e["recv"], env), tuple(fprov(a, env) for a in e["args"]))
    if k == "call" and e["func"].get("k") == "path":
        ids = [s["id"] for s in e["func"]["path"]["segs"]]
        if ids[-1] == "Some" and len(e["args"]) == 1:
            return ("some", fprov(e["args"][0], env))
        if tuple(ids[-2:]) in IDENTITY_FUNCS and len(e["args"]) == 1:
            return fprov(e["args"][0], env)
        if ids[-1] in ("default",) and not e["args"]:
            return ("default",)
        if ids[-2:] == ["Vec", "new"] and not e["args"]:
            return ("empty",)
        if ids[-1] == "PhantomData" or (len(ids) >= 2 and ids[-2] == "PhantomData"):
            return ("phantom",)
        return ("call", "::".join(ids[-2:]), tuple(fprov(a, env) for a in e["args"]))
    if k == "macro" and e["path"].split("::")[-1] == "vec" and not e["tt"]:
        return ("empty",)
    if k == "array" and not e["elems"]:
        return ("empty",)
    if k == "lit":
        return ("lit", e.get("v"))
    if k == "struct":
        return ("struct", e["path"]["segs"][-1]["id"])
    return ("other", k)


def fn_env(fn):
    env = {}
    for i in fn["inputs"]:
        if i.get("recv"):
            continue
        if i["pat"]["k"] == "ident":
            env[i["pat"]["name"]] = ("param", i["pat"]["name"])
    return env


def analyse_result(fn):
    """Normal form of what a small function returns."""
    env = fn_env(fn)
    overlay = {}
    stmts, tail = A.block_parts(fn["body"])
    for s in stmts:
        if s["k"] == "let" and s["pat"]["k"] == "ident" and s["init"] is not None:
            env[s["pat"]["name"]] = fprov(s["init"], env)
            continue
        if s["k"] == "expr":
            e = A.strip_expr(s["expr"])
            if e["k"] == "assign":
                l = fprov(e["left"], env)
                if len(l) == 2 and l[0] == "self":
                    overlay[l[1]] = fprov(e["right"], env)
                    continue
        raise CheckError(f"unrecognised statement in {fn['name']} (line {s['ln']})")
    if tail is None:
        raise CheckError(f"{fn['name']}: no tail expression")
    t = A.strip_expr(tail)
    if t["k"] == "struct":
        fields = {fl["member"]: fprov(fl["expr"], env) for fl in t["fields"]}
        rest = fprov(t["rest"], env) if t.get("rest") is not None else None
        return {"kind": "struct", "name": t["path"]["segs"][-1]["id"], "fields": fields, "rest": rest}
    p = fprov(t, env)
    if p == ("self",):
        return {"kind": "self", "overlay": overlay}
    return {"kind": "value", "prov": p, "expr": t}


def find_inherent_fn(ast, type_last, fn_name, self_arg_contains=None):
    out = []
    for it in ast["items"]:
        if it.get("k") == "impl" and it.get("trait") is None and it["self_ty"]["k"] == "path" and it["self_ty"]["path"]["segs"][-1]["id"] == type_last:
            if self_arg_contains and self_arg_contains not in A.type_str(it["self_ty"]):
                continue
            for f in it["items"]:
                if f.get("k") == "fn" and f["name"] == fn_name:
                    out.append(f)
    return out


P = lambda n: ("param", n)
S = lambda n: ("self", n)

FLOW_CONTRACTS = [
    # (rule, file, type, fn, selector, expected)
    ("R4", "sylvia/src/types.rs", "ExecutorBuilder", "new", "EmptyExecutorBuilderState", {"struct": "Self", "fields": {"contract": P("contract"), "funds": ("empty",), "msg": ("default",), "_state": ("phantom",)}}),
    ("R4", "sylvia/src/types.rs", "ExecutorBuilder", "new", "ReadyExecutorBuilderState", {"struct": "Self", "fields": {"contract": P("contract"), "funds": P("funds"), "msg": P("msg"), "_state": ("phantom",)}}),
    ("R4", "sylvia/src/types.rs", "ExecutorBuilder", "with_funds", None, {"struct": "Self", "fields": {"funds": P("funds")}, "rest": ("self",)}),
    ("R4", "sylvia/src/types.rs", "ExecutorBuilder", "funds", None, {"value": S("funds")}),
    ("R4", "sylvia/src/types.rs", "ExecutorBuilder", "contract", None, {"value": S("contract")}),
    ("R4", "sylvia/src/types.rs", "ExecutorBuilder", "build", None, {"struct": "Execute", "fields": {"contract_addr": S("contract"), "msg": S("msg"), "funds": S("funds")}}),
    ("R4", "sylvia/src/types.rs", "Remote", "executor", None, {"value": ("call", "ExecutorBuilder::new", (S("addr"),))}),
    ("R4", "sylvia/src/types.rs", "Remote", "querier", None, {"struct": "BoundQuerier", "fields": {"contract": S("addr"), "querier": P("querier"), "_phantom": ("phantom",)}}),
    ("R4", "sylvia/src/types.rs", "Remote", "update_admin", None, {"struct": "UpdateAdmin", "fields": {"contract_addr": S("addr"), "admin": P("new_admin")}}),
    ("R4", "sylvia/src/types.rs", "Remote", "clear_admin", None, {"struct": "ClearAdmin", "fields": {"contract_addr": S("addr")}}),
    ("R4", "sylvia/src/types.rs", "BoundQuerier", "borrowed", None, {"struct": "Self", "fields": {"contract": P("contract"), "querier": P("querier"), "_phantom": ("phantom",)}}),
    ("R4", "sylvia/src/types.rs", "BoundQuerier", "querier", None, {"value": S("querier")}),
    ("R4", "sylvia/src/types.rs", "BoundQuerier", "contract", None, {"value": S("contract")}),
    ("R5", "sylvia/src/builder/instantiate.rs", "InstantiateBuilder", "new", None, {"struct": "Self", "fields": {"msg": P("msg"), "code_id": P("code_id"), "admin": ("none",), "label": ("none",), "funds": ("empty",)}}),
    ("R5", "sylvia/src/builder/instantiate.rs", "InstantiateBuilder", "with_label", None, {"self": {"label": ("some", P("label"))}}),
    ("R5", "sylvia/src/builder/instantiate.rs", "InstantiateBuilder", "with_admin", None, {"self": {"admin": ("some", P("admin"))}}),
    ("R5", "sylvia/src/builder/instantiate.rs", "InstantiateBuilder", "with_funds", None, {"self": {"funds": P("funds")}}),
    ("R5", "sylvia/src/builder/instantiate.rs", "InstantiateBuilder", "build", None, {"struct": "Instantiate", "fields": {"code_id": S("code_id"), "msg": S("msg"), "admin": S("admin"), "label": ("or-default", S("label")), "funds": S("funds")}}),
    ("R5", "sylvia/src/builder/instantiate.rs", "InstantiateBuilder", "build2", None, {"struct": "Instantiate2", "fields": {"code_id": S("code_id"), "msg": S("msg"), "admin": S("admin"), "label": ("or-default", S("label")), "funds": S("funds"), "salt": P("salt")}}),
    ("R6", "sylvia/src/multitest.rs", "ExecProxy", "new", None, {"struct": "ExecProxy", "fields": {"funds": ("empty",), "contract_addr": P("contract_addr"), "msg": P("msg"), "app": P("app"), "phantom": ("phantom",)}}),
    ("R6", "sylvia/src/multitest.rs", "ExecProxy", "with_funds", None, {"struct": "Self", "fields": {"funds": P("funds")}, "rest": ("self",)}),
    ("R6", "sylvia/src/multitest.rs", "MigrateProxy", "new", None, {"struct": "Self", "fields": {"contract_addr": P("contract_addr"), "msg": P("msg"), "app": P("app"), "phantom": ("phantom",)}}),
    ("R6", "sylvia/src/multitest.rs", "Proxy", "new", None, {"struct": "Proxy", "fields": {"contract_addr": P("contract_addr"), "app": P("app"), "_phantom": ("phantom",)}}),
]


def rule_flow_contracts(ctx, which):
    for rule, rel, ty, fn_name, selector, exp in FLOW_CONTRACTS:
        if rule not in which:
            continue
        ast = runtime_ast(rel)
        fns = find_inherent_fn(ast, ty, fn_name, selector)
        key = [rel, ty, fn_name] + ([selector] if selector else [])
        rid = f"{rule}.{ty}.{fn_name}"
        ctx.inst(rule + ".flow", distinct=tuple(key))
        if len(fns) != 1:
            ctx.violation(rule + ".flow", key + ["anchor"], rel, f"one fn {ty}::{fn_name}", len(fns), "anchor missing: the function the property relies on is gone or duplicated")
            continue
        f = fns[0]
        where = f"{rel}:{f['ln']} {ty}::{fn_name}"
        try:
            nf = analyse_result(f)
        except CheckError as e:
            ctx.unrecognised(rule + ".flow", key, where, str(e))
            continue
        if "value" in exp:
            if nf["kind"] != "value" or nf["prov"] != exp["value"]:
                ctx.violation(rule + ".flow", key + ["value"], where, exp["value"], nf.get("prov", nf["kind"]), "runtime helper forwards the stored value")
            continue
        if "self" in exp:
            if nf["kind"] != "self" or nf["overlay"] != exp["self"]:
                ctx.violation(rule + ".flow", key + ["setter"], where, f"self with only {exp['self']} replaced", nf.get("overlay", nf["kind"]), "a setter replaces exactly one field")
            continue
        if nf["kind"] != "struct" or nf["name"] not in (exp["struct"], ty if exp["struct"] == "Self" else exp["struct"], "Self" if exp["struct"] == ty else exp["struct"]):
            ctx.violation(rule + ".flow", key + ["shape"], where, f"builds {exp['struct']}", nf.get("name", nf["kind"]), "")
            continue
        if exp.get("rest") != nf.get("rest"):
            ctx.violation(rule + ".flow", key + ["rest"], where, exp.get("rest"), nf.get("rest"), "remaining fields come from self")
        if nf["fields"] != exp["fields"]:
            diff = {k: (exp["fields"].get(k), nf["fields"].get(k)) for k in set(exp["fields"]) | set(nf["fields"]) if exp["fields"].get(k) != nf["fields"].get(k)}
            ctx.violation(rule + ".flow", key + ["fields"] + sorted(diff), where, {k: v[0] for k, v in diff.items()}, {k: v[1] for k, v in diff.items()},
                          "each field of the built message comes from the builder field of the same meaning")


def rule_r6_calls(ctx, rule="R6.call"):
    """ExecProxy::call / MigrateProxy::call hand the stored values to the chain operation; error mapping tries the contract error first."""
    rel = "sylvia/src/multitest.rs"
    ast = runtime_ast(rel)
    specs = [("ExecProxy", "execute_contract", [P("sender"), S("contract_addr"), S("msg"), S("funds")]),
             ("MigrateProxy", "migrate_contract", [P("sender"), S("contract_addr"), S("msg"), P("new_code_id")])]
    for ty, op, want in specs:
        fns = find_inherent_fn(ast, ty, "call")
        ctx.inst(rule, distinct=ty)
        if len(fns) != 1:
            ctx.violation(rule, [rel, ty, "anchor"], rel, f"one fn {ty}::call", len(fns), "anchor missing")
            continue
        f = fns[0]
        env = fn_env(f)
        calls = A.find_all(f["body"], lambda n: isinstance(n, dict) and n.get("x") and n.get("k") == "mcall" and n["method"].endswith("_contract"))
        if len(calls) != 1 or calls[0]["method"] != op:
            ctx.violation(rule, [rel, ty, "operation"], f"{rel}:{f['ln']}", f"exactly one call of {op}", [c["method"] for c in calls], "proxy performs the corresponding chain operation once")
            continue
        got = [fprov(a, env) for a in calls[0]["args"]]
        if got != want:
            ctx.violation(rule, [rel, ty, "args"], f"{rel}:{calls[0]['ln']}", want, got, "sender, contract address, message and funds / code id are the stored ones")
        # app: (*self.app).app_mut()
        r = A.strip_expr(calls[0]["recv"])
        okapp = r["k"] == "mcall" and r["method"] == "app_mut" and fprov(r["recv"], env) == S("app")
        if not okapp:
            ctx.violation(rule, [rel, ty, "app"], f"{rel}:{calls[0]['ln']}", "operation performed on self.app", "other", "")
        # error mapping: a downcast to the contract error type happens (first)
        downs = A.find_all(f["body"], lambda n: isinstance(n, dict) and n.get("x") and n.get("k") == "mcall" and n["method"] in ("downcast", "is"))
        first_t = None
        for d in downs:
            if d.get("turbofish"):
                first_t = A.type_str(d["turbofish"][0])
                break
        if not downs or (first_t not in (None, "Error")):
            ctx.violation(rule, [rel, ty, "error-downcast"], f"{rel}:{f['ln']}", "error downcast to the contract error type attempted first", first_t, "a handler error surfaces as the contract's error type")
