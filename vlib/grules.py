"""E-G: rules over the generator's own source (sylvia-derive/src): closed keyword / name tables,
quote! template tokens, sources of nondeterminism."""
import os
import re

from . import ast as A
from . import util
from .util import CheckError

KEYWORDS = {"exec": "Exec", "query": "Query", "instantiate": "Instantiate", "migrate": "Migrate", "reply": "Reply", "sudo": "Sudo"}
VARIANTS = set(KEYWORDS.values())

_cache = {}


def derive_files():
    root = os.path.join(util.REPO, "sylvia-derive", "src")
    return util.walk_files(root, exts={".rs"})


def derive_asts():
    if "asts" not in _cache:
        out = {}
        for f in derive_files():
            ast = util.syn_ast(f)
            prune_cfg_test(ast["items"])
            out[os.path.relpath(f, util.REPO)] = ast
        _cache["asts"] = out
    return _cache["asts"]


def prune_cfg_test(items):
    """drop `#[cfg(test)]` items: they are not part of the macro crate as users compile it"""
    keep = []
    for it in items:
        if any(a["path"] == "cfg" and A.compact(a["tokens"]) == "test" for a in it.get("attrs", [])):
            continue
        if it.get("k") == "mod" and it.get("items") is not None:
            prune_cfg_test(it["items"])
        if it.get("k") == "impl":
            it["items"] = [x for x in it["items"] if not any(a["path"] == "cfg" and A.compact(a["tokens"]) == "test" for a in x.get("attrs", []))]
        keep.append(it)
    items[:] = keep


def all_fns(ast):
    """(qualified name, fn node) for every fn in a file AST (free, impl, trait, nested mods)."""
    out = []

    def go(items, prefix):
        for it in items:
            k = it.get("k")
            if k == "fn":
                out.append((prefix + it["name"], it))
            elif k == "impl":
                ty = A.type_str(it["self_ty"])
                tr = (it["trait"]["path"]["segs"][-1]["id"] + " for ") if it.get("trait") else ""
                for sub in it["items"]:
                    if sub.get("k") == "fn":
                        out.append((f"{prefix}<{tr}{ty}>::{sub['name']}", sub))
            elif k == "trait":
                for sub in it["items"]:
                    if sub.get("k") == "fn" and sub.get("body"):
                        out.append((f"{prefix}{it['name']}::{sub['name']}", sub))
            elif k == "mod" and it.get("items") is not None:
                go(it["items"], prefix + it["name"] + "::")
    go(ast["items"], "")
    return out


def msgtype_variants_in(e):
    found = []
    for n in A.find_all(e, lambda n: isinstance(n, dict) and n.get("k") == "path" and (n.get("x") or n.get("p"))):
        segs = [s["id"] for s in n["path"]["segs"]]
        if len(segs) >= 2 and segs[-1] in VARIANTS and segs[-2] in ("MsgType", "Self"):
            found.append(segs[-1])
        elif len(segs) == 1 and segs[0] in VARIANTS:
            found.append(segs[0])
    return found


def rule_g4(ctx, rule="G4.keyword-table"):
    """Every string match over the kind keywords maps each keyword to the MsgType variant of the same name."""
    n_tables = 0
    for rel, ast in derive_asts().items():
        for qn, fn in all_fns(ast):
            for m in A.find_all(fn["body"], lambda n: isinstance(n, dict) and n.get("x") and n.get("k") == "match"):
                kw_arms = []
                for arm in m["arms"]:
                    p = arm["pat"]
                    if p["k"] == "lit":
                        lit = p["s"].strip().strip('"')
                        if lit in KEYWORDS:
                            kw_arms.append((lit, arm))
                if len(kw_arms) < 3:
                    continue
                vs_all = [msgtype_variants_in(arm["body"]) for _, arm in kw_arms]
                if sum(1 for v in vs_all if v) < 3:
                    continue
                n_tables += 1
                for (kw, arm), vs in zip(kw_arms, vs_all):
                    ctx.inst(rule, distinct=(rel, qn, kw))
                    if len(set(vs)) != 1 or vs[0] != KEYWORDS[kw]:
                        ctx.violation(rule, [rel, qn, kw], f"{rel}:{arm['ln']} fn {qn}", f'"{kw}" => MsgType::{KEYWORDS[kw]}',
                                      f'"{kw}" => {sorted(set(vs))}',
                                      "a keyword table of the generator maps a documented kind keyword to another kind")
                missing = set(KEYWORDS) - set(k for k, _ in kw_arms)
                if missing:
                    ctx.violation(rule, [rel, qn, "missing-keywords"], f"{rel}:{m['ln']} fn {qn}", sorted(KEYWORDS), sorted(k for k, _ in kw_arms),
                                  "a keyword table of the generator does not know every documented kind")
    ctx.inst(rule + ".tables", n_tables)
    return n_tables


EXPECTED_NAME_TABLES = {
    "emit_ep_name": {"Exec": "execute", "Instantiate": "instantiate", "Migrate": "migrate", "Sudo": "sudo", "Reply": "reply", "Query": "query"},
    "emit_msg_name": {"Exec": "ExecMsg", "Query": "QueryMsg", "Instantiate": "InstantiateMsg", "Migrate": "MigrateMsg", "Reply": "ReplyMsg", "Sudo": "SudoMsg"},
    "as_accessor_name": {"Instantiate": "Instantiate", "Exec": "Exec", "Query": "Query", "Migrate": "Migrate", "Sudo": "Sudo", "Reply": "Reply"},
}
EXPECTED_PARTIAL = {
    "emit_msg_wrapper_name": {"Exec": "ContractExecMsg", "Query": "ContractQueryMsg", "Sudo": "ContractSudoMsg"},
    "as_accessor_wrapper_name": {"Exec": "ContractExec", "Query": "ContractQuery", "Sudo": "ContractSudo"},
}


def rule_g5(ctx, rule="G5.name-table"):
    """Every `match self` over MsgType returning an identifier literal is total, injective and agrees with the documented names."""
    seen = set()
    for rel, ast in derive_asts().items():
        for qn, fn in all_fns(ast):
            short = qn.split("::")[-1]
            if "MsgType" not in qn:
                continue
            for m in A.find_all(fn["body"], lambda n: isinstance(n, dict) and n.get("x") and n.get("k") == "match"):
                if A.path_ids(A.strip_expr(m["expr"])) != ["self"]:
                    continue
                table = {}
                fallthrough = None
                ok = True
                for arm in m["arms"]:
                    pats = arm["pat"]["cases"] if arm["pat"]["k"] == "or" else [arm["pat"]]
                    body = A.strip_expr(arm["body"])
                    val = None
                    if body["k"] == "macro" and body["path"].split("::")[-1] in ("parse_quote", "quote"):
                        toks = A.tt_tokens(body["tt"])
                        if len(toks) == 1:
                            val = toks[0]
                    elif body["k"] == "mcall" and A.path_ids(body["recv"]) == ["self"]:
                        fallthrough = body["method"]
                        val = ("call", body["method"])
                    if val is None:
                        ok = False
                        break
                    for p in pats:
                        if p["k"] == "path":
                            v = p["path"]["segs"][-1]["id"]
                            if v in VARIANTS:
                                table[v] = val
                        elif p["k"] == "wild":
                            for v in VARIANTS:
                                table.setdefault(v, val)
                        else:
                            ok = False
                if not ok or not table:
                    continue
                # classify the table by its content (not by the function's name): it *is* the
                # documented table T when >= 3 of its entries equal T's; then it must equal T everywhere.
                resolved = {}
                for k, v in table.items():
                    if isinstance(v, tuple):
                        base_tbl = None
                        for bn, bt in EXPECTED_NAME_TABLES.items():
                            if bn == v[1]:
                                base_tbl = bt
                        resolved[k] = base_tbl[k] if base_tbl else v
                    else:
                        resolved[k] = v
                full = {}
                for nm, t in EXPECTED_NAME_TABLES.items():
                    full[nm] = dict(t)
                for nm, part in EXPECTED_PARTIAL.items():
                    base = {"emit_msg_wrapper_name": "emit_msg_name", "as_accessor_wrapper_name": "as_accessor_name"}[nm]
                    t = dict(EXPECTED_NAME_TABLES[base])
                    t.update(part)
                    full[nm] = t
                best = None
                for nm, t in full.items():
                    agree = sum(1 for k, v in resolved.items() if t.get(k) == v)
                    if agree >= 3 and (best is None or agree > best[1]):
                        best = (nm, agree)
                ctx.inst(rule, distinct=(rel, qn))
                lits = [v for v in resolved.values() if isinstance(v, str)]
                if best is None:
                    if len(set(lits)) != len(lits):
                        ctx.violation(rule, [rel, qn, "injective"], f"{rel}:{m['ln']} fn {qn}", "distinct identifiers per kind", resolved,
                                      "a name table of the generator merges two kinds")
                    continue
                seen.add(best[0])
                exp = full[best[0]]
                if set(table) != VARIANTS:
                    ctx.violation(rule, [rel, qn, "total"], f"{rel}:{m['ln']} fn {qn}", sorted(VARIANTS), sorted(table), "name table is not total")
                if resolved != exp:
                    ctx.violation(rule, [rel, qn, "values"], f"{rel}:{m['ln']} fn {qn}", exp, resolved,
                                  "a name table of the generator deviates from the documented names (kinds may be merged)")
    missing = (set(EXPECTED_NAME_TABLES) | set(EXPECTED_PARTIAL)) - seen
    if missing:
        # not a violation: a refactor may legitimately reorganise these tables; the X-rules still see every emitted name
        ctx.note(f"G5: documented name tables not recognised in the generator source: {sorted(missing)}")
    ctx.extra["G5_tables_recognised"] = sorted(seen)


# ------------------------------------------------------------------ templates (G1, G2)

TEMPLATE_MACROS = {"quote", "parse_quote", "quote_spanned", "parse_quote_spanned"}
FRAMEWORK_CRATES = {"sylvia", "cosmwasm_std", "cosmwasm_schema", "schemars", "serde", "serde_json_wasm", "serde_cw_value", "cw_multi_test",
                    "cw_utils", "anyhow", "cw_std", "cw_schema", "serde_value", "serde_json", "konst", "sylvia_derive"}


def templates():
    """[(relfile, fn qualified name, macro name, token tree, line)] for every template in the generator"""
    if "templates" in _cache:
        return _cache["templates"]
    out = []
    for rel, ast in derive_asts().items():
        for qn, fn in all_fns(ast):
            for n in A.find_all(fn, lambda n: isinstance(n, dict) and n.get("k") == "macro" and n.get("path", "").split("::")[-1] in TEMPLATE_MACROS):
                out.append((rel, qn, n["path"].split("::")[-1], n["tt"], n["ln"]))
    _cache["templates"] = out
    return out


def flat_tokens(tt):
    """linear token list with group delimiters as tokens; each: dict(s, t, ln, j)"""
    out = []
    for t in tt:
        if t["t"] == "group":
            close = {"(": ")", "[": "]", "{": "}", "": ""}[t["d"]]
            if t["d"]:
                out.append({"s": t["d"], "t": "open", "ln": t["ln"]})
            out.extend(flat_tokens(t["c"]))
            if close:
                out.append({"s": close, "t": "close", "ln": t["ln"]})
        else:
            out.append(t)
    return out


def is_colon2(toks, i):
    return i + 1 < len(toks) and toks[i]["t"] == "punct" and toks[i]["s"] == ":" and toks[i + 1]["t"] == "punct" and toks[i + 1]["s"] == ":" and toks[i].get("j")


def rule_g1(ctx, rule="G1.literal-crate-path"):
    n = 0
    for rel, qn, mac, tt, ln in templates():
        toks = flat_tokens(tt)
        n += 1
        ctx.inst(rule)
        for i, t in enumerate(toks):
            if t["t"] == "ident" and t["s"] in FRAMEWORK_CRATES and is_colon2(toks, i + 1):
                # a later segment of a longer path?  prev two tokens are `::` and before them an ident / interpolation / `>`
                later = False
                if i >= 2 and is_colon2(toks, i - 2):
                    if i >= 3 and (toks[i - 3]["t"] == "ident" or toks[i - 3]["s"] in (">", ")")):
                        later = True
                if later:
                    continue
                # directly interpolated prefix `# sylvia :: cw_std` has the ident `sylvia` preceded by '#': that is an interpolation, not a literal
                if i >= 1 and toks[i - 1]["t"] == "punct" and toks[i - 1]["s"] == "#":
                    continue
                ctx.violation(rule, [rel, qn, t["s"], _ctx_snippet(toks, i)], f"{rel}:{t['ln']} fn {qn}", "framework paths only through the interpolated crate name (#sylvia ::...)",
                              f"literal `{_ctx_snippet(toks, i)}` in a {mac}! template",
                              "generated code names the framework through a literal crate path: a renamed dependency does not compile")
            if t["t"] == "lit" and t["s"].startswith('"'):
                s = t["s"].replace(" ", "")
                for c in ("sylvia::", "cosmwasm_std::", "cosmwasm_schema::"):
                    if c in s and "crate=" not in s:
                        ctx.violation(rule, [rel, qn, "string", c], f"{rel}:{t['ln']} fn {qn}", "no literal crate path inside emitted string literals", t["s"][:80],
                                      "a derive helper `crate = \"..\"` (or similar) value is spelled literally")
    return n


def _ctx_snippet(toks, i):
    return "".join(x["s"] for x in toks[i:i + 6])


def generics_lists(tt):
    """yield (kind, [param token slices]) for `impl<..>`, `fn name<..>`, `trait Name<..>` ... at every nesting level of a token tree.
    Groups are kept as single tokens inside a slice."""
    toks = tt
    n = len(toks)
    i = 0
    while i < n:
        t = toks[i]
        if t["t"] == "group":
            yield from generics_lists(t["c"])
            i += 1
            continue
        start = None
        kind = None
        if t["t"] == "ident" and t["s"] == "impl" and i + 1 < n and toks[i + 1].get("s") == "<":
            start, kind = i + 1, "impl"
        elif t["t"] == "ident" and t["s"] in ("fn", "trait", "struct", "enum", "type"):
            # name: ident | # ident
            j = i + 1
            if j < n and toks[j].get("s") == "#":
                j += 1
            if j < n and toks[j]["t"] == "ident" and j + 1 < n and toks[j + 1].get("s") == "<":
                start, kind = j + 1, t["s"]
        if start is not None:
            depth = 0
            j = start
            params = []
            cur = []
            while j < n:
                tok = toks[j]
                s = tok.get("s")
                if tok["t"] == "punct" and s == "<":
                    depth += 1
                    if depth == 1:
                        j += 1
                        continue
                elif tok["t"] == "punct" and s == ">" and not (j > 0 and toks[j - 1].get("s") == "-"):
                    depth -= 1
                    if depth == 0:
                        if cur:
                            params.append(cur)
                        break
                elif depth == 1 and tok["t"] == "punct" and s == ",":
                    params.append(cur)
                    cur = []
                    j += 1
                    continue
                cur.append(tok)
                j += 1
            yield kind, params
            i = start + 1
            continue
        i += 1


def strip_interpolations(p):
    """drop leading `#name` / `#( .. )*` / `#( .. ),*` interpolations of a parameter slice; returns (rest, had_interpolation)"""
    had = False
    while p:
        if p[0].get("s") == "#" and len(p) >= 2 and p[1]["t"] == "ident":
            p = p[2:]
            had = True
        elif p[0].get("s") == "#" and len(p) >= 2 and p[1]["t"] == "group":
            k = 2
            while k < len(p) and p[k]["t"] == "punct" and p[k]["s"] != "*":
                k += 1
            p = p[k + 1:] if k < len(p) else []
            had = True
        else:
            break
    return p, had


def rule_g2(ctx, rule="G2.helper-generic-names"):
    """No literally spelled single-upper-case-letter type parameter in a template whose scope contains user generics."""
    n = 0
    for rel, qn, mac, tt, ln in templates():
        lists = list(generics_lists(tt))
        if not lists:
            continue
        # user generics are in scope of this template when any generics list of it interpolates something
        interp_any = False
        for kind, params in lists:
            for p in params:
                if strip_interpolations(p)[1] or any(tok.get("s") == "#" for tok in p):
                    interp_any = True
        for kind, params in lists:
            n += 1
            ctx.inst(rule)
            for p in params:
                rest, _ = strip_interpolations(p)
                if not rest:
                    continue
                first = rest[0]
                if first["t"] == "ident" and len(first["s"]) == 1 and first["s"].isupper() and interp_any:
                    ctx.violation(rule, [rel, qn, kind, first["s"]], f"{rel}:{first['ln']} fn {qn}",
                                  "helper type parameters with names a user would not pick (e.g. `SvQuerierC`)", f"`{kind}<.. {first['s']} ..>` next to interpolated user generics",
                                  "a helper type parameter named by a single letter collides with a user's generic of the same name (E0403)")
    return n


# ------------------------------------------------------------------ G3 determinism

BANNED_SEGMENTS = {"HashMap", "HashSet", "RandomState", "SystemTime", "Instant", "thread_rng", "OsRng", "DefaultHasher", "temp_dir", "current_dir"}
BANNED_PREFIXES = [("std", "time"), ("std", "env"), ("std", "fs"), ("std", "process"), ("std", "thread"), ("std", "net"), ("std", "io"),
                   ("std", "collections", "hash_map"), ("std", "collections", "hash_set"), ("rand",), ("getrandom",), ("fastrand",)]
REVIEWED_DEPS = {
    "syn": "parser; pure function of its token input",
    "quote": "token construction; pure",
    "proc-macro2": "token types; pure",
    "convert_case": "string casing; pure (no maps with random state in the public path used)",
    "proc-macro-error": "diagnostic collection in a thread-local Vec, emitted in insertion order",
    "proc-macro-crate": "reads the user's Cargo.toml (the documented second input of the expansion)",
    "itertools": "iterator adaptors; pure",
}


def rule_g3(ctx, rule="G3.determinism"):
    import tomllib
    with open(os.path.join(util.REPO, "sylvia-derive", "Cargo.toml"), "rb") as f:
        man = tomllib.load(f)
    deps = set(man.get("dependencies", {}))
    ctx.inst(rule + ".deps", len(deps))
    for d in sorted(deps - set(REVIEWED_DEPS)):
        ctx.violation(rule, ["dependency", d], "sylvia-derive/Cargo.toml", f"dependencies reviewed for determinism: {sorted(REVIEWED_DEPS)}", d,
                      "a dependency of the macro crate that was not reviewed for run-to-run variation")
    n = 0
    for rel, ast in derive_asts().items():
        def visit(node):
            nonlocal n
            if not isinstance(node, dict):
                return
            if node.get("k") == "path" and "path" in node:
                segs = [s["id"] for s in node["path"]["segs"]]
                _check_path(ctx, rule, rel, segs, node.get("ln"))
                n += 1
            if node.get("k") == "use":
                s = node["s"].replace(" ", "")
                for pre in BANNED_PREFIXES:
                    if s.startswith("::".join(pre) + "::") or s == "::".join(pre) or ("{" in s and s.startswith(pre[0] + "::") and any(("::".join(pre[1:]) in part) for part in [s]) and len(pre) > 1 and ("::".join(pre) in s or (pre[0] + "::{" in s and pre[1] + "::" in s))):
                        ctx.violation(rule, [rel, "use", "::".join(pre)], f"{rel}:{node['ln']}", "no import of a source of run-to-run variation", node["s"], "expansion must be a function of its input")
                for b in BANNED_SEGMENTS:
                    if re.search(r"\b" + b + r"\b", s):
                        ctx.violation(rule, [rel, "use", b], f"{rel}:{node['ln']}", "no import of a source of run-to-run variation", node["s"], "expansion must be a function of its input")
                n += 1
            if node.get("k") == "static":
                ts = A.type_str(node["ty"])
                if node.get("mut") or re.search(r"\b(Cell|RefCell|Mutex|RwLock|Atomic\w*|OnceCell|OnceLock|Lazy|LazyLock)\b", ts):
                    ctx.violation(rule, [rel, "static", node["name"]], f"{rel}:{node['ln']}", "no mutable / interior-mutable static in the macro crate", ts, "state surviving between expansions")
                n += 1
            if node.get("k") == "macro" and node.get("path", "").split("::")[-1] in ("thread_local", "lazy_static", "env", "option_env", "include_str", "include_bytes", "file", "line", "column"):
                ctx.violation(rule, [rel, "macro", node["path"]], f"{rel}:{node['ln']}", "no environment / location / global-state macro", node["path"], "expansion must be a function of its input")
            if node.get("k") == "cast" and node.get("x"):
                t = A.type_str(node["ty"])
                inner = A.strip_expr(node["expr"])
                if t in ("usize", "u64", "isize") and inner.get("k") == "cast" and A.type_str(inner["ty"]).startswith("*"):
                    ctx.violation(rule, [rel, "ptr-cast"], f"{rel}:{node['ln']}", "no pointer-to-integer cast", t, "addresses vary between runs")
            if node.get("k") == "lit" and node.get("lk") == "str" and "{:p}" in node.get("v", ""):
                ctx.violation(rule, [rel, "ptr-format"], f"{rel}:{node['ln']}", "no {:p} formatting", node["v"], "addresses vary between runs")
        A.walk(ast, lambda nd: visit(nd))
    ctx.inst(rule, n)
    return n


def _check_path(ctx, rule, rel, segs, ln):
    for b in BANNED_SEGMENTS:
        if b in segs:
            ctx.violation(rule, [rel, "path", b], f"{rel}:{ln}", "no use of a source of run-to-run variation", "::".join(segs), "expansion must be a function of its input")
    for pre in BANNED_PREFIXES:
        if tuple(segs[:len(pre)]) == pre and len(segs) > len(pre) - (1 if len(pre) == 1 else 0):
            if pre == ("std", "io"):
                continue
            ctx.violation(rule, [rel, "path", "::".join(pre)], f"{rel}:{ln}", "no use of a source of run-to-run variation", "::".join(segs), "expansion must be a function of its input")
