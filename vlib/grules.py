"""E-G: rules over the generator's own source (sylvia-derive/src): closed keyword / name tables,
quote! template tokens, sources of nondeterminism."""
import os
import re

from . import ast as A
from . import util
from .util import CheckError

KEYWORDS = {"exec": "Exec", "query": "Query", "instantiate": "Instantiate", "migrate": "Migrate", "reply": "Reply", "sudo": "Sudo"}
VARIANTS = set(KEYWORDS.values())

_cache = {}


def derive_files():
    root = os.path.join(util.REPO, "sylvia-derive", "src")
    return util.walk_files(root, exts={".rs"})


def derive_asts():
    if "asts" not in _cache:
        out = {}
        for f in derive_files():
            out[os.path.relpath(f, util.REPO)] = util.syn_ast(f)
        _cache["asts"] = out
    return _cache["asts"]


def all_fns(ast):
    """(qualified name, fn node) for every fn in a file AST (free, impl, trait, nested mods)."""
    out = []

    def go(items, prefix):
        for it in items:
            k = it.get("k")
            if k == "fn":
                out.append((prefix + it["name"], it))
            elif k == "impl":
                ty = A.type_str(it["self_ty"])
                tr = (it["trait"]["path"]["segs"][-1]["id"] + " for ") if it.get("trait") else ""
                for sub in it["items"]:
                    if sub.get("k") == "fn":
                        out.append((f"{prefix}<{tr}{ty}>::{sub['name']}", sub))
            elif k == "trait":
                for sub in it["items"]:
                    if sub.get("k") == "fn" and sub.get("body"):
                        out.append((f"{prefix}{it['name']}::{sub['name']}", sub))
            elif k == "mod" and it.get("items") is not None:
                go(it["items"], prefix + it["name"] + "::")
    go(ast["items"], "")
    return out


def msgtype_variants_in(e):
    found = []
    for n in A.find_all(e, lambda n: isinstance(n, dict) and n.get("k") == "path" and (n.get("x") or n.get("p"))):
        segs = [s["id"] for s in n["path"]["segs"]]
        if len(segs) >= 2 and segs[-1] in VARIANTS and segs[-2] in ("MsgType", "Self"):
            found.append(segs[-1])
        elif len(segs) == 1 and segs[0] in VARIANTS:
            found.append(segs[0])
    return found


def rule_g4(ctx, rule="G4.keyword-table"):
    """Every string match over the kind keywords maps each keyword to the MsgType variant of the same name."""
    n_tables = 0
    for rel, ast in derive_asts().items():
        for qn, fn in all_fns(ast):
            for m in A.find_all(fn["body"], lambda n: isinstance(n, dict) and n.get("x") and n.get("k") == "match"):
                kw_arms = []
                for arm in m["arms"]:
                    p = arm["pat"]
                    if p["k"] == "lit":
                        lit = p["s"].strip().strip('"')
                        if lit in KEYWORDS:
                            kw_arms.append((lit, arm))
                if len(kw_arms) < 3:
                    continue
                vs_all = [msgtype_variants_in(arm["body"]) for _, arm in kw_arms]
                if sum(1 for v in vs_all if v) < 3:
                    continue
                n_tables += 1
                for (kw, arm), vs in zip(kw_arms, vs_all):
                    ctx.inst(rule, distinct=(rel, qn, kw))
                    if len(set(vs)) != 1 or vs[0] != KEYWORDS[kw]:
                        ctx.violation(rule, [rel, qn, kw], f"{rel}:{arm['ln']} fn {qn}", f'"{kw}" => MsgType::{KEYWORDS[kw]}',
                                      f'"{kw}" => {sorted(set(vs))}',
                                      "a keyword table of the generator maps a documented kind keyword to another kind")
                missing = set(KEYWORDS) - set(k for k, _ in kw_arms)
                if missing:
                    ctx.violation(rule, [rel, qn, "missing-keywords"], f"{rel}:{m['ln']} fn {qn}", sorted(KEYWORDS), sorted(k for k, _ in kw_arms),
                                  "a keyword table of the generator does not know every documented kind")
    ctx.inst(rule + ".tables", n_tables)
    return n_tables


EXPECTED_NAME_TABLES = {
    "emit_ep_name": {"Exec": "execute", "Instantiate": "instantiate", "Migrate": "migrate", "Sudo": "sudo", "Reply": "reply", "Query": "query"},
    "emit_msg_name": {"Exec": "ExecMsg", "Query": "QueryMsg", "Instantiate": "InstantiateMsg", "Migrate": "MigrateMsg", "Reply": "ReplyMsg", "Sudo": "SudoMsg"},
    "as_accessor_name": {"Instantiate": "Instantiate", "Exec": "Exec", "Query": "Query", "Migrate": "Migrate", "Sudo": "Sudo", "Reply": "Reply"},
}
EXPECTED_PARTIAL = {
    "emit_msg_wrapper_name": {"Exec": "ContractExecMsg", "Query": "ContractQueryMsg", "Sudo": "ContractSudoMsg"},
    "as_accessor_wrapper_name": {"Exec": "ContractExec", "Query": "ContractQuery", "Sudo": "ContractSudo"},
}


def rule_g5(ctx, rule="G5.name-table"):
    """Every `match self` over MsgType returning an identifier literal is total, injective and agrees with the documented names."""
    seen = set()
    for rel, ast in derive_asts().items():
        for qn, fn in all_fns(ast):
            short = qn.split("::")[-1]
            if "MsgType" not in qn:
                continue
            for m in A.find_all(fn["body"], lambda n: isinstance(n, dict) and n.get("x") and n.get("k") == "match"):
                if A.path_ids(A.strip_expr(m["expr"])) != ["self"]:
                    continue
                table = {}
                fallthrough = None
                ok = True
                for arm in m["arms"]:
                    pats = arm["pat"]["cases"] if arm["pat"]["k"] == "or" else [arm["pat"]]
                    body = A.strip_expr(arm["body"])
                    val = None
                    if body["k"] == "macro" and body["path"].split("::")[-1] in ("parse_quote", "quote"):
                        toks = A.tt_tokens(body["tt"])
                        if len(toks) == 1:
                            val = toks[0]
                    elif body["k"] == "mcall" and A.path_ids(body["recv"]) == ["self"]:
                        fallthrough = body["method"]
                        val = ("call", body["method"])
                    if val is None:
                        ok = False
                        break
                    for p in pats:
                        if p["k"] == "path":
                            v = p["path"]["segs"][-1]["id"]
                            if v in VARIANTS:
                                table[v] = val
                        elif p["k"] == "wild":
                            for v in VARIANTS:
                                table.setdefault(v, val)
                        else:
                            ok = False
                if not ok or not table:
                    continue
                # classify the table by its content (not by the function's name): it *is* the
                # documented table T when >= 3 of its entries equal T's; then it must equal T everywhere.
                resolved = {}
                for k, v in table.items():
                    if isinstance(v, tuple):
                        base_tbl = None
                        for bn, bt in EXPECTED_NAME_TABLES.items():
                            if bn == v[1]:
                                base_tbl = bt
                        resolved[k] = base_tbl[k] if base_tbl else v
                    else:
                        resolved[k] = v
                full = {}
                for nm, t in EXPECTED_NAME_TABLES.items():
                    full[nm] = dict(t)
                for nm, part in EXPECTED_PARTIAL.items():
                    base = {"emit_msg_wrapper_name": "emit_msg_name", "as_accessor_wrapper_name": "as_accessor_name"}[nm]
                    t = dict(EXPECTED_NAME_TABLES[base])
                    t.update(part)
                    full[nm] = t
                best = None
                for nm, t in full.items():
                    agree = sum(1 for k, v in resolved.items() if t.get(k) == v)
                    if agree >= 3 and (best is None or agree > best[1]):
                        best = (nm, agree)
                ctx.inst(rule, distinct=(rel, qn))
                lits = [v for v in resolved.values() if isinstance(v, str)]
                if best is None:
                    if len(set(lits)) != len(lits):
                        ctx.violation(rule, [rel, qn, "injective"], f"{rel}:{m['ln']} fn {qn}", "distinct identifiers per kind", resolved,
                                      "a name table of the generator merges two kinds")
                    continue
                seen.add(best[0])
                exp = full[best[0]]
                if set(table) != VARIANTS:
                    ctx.violation(rule, [rel, qn, "total"], f"{rel}:{m['ln']} fn {qn}", sorted(VARIANTS), sorted(table), "name table is not total")
                if resolved != exp:
                    ctx.violation(rule, [rel, qn, "values"], f"{rel}:{m['ln']} fn {qn}", exp, resolved,
                                  "a name table of the generator deviates from the documented names (kinds may be merged)")
    missing = (set(EXPECTED_NAME_TABLES) | set(EXPECTED_PARTIAL)) - seen
    if missing:
        # not a violation: a refactor may legitimately reorganise these tables; the X-rules still see every emitted name
        ctx.note(f"G5: documented name tables not recognised in the generator source: {sorted(missing)}")
    ctx.extra["G5_tables_recognised"] = sorted(seen)
