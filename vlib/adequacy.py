"""Corpus adequacy: which quote!/parse_quote! templates of the generator are *observed* in the expansion of the corpus.

Translation validation speaks per corpus program, so the corpus has to exercise the generator's emission branches. A cheap, purely
static measure: every template contributes literal token runs (the stretches between two interpolations); a template counts as
covered when one of its runs (>= MIN_RUN tokens, no macro invocation inside, since macros are expanded in the compiler's output)
occurs in the token stream of some expanded corpus file. Templates without such a run are `unmeasurable` (too short / only
interpolations). An uncovered template that is not explained in ALLOW is a corpus gap and fails the adequacy rule."""
import re

from . import grules

MIN_RUN = 4

TOKEN_RE = re.compile(r'''[A-Za-z_][A-Za-z0-9_]*|[0-9][A-Za-z0-9_]*|"(?:\\.|[^"\\])*"|'(?:\\.|[^'\\])'|.''', re.S)

# uncovered templates that are understood; key = (file, function, index of the template within the function)
ALLOW = {
}
ALLOW_FN = {
    # function -> reason (every template of that generator function)
    "sylvia-derive/src/contract/mt.rs::<MtHelpers<'a>>::emit_instantiate2_body": "the cosmwasm_1_2-off branch is only built in the thorough tier's feature-matrix variant `mt-nocw12` (validated there by C12/C06); the on-branch is covered",
    "sylvia-derive/src/types/msg_type.rs::<MsgType>::emit_dispatch_leg": "the Instantiate|Migrate|Reply arm only emits an internal error",
}


def tokens_of_text(text):
    out = []
    for m in TOKEN_RE.finditer(text):
        t = m.group(0)
        if t.isspace():
            continue
        out.append(t)
    return out


def literal_runs(tt):
    """literal token runs of a template token tree, split at interpolations (# ident, #( .. ) sep? *) and at macro invocations"""
    toks = grules.flat_tokens(tt)
    runs, cur = [], []
    i = 0
    n = len(toks)

    def flush():
        nonlocal cur
        if cur:
            runs.append(cur)
        cur = []
    while i < n:
        t = toks[i]
        if t["t"] == "punct" and t["s"] == "#" and i + 1 < n and (toks[i + 1]["t"] == "ident" or toks[i + 1]["t"] == "open"):
            flush()
            if toks[i + 1]["t"] == "ident":
                i += 2
                continue
            # skip the repetition group and its trailing separator / star
            depth = 0
            i += 1
            while i < n:
                if toks[i]["t"] == "open":
                    depth += 1
                elif toks[i]["t"] == "close":
                    depth -= 1
                    if depth == 0:
                        i += 1
                        break
                i += 1
            while i < n and toks[i]["t"] == "punct" and toks[i]["s"] != "*":
                i += 1
            i += 1
            continue
        if t["t"] == "punct" and t["s"] == "!" and cur and re.match(r"[A-Za-z_]", cur[-1]):
            # a macro invocation: the compiler's output shows its expansion; drop the macro name and skip its argument group
            cur.pop()
            flush()
            i += 1
            if i < n and toks[i]["t"] == "open":
                depth = 0
                while i < n:
                    if toks[i]["t"] == "open":
                        depth += 1
                    elif toks[i]["t"] == "close":
                        depth -= 1
                        if depth == 0:
                            i += 1
                            break
                    i += 1
            continue
        cur.append(t["s"])
        i += 1
    flush()
    return runs


def norm_tokens(toks):
    """printer-insensitive form: no commas (trailing commas come and go), no turbofish `::` before `<`, lifetimes split"""
    out = []
    for t in toks:
        if t == ",":
            continue
        if t.startswith("'") and len(t) > 1 and not t.endswith("'"):
            out += ["'", t[1:]]
        else:
            out.append(t)
    res = []
    i = 0
    while i < len(out):
        if out[i] == ":" and i + 2 < len(out) and out[i + 1] == ":" and out[i + 2] == "<":
            i += 2
            continue
        res.append(out[i])
        i += 1
    return res


def norm_run(run):
    r = norm_tokens(run)
    # a run must not start/end inside a `::` pair
    return " " + " ".join(r) + " "


def template_coverage(expanded_texts):
    """expanded_texts: iterable of expanded source texts. Returns dict(total, covered, unmeasurable, uncovered=[...])."""
    hay = []
    for txt in expanded_texts:
        hay.append(" " + " ".join(norm_tokens(tokens_of_text(txt))) + " ")
    hay = "\n".join(hay)
    per_fn = {}
    res = {"total": 0, "covered": 0, "unmeasurable": 0, "uncovered": [], "allowlisted": []}
    for rel, qn, mac, tt, ln in grules.templates():
        idx = per_fn.get((rel, qn), 0)
        per_fn[(rel, qn)] = idx + 1
        res["total"] += 1
        runs = [r for r in literal_runs(tt) if len(norm_tokens(r)) >= MIN_RUN]
        if not runs:
            res["unmeasurable"] += 1
            continue
        if any(norm_run(r) in hay for r in runs):
            res["covered"] += 1
            continue
        key = f"{rel}::{qn}"
        entry = {"file": rel, "fn": qn, "index": idx, "line": ln, "sample_run": " ".join(max(runs, key=len)[:14])}
        if (rel, qn, idx) in ALLOW or key in ALLOW_FN:
            entry["reason"] = ALLOW.get((rel, qn, idx)) or ALLOW_FN[key]
            res["allowlisted"].append(entry)
        else:
            res["uncovered"].append(entry)
    return res


# ------------------------------------------------------------------ diagnostic-site coverage (C18)

DIAG_MACROS = {"emit_error", "abort", "emit_call_site_error", "abort_call_site"}
DIAG_ALLOW = {
    "Internal Error": "defensive: emit_dispatch_leg is never called for struct messages",
    "Unexpected `self` argument": "not reachable from valid Rust syntax (a second receiver is a parse error before the macro runs)",
}


def diagnostic_sites():
    """[(file, fn, line, message literal)] for every error diagnostic the generator can emit (emit_error!/abort!/syn::Error::new)"""
    from . import ast as A
    out = []
    for rel, ast in grules.derive_asts().items():
        for qn, fn in grules.all_fns(ast):
            for n in A.find_all(fn, lambda n: isinstance(n, dict) and n.get("k") == "macro" and n.get("path", "").split("::")[-1] in DIAG_MACROS):
                lits = [t["s"] for t in grules.flat_tokens(n["tt"]) if t["t"] == "lit" and t["s"].startswith('"')]
                if lits:
                    out.append((rel, qn, n["ln"], _unquote(lits[0])))
            for n in A.find_all(fn, lambda n: isinstance(n, dict) and n.get("x") and n.get("k") == "call" and A.path_ids(n["func"]) and A.path_ids(n["func"])[-2:] == ["Error", "new"]):
                if len(n["args"]) == 2:
                    a = A.strip_expr(n["args"][1])
                    if a["k"] == "lit" and a.get("lk") == "str":
                        out.append((rel, qn, n["ln"], a["v"]))
                    elif a["k"] == "path":
                        # message held in a local `let error_msg = "..."`
                        name = A.path_ids(a)[0]
                        for s in A.find_all(fn, lambda m: isinstance(m, dict) and m.get("k") == "let" and m.get("pat", {}).get("name") == name and m.get("init")):
                            i = A.strip_expr(s["init"])
                            if i["k"] == "lit" and i.get("lk") == "str":
                                out.append((rel, qn, n["ln"], i["v"]))
    return out


def _unquote(s):
    try:
        import ast as pyast
        return pyast.literal_eval(s)
    except Exception:
        return s.strip('"')


def diagnostic_coverage(observed_messages):
    """which diagnostic sites of the generator are triggered by at least one must-fail witness (adequacy of the C18 witness set)"""
    sites = diagnostic_sites()
    res = {"sites": len(sites), "covered": 0, "uncovered": [], "allowlisted": []}
    obs = [re.sub(r"\s+", " ", o) for o in observed_messages]
    for rel, qn, ln, msg in sites:
        head = re.sub(r"\s+", " ", msg.split("\n")[0]).strip()
        # `{}` placeholders -> wildcard
        pat = re.escape(head)
        pat = re.sub(r"\\\{[^}]*\\\}", ".*", pat)
        rx = re.compile(pat)
        if any(rx.search(o) for o in obs):
            res["covered"] += 1
        elif any(k in head for k in DIAG_ALLOW):
            res["allowlisted"].append({"file": rel, "fn": qn, "line": ln, "message": head, "reason": next(v for k, v in DIAG_ALLOW.items() if k in head)})
        else:
            res["uncovered"].append({"file": rel, "fn": qn, "line": ln, "message": head})
    return res
