"""Check runner: rule contexts, violations, known findings, evidence files."""
import json
import os
import re
import sys
import time
import traceback

from . import util
from .util import CheckError

LEVELS = {
    "C01": "translation_validation", "C02": "translation_validation", "C03": "translation_validation",
    "C04": "translation_validation", "C05": "translation_validation", "C06": "translation_validation",
    "C07": "translation_validation", "C08": "translation_validation", "C09": "translation_validation",
    "C10": "translation_validation", "C11": "other", "C12": "other", "C13": "translation_validation",
    "C14": "translation_validation", "C15": "translation_validation", "C16": "translation_validation",
    "C17": "translation_validation", "C18": "fault_enumeration", "C19": "other", "C20": "other",
}

TRUSTED = [
    "T1 rustc: -Zunpretty=expanded output is the program that is type-checked; cargo check success = every path resolved",
    "T2 serde_derive / schemars_derive / cosmwasm-schema-derive: the literals in their expansion are the wire names; derived Serialize/Deserialize of one type round-trip",
    "T3 summaries of cosmwasm-std / cw-multi-test / cw-utils functions called by generated code (DESIGN-appendix D)",
    "T4 value quantifiers are discharged structurally (a value moved untouched is moved for every value)",
]


def safe_key(s):
    return re.sub(r"[^A-Za-z0-9_.:,=+-]+", "_", s)[:180]


class Ctx:
    def __init__(self, prop, tier, seed):
        self.prop = prop
        self.tier = tier
        self.seed = seed
        self.t0 = time.time()
        self.violations = []
        self.known = []
        self.counts = {}
        self.tags = {}
        self.samples = []
        self.programs = set()
        self.notes = []
        self.floors = {}
        self.assumptions = []
        self.extra = {}
        self.exhaustive = None
        self.distinct = set()
        self.known_findings = load_known_findings()

    # -- bookkeeping
    def inst(self, rule, n=1, distinct=None):
        self.counts[rule] = self.counts.get(rule, 0) + n
        if distinct is not None:
            self.distinct.add((rule, distinct))

    def tag(self, t, n=1):
        self.tags[t] = self.tags.get(t, 0) + n

    def program(self, key):
        self.programs.add(key)

    def sample(self, s, cap=8):
        if len(self.samples) < cap:
            self.samples.append(s)

    def floor(self, rule, n):
        self.floors[rule] = n

    def note(self, s):
        self.notes.append(s)

    def violation(self, rule, key, where, expected, found, statement="", emitter=None):
        """key: list of parts without line numbers."""
        k = "/".join([rule] + [str(x) for x in key])
        rec = {"property": self.prop, "rule": rule, "key": k, "where": where, "expected": expected, "found": found,
               "statement": statement, "emitter": emitter}
        for kf in self.known_findings:
            if kf.get("property") == self.prop and kf.get("key") == k and not kf.get("fixed"):
                rec["known"] = kf.get("what", "")
                self.known.append(rec)
                return
        # de-duplicate
        if any(v["key"] == k for v in self.violations):
            return
        self.violations.append(rec)

    def unrecognised(self, rule, key, where, why):
        self.violation(rule, list(key) + ["UNRECOGNISED"], where, "a construct the rule can classify", why,
                       statement="fail-closed: the generated code left the recognised normal forms")

    def check_floors(self):
        for rule, n in self.floors.items():
            have = self.counts.get(rule, 0)
            if have < n:
                self.violation("FLOOR", [rule], "checker", f">= {n} instances of {rule}", f"{have}",
                               statement="instance count fell below the hand-counted floor (vacuous pass guard)")


def load_known_findings():
    p = os.path.join(util.VERIF, "known_findings.jsonl")
    out = []
    if os.path.exists(p):
        for line in open(p):
            line = line.strip()
            if not line or line.startswith("#") or line.startswith("fixed:"):
                continue
            out.append(json.loads(line))
    return out


def finish(ctx, level, rule_text, explanation, assumptions):
    ctx.check_floors()
    vdir = os.path.join(util.VERIF, "evidence", "violations")
    os.makedirs(vdir, exist_ok=True)
    # clear stale replay files of this property
    for f in os.listdir(vdir):
        if f.startswith(ctx.prop + "-"):
            os.unlink(os.path.join(vdir, f))
    for kf in ctx.known:
        print(f"KNOWN-FINDING: property={ctx.prop} {kf['key']} :: {kf.get('known','')}")
    for v in ctx.violations:
        path = os.path.join(vdir, f"{ctx.prop}-{safe_key(v['key'])}.json")
        with open(path, "w") as f:
            json.dump(v, f, indent=1, default=str)
        print(f"VIOLATION property={ctx.prop} replay={path}")
        print(f"  rule={v['rule']} where={v['where']}\n  expected: {v['expected']}\n  found:    {v['found']}")
    n_inst = sum(ctx.counts.values())
    cov = {
        "rule_instances": dict(sorted(ctx.counts.items())),
        "floors": ctx.floors,
        "tags": dict(sorted(ctx.tags.items())),
        "samples": ctx.samples if ctx.samples else [{"note": "no instance sampled"}],
        "trusted_base": TRUSTED,
        "explanation": explanation,
        "rule": rule_text,
        "evaluations": max(n_inst, 1),
        "distinct_nontrivial": max(len(ctx.distinct), 0),
        "notes": ctx.notes,
        "known_findings_reported": [k["key"] for k in ctx.known],
    }
    if level == "translation_validation":
        cov["programs"] = len(ctx.programs)
        cov["disagreements_checked"] = n_inst
    if ctx.exhaustive is not None:
        cov["exhaustive"] = ctx.exhaustive
    cov.update(ctx.extra)
    ev = {"property_id": ctx.prop, "tier": ctx.tier, "seed": ctx.seed, "level": level, "coverage": cov,
          "assumptions": assumptions, "wall_s": round(time.time() - ctx.t0, 2), "violations": len(ctx.violations)}
    os.makedirs(os.path.join(util.VERIF, "evidence"), exist_ok=True)
    with open(os.path.join(util.VERIF, "evidence", ctx.prop + ".json"), "w") as f:
        json.dump(ev, f, indent=1, default=str)
    summary = ", ".join(f"{k}={v}" for k, v in sorted(ctx.counts.items()))
    print(f"[{ctx.prop}] tier={ctx.tier} instances: {summary}; programs={len(ctx.programs)}; "
          f"violations={len(ctx.violations)} known={len(ctx.known)} wall={ev['wall_s']}s")
    return 1 if ctx.violations else 0
