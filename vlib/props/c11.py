"""C11 — bridging to chain-custom types preserves the response and the call."""
from .. import check, rrules
from . import common as C
from .c02 import check_wrapper
from .common import ENUM_KINDS


def run(ctx):
    rrules.rule_r2(ctx)
    rrules.rule_r3(ctx)
    C.corpus_must_compile(ctx, "C11.compile")
    n = 0
    for m, g in C.pairs(ctx, want_kind="contract"):
        if not m.messages:
            continue
        ctx.program(m.key)
        for kind in ENUM_KINDS:
            check_wrapper(ctx, m, g, kind)   # bridging arms: into_empty / into_response exactly where `: custom(..)` says
    for t in ("iface.custom-query.exec", "iface.custom-query.query", "iface.custom-query.sudo", "iface.custom-msg.exec", "iface.custom-msg.sudo",
              "iface.native-query.exec", "iface.native-msg.exec"):
        if ctx.tags.get(t, 0) == 0:
            ctx.violation("TAG", [t], "corpus", f"a corpus contract exercising {t}", "none", "corpus adequacy (DESIGN-appendix A 10/11)")
    ctx.floor("R2.into_msg", 8)
    ctx.floor("R3.into_response", 4)
    return check.finish(
        ctx, "other",
        "R2: IntoMsg::into_msg has, for every variant of cosmwasm_std::CosmosMsg (parsed from the resolved dependency, with cfg gates mapped through sylvia/Cargo.toml), an arm rebuilding it from the same payload under an equivalent gate, Custom alone fails, the SubMsg literal copies every field; R3: IntoResponse::into_response sets every Response field from the same field of self, messages through an order-preserving all-or-nothing chain; X: bridging arms of the contract-level dispatch apply into_empty / into_response exactly as `: custom(msg, query)` declares",
        "field-provenance and exhaustiveness rules over sylvia/src/into_response.rs (source, not executed) + translation validation of the wrapper arms",
        ["DepsMut::into_empty keeps storage/api and re-wraps the querier (T3)", "Response::add_* append in order (T3, bodies read: self.<f>.extend(..))"])
