"""C17 — forwarded attributes land on exactly the designated item."""
import re

from .. import check
from . import common as C
from .common import A, G, M, KINDS, ENUM_KINDS, MSG_NAME

STATEMENT = "sv::msg_attr(kind, A) lands on the message type of that kind only; sv::attr(A) on the handler's variant only; parameter attributes on the corresponding field, where they take effect"


def attr_strings(node):
    return [A.compact(a["path"] + ("(" + a["tokens"] + ")" if a["kind"] == "list" else ("=" + a["tokens"] if a["kind"] == "nv" else ""))) for a in node.get("attrs", [])]


def derive_names(tokens_compact):
    mm = re.match(r"^derive\((.*)\)$", tokens_compact)
    if not mm:
        return None
    return [x.split("::")[-1] for x in mm.group(1).split(",") if x]


def generated_types(m, g):
    out = {}
    for k in KINDS:
        if k == "reply":
            continue
        try:
            t = g.msg_type(k)
        except G.Unrecognised:
            t = None
        if t is not None:
            out[k] = t
    return out


def has_derived_impl(g, type_name, trait_last):
    for imp in g.trait_impls(trait_last, type_name):
        if A.has_attr(imp, "automatically_derived"):
            return True
    return False


def check_item(ctx, m, g):
    key0 = [m.crate_key, "::".join(m.modpath + [m.name])]
    types = generated_types(m, g)
    # ---- sv::msg_attr
    for kind, comp, tt in m.msg_attrs:
        ctx.inst("C17.msg_attr", distinct=(m.key, kind, comp))
        ctx.tag(f"msg_attr.{kind}")
        key = key0 + ["msg_attr", kind, comp[:40]]
        target = types.get(kind)
        if target is None:
            if kind in ("migrate",) and not m.handlers["migrate"]:
                continue
            ctx.violation("C17.msg_attr", key + ["no-target"], C.where(m), f"generated {MSG_NAME.get(kind, kind)}", "absent", STATEMENT)
            continue
        dn = derive_names(comp)
        for k2, t2 in types.items():
            if dn is not None:
                for d in dn:
                    expected = any(kk == k2 and d in (derive_names(cc) or []) for kk, cc, _ in m.msg_attrs)
                    present = has_derived_impl(g, t2["name"], d)
                    if expected != present:
                        ctx.violation("C17.msg_attr", key + [k2, d], C.where(m, t2), f"derived {d} exactly on the kinds it was forwarded to", f"{'present' if present else 'absent'} on {t2['name']}", STATEMENT,
                                      "EnumMessage::new / StructMessage::new (msg_attrs_forward filter)")
            else:
                expected = any(kk == k2 and cc == comp for kk, cc, _ in m.msg_attrs)
                present = comp in attr_strings(t2)
                if expected != present:
                    ctx.violation("C17.msg_attr", key + [k2], C.where(m, t2), f"#[{comp}] exactly on the kinds it was forwarded to", f"{'present' if present else 'absent'} on {t2['name']}", STATEMENT,
                                  "EnumMessage::new / StructMessage::new (msg_attrs_forward filter)")
    # ---- sv::attr on handlers + parameter attributes
    for kind in ENUM_KINDS:
        hs = m.handlers[kind]
        if not any(h.variant_attrs or any(p["attrs"] for p in h.params) for h in hs):
            continue
        info = C.enum_info(ctx, m, g, kind, "C17.variant_attr")
        if info is None:
            continue
        variants = {v["name"]: v for v in info.ty["variants"]}
        try:
            sf = g.serde(info.ty)
        except G.Unrecognised as e:
            ctx.unrecognised("C17.field_attr", info.key, C.where(m), str(e))
            continue
        for h in hs:
            vs = info.h2v.get(h.fn, [])
            if len(vs) != 1:
                continue
            vn = vs[0]
            for comp, tt in h.variant_attrs:
                ctx.inst("C17.variant_attr", distinct=(m.key, kind, h.fn, comp))
                ctx.tag("variant.attr")
                for v2n, v2 in variants.items():
                    present = comp in attr_strings(v2)
                    # the same attribute may legitimately be forwarded from another handler too
                    also = any(comp == c2 for h2 in hs if h2 is not h and info.h2v.get(h2.fn) == [v2n] for c2, _ in h2.variant_attrs)
                    if v2n == vn and not present:
                        ctx.violation("C17.variant_attr", info.key + [h.fn, comp[:40], "missing"], C.where(m, v2), f"#[{comp}] on variant {vn}", "absent", STATEMENT, "MsgVariant::emit")
                    if v2n != vn and present and not also:
                        ctx.violation("C17.variant_attr", info.key + [h.fn, comp[:40], "leaked", v2n], C.where(m, v2), f"#[{comp}] on variant {vn} only", f"also on {v2n}", STATEMENT, "MsgVariant::emit")
            fields = {f["name"]: f for f in variants[vn]["fields"]}
            check_param_attrs(ctx, m, g, info.key + [h.fn], h, fields, (sf["de"]["fields_of_variant"].get(vn) or {}).get("missing_field", set()), info.impl, vn)
    if m.kind == "contract":
        for kind in ("instantiate", "migrate"):
            hs = m.handlers[kind]
            if not hs or not any(p["attrs"] for p in hs[0].params):
                continue
            t = types.get(kind)
            if t is None:
                continue
            try:
                sf = g.serde(t)
            except G.Unrecognised as e:
                ctx.unrecognised("C17.field_attr", key0 + [kind], C.where(m), str(e))
                continue
            fields = {f["name"]: f for f in t["fields"]}
            imp = next((i for i in g.inherent_impls(t["name"]) if g.method(i, "new")), None)
            check_param_attrs(ctx, m, g, key0 + [kind, hs[0].fn], hs[0], fields, sf["de"].get("missing_field", set()), imp, None)


def _split_top(s, sep=","):
    parts, cur, depth, in_str = [], "", 0, False
    for i, ch in enumerate(s):
        if ch == '"' and (i == 0 or s[i - 1] != "\\"):
            in_str = not in_str
        if not in_str:
            if ch in "([{":
                depth += 1
            elif ch in ")]}":
                depth -= 1
            elif ch == sep and depth == 0:
                parts.append(cur)
                cur = ""
                continue
        cur += ch
    if cur.strip():
        parts.append(cur)
    return [x.strip() for x in parts]


def _eval_cfg_pred(pred):
    """cfg predicate (compact string) evaluated for the build the facts come from: the host target, not a test build"""
    import platform
    import re
    pred = pred.strip()
    mm = re.match(r"^(not|all|any)\((.*)\)$", pred, re.S)
    if mm:
        parts = [_eval_cfg_pred(x) for x in _split_top(mm.group(2))]
        return {"not": lambda: not parts[0], "all": lambda: all(parts), "any": lambda: any(parts)}[mm.group(1)]()
    mm = re.match(r'^([a-z_]+)="([^"]*)"$', pred)
    if mm:
        k, v = mm.groups()
        if k == "target_arch":
            return v == {"x86_64": "x86_64", "aarch64": "aarch64", "AMD64": "x86_64", "arm64": "aarch64"}.get(platform.machine(), platform.machine())
        if k == "target_os":
            return v == "linux"
        if k == "target_family":
            return v == "unix"
    if pred == "test":
        return False
    if pred in ("unix", "debug_assertions"):
        return True
    if pred == "windows":
        return False
    raise G.Unrecognised(f"cfg predicate `{pred}` not evaluated by the model")


def effective_attrs(attrs):
    """attribute strings after the compiler's cfg_attr evaluation (what reaches the field of the generated type)"""
    out = []
    for a in attrs:
        s = A.compact(a["path"] + ("(" + a["tokens"] + ")" if a["kind"] == "list" else ("=" + a["tokens"] if a["kind"] == "nv" else "")))
        if a["path"] == "cfg_attr" and a["kind"] == "list":
            parts = _split_top(A.compact(a["tokens"]))
            if parts and _eval_cfg_pred(parts[0]):
                out += parts[1:]
            continue
        out.append(s)
    return out


def check_param_attrs(ctx, m, g, key, h, fields, missing_field, impl, variant):
    for p in h.params:
        fl = fields.get(p["name"])
        if fl is None:
            continue
        try:
            want = effective_attrs(p["attrs"])
        except G.Unrecognised as e:
            ctx.unrecognised("C17.field_attr", key + [p["name"]], C.where(m, fl), str(e))
            continue
        if any(a["path"] == "cfg_attr" for a in p["attrs"]):
            ctx.tag("field.cfg_attr")
        have = attr_strings(fl)
        ctx.inst("C17.field_attr", distinct=(m.key, tuple(key), p["name"]))
        if p["attrs"]:
            ctx.tag("field.attr")
        if sorted(want) != sorted(have):
            ctx.violation("C17.field_attr", key + [p["name"], "attrs"], C.where(m, fl), f"field {p['name']} carries exactly {want}", have, STATEMENT, "MsgField::emit")
        if "serde(default)" in want:
            ctx.tag("field.serde-default")
            from .c01 import param_key
            if param_key(p) in missing_field:
                ctx.violation("C17.field_attr", key + [p["name"], "default-effect"], C.where(m, fl), "serde sees the default: no missing_field error for this key", "missing_field is still raised", STATEMENT)
    # constructor parameters carry no attributes
    if impl is not None:
        for f in impl["items"]:
            if f.get("k") == "fn" and f["name"] != "dispatch":
                for i in f["inputs"]:
                    if not i.get("recv") and i.get("attrs"):
                        ctx.violation("C17.field_attr", key + [f["name"], "ctor-param-attr"], C.where(m, f), "no attribute on constructor parameters", [a["path"] for a in i["attrs"]], STATEMENT, "MsgField::emit_method_field")


def run(ctx):
    C.corpus_must_compile(ctx, "C17.compile")
    for m, g in C.pairs(ctx):
        ctx.program(m.key)
        check_item(ctx, m, g)
    for t in ("msg_attr.exec", "msg_attr.query", "variant.attr", "field.attr", "field.serde-default"):
        if ctx.tags.get(t, 0) == 0:
            ctx.violation("TAG", [t], "corpus", f"a corpus program exercising {t}", "none", "corpus adequacy (DESIGN-appendix A 5/6/8/9)")
    C.corpus_adequacy(ctx, enforce=False)
    ctx.floor("C17.msg_attr", 8)
    ctx.floor("C17.field_attr", 10)
    return check.finish(
        ctx, "translation_validation",
        "every sv::msg_attr(kind, A): A (or, for derive(X), the derived impl of X) is present on the type of that kind and on no other generated type of the item; every sv::attr(A) on the handler's variant and no other; every non-sv parameter attribute on the corresponding field (exact multiset), not on constructor parameters; a forwarded serde(default) removes the field's missing_field error in serde_derive's expansion",
        "translation validation over expanded attribute lists and derive output",
        ["attribute semantics other than serde(default)/derive are not interpreted"])
