"""C04 — handlers are reachable only through the entry point of their own kind."""
from .. import check, grules
from . import common as C
from . import entry as E
from . import wrapper as W
from .common import A, G, ENUM_KINDS, KINDS, EP_NAME, ACCESSOR, WRAPPER_ACCESSOR, WRAPPER_NAME

STATEMENT = "a handler of kind K is reachable only through K-typed messages, which only the K entry point decodes"
MT_METHOD_KIND = {"execute": "exec", "instantiate": "instantiate", "query": "query", "sudo": "sudo", "reply": "reply", "migrate": "migrate"}


def want_entry_acc(kind):
    return WRAPPER_ACCESSOR.get(kind, ACCESSOR[kind])


def check_partition(ctx, m, g):
    """(a) each K-enum / struct only calls K handlers; every handler name under one kind only appears in that kind's type."""
    kinds_of = {}
    for k in KINDS:
        for h in m.handlers[k]:
            kinds_of.setdefault(h.fn, set()).add(k)
    for kind in ENUM_KINDS:
        info = C.enum_info(ctx, m, g, kind, "C04.a-partition")
        if info is None:
            continue
        ctx.inst("C04.a-partition", distinct=(m.key, kind))
        for a in info.arms:
            if a.get("phantom"):
                continue
            ks = kinds_of.get(a["handler"], set())
            if kind not in ks:
                ctx.violation("C04.a-partition", info.key + [a["handler"]], C.where(m, info.dispatch), f"{kind} message calls only {kind} handlers",
                              f"arm {a['variant']} calls {a['handler']} (declared {sorted(ks) or 'without sv::msg'})", STATEMENT, "MsgVariants::new (kind filter)")
        want = sorted(h.fn for h in m.handlers[kind])
        got = sorted(a["handler"] for a in info.arms if not a.get("phantom"))
        if want != got:
            ctx.violation("C04.a-partition", info.key + ["set"], C.where(m, info.dispatch), want, got, STATEMENT, "MsgVariants::new (kind filter)")
    # programs where the same name / shape exists in several kinds are the interesting ones
    shapes = {}
    for k in ENUM_KINDS:
        for h in m.handlers[k]:
            shapes.setdefault(tuple(p["ty_s"] for p in h.params), set()).add(k)
    if any(len(v) > 1 for v in shapes.values()):
        ctx.tag("same-shape-in-several-kinds")


def check_wrapper_kind(ctx, m, g, kind):
    key = [m.crate_key, "::".join(m.modpath + [m.name]), "wrapper", kind]
    try:
        wf = W.analyse(m, g, kind)
    except G.Unrecognised as e:
        ctx.unrecognised("C04.b-wrapper-kind", key, C.where(m), str(e))
        return
    ctx.inst("C04.b-wrapper-kind", distinct=(m.key, kind))
    acc = ACCESSOR[kind]
    fn = EP_NAME[kind] + "_messages"
    bad = []
    for vn, v in wf.variants.items():
        if v["acc"] != acc:
            bad.append(("variant payload", vn, v["acc"]))
    if wf.de:
        for a in wf.de["attempts"]:
            if a["list"][1] != fn:
                bad.append(("membership list", a["variant"], a["list"][1]))
        for l in wf.de["error_lists"] or []:
            if l[1] != fn:
                bad.append(("error list", l[0], l[1]))
    for l in wf.const_lists or []:
        if l is None or l[1] != fn:
            bad.append(("overlap-check list", l and l[0], l and l[1]))
    for t in wf.any_of or []:
        if t is None or not t.endswith("::" + acc):
            bad.append(("schema any_of", t, None))
    if kind == "query":
        for r in wf.responses or []:
            if "::" + acc + "::response_schemas_impl" not in r:
                bad.append(("response table", r, None))
    for b in bad:
        ctx.violation("C04.b-wrapper-kind", key + [str(b[0]), str(b[1])], C.where(m, wf.ty), f"only {acc} / {fn} inside {WRAPPER_NAME[kind]}", b, STATEMENT,
                      "Interfaces::emit_* / GlueMessage::emit")


def check_entry_points(ctx, m, g):
    if g.entry_points is None:
        return
    for f in g.entry_points:
        if f.get("k") != "fn":
            continue
        key = [m.crate_key, "::".join(m.modpath + [m.name]), "entry_point", f["name"]]
        kind = MT_METHOD_KIND.get(f["name"])
        ctx.inst("C04.c-entry-point", distinct=(m.key, f["name"]))
        if kind is None:
            ctx.violation("C04.c-entry-point", key + ["name"], C.where(m, f), "one of the six entry point names", f["name"], STATEMENT)
            continue
        try:
            ep = E.analyse_entry_fn(f)
        except G.Unrecognised as e:
            ctx.unrecognised("C04.c-entry-point", key, C.where(m, f), str(e))
            continue
        msg = ep["msg"]
        if kind == "reply":
            if not msg or msg.get("kind") != "plain" or msg["acc"] != "Reply":
                ctx.violation("C04.c-entry-point", key + ["msg-type"], C.where(m, f), "msg: cw_std::Reply", msg, STATEMENT, "EntryPoints::emit_default_entry_point")
            if ep["body"]["form"] not in ("dispatch_reply", "legacy_reply"):
                ctx.violation("C04.c-entry-point", key + ["body"], C.where(m, f), "reply dispatch", ep["body"]["form"], STATEMENT)
            continue
        if not msg or msg.get("kind") != "contract" or msg["acc"] != want_entry_acc(kind):
            ctx.violation("C04.c-entry-point", key + ["msg-type"], C.where(m, f), f"msg: <Contract as ContractApi>::{want_entry_acc(kind)}", msg and msg.get("ty_s", msg), STATEMENT,
                          "EntryPoints::emit_default_entry_point / MsgType::as_accessor_wrapper_name")
        if ep["body"]["form"] != "dispatch":
            ctx.violation("C04.c-entry-point", key + ["body"], C.where(m, f), "msg.dispatch(..)", ep["body"]["form"], STATEMENT)


def check_mt_contract(ctx, m, g):
    mt, imp = E.mt_contract_impl(g)
    if mt is None:
        return
    key0 = [m.crate_key, "::".join(m.modpath + [m.name]), "mt::Contract"]
    if imp is None:
        ctx.violation("C04.d-mt-contract", key0 + ["impl"], C.where(m), "one impl of cw_multi_test::Contract", "0 or several", STATEMENT, "MtHelpers::emit_impl_contract")
        return
    overridden = {o["kind"] for o in m.overrides}
    for f in imp["items"]:
        if f.get("k") != "fn":
            continue
        kind = MT_METHOD_KIND.get(f["name"])
        key = key0 + [f["name"]]
        ctx.inst("C04.d-mt-contract", distinct=(m.key, f["name"]))
        if kind is None:
            ctx.violation("C04.d-mt-contract", key + ["name"], C.where(m, f), "one of the six operations", f["name"], STATEMENT)
            continue
        try:
            nf = E.analyse_mt_contract_method(f)
        except G.Unrecognised as e:
            ctx.unrecognised("C04.d-mt-contract", key, C.where(m, f), str(e))
            continue
        if nf["form"] == "dispatch":
            fj = nf["from_json"]
            acc = fj[0]["acc"] if len(fj) == 1 else None
            if acc is None or acc["kind"] != "contract" or acc["acc"] != want_entry_acc(kind):
                ctx.violation("C04.d-mt-contract", key + ["decoded-type"], C.where(m, f), f"from_json::<<Contract as ContractApi>::{want_entry_acc(kind)}>",
                              [x["ty_s"] for x in fj], STATEMENT, "MtHelpers::emit_impl_contract / MsgType::as_accessor_wrapper_name")
            if len(fj) == 1 and fj[0]["src"] != ["msg"]:
                ctx.violation("C04.d-mt-contract", key + ["decoded-source"], C.where(m, f), "decodes `msg`", fj[0]["src"], STATEMENT)
        elif nf["form"] == "override":
            # the override path decides; which kind's override is used is C06's rule
            pass


def run(ctx):
    C.corpus_must_compile(ctx, "C04.compile")
    for m, g in C.pairs(ctx):
        ctx.program(m.key)
        check_partition(ctx, m, g)
        if m.kind == "contract":
            for kind in ENUM_KINDS:
                check_wrapper_kind(ctx, m, g, kind)
            check_entry_points(ctx, m, g)
            check_mt_contract(ctx, m, g)
    from . import helpers as H
    H.check_helper_kinds(ctx)
    n = grules.rule_g4(ctx)
    if n < 1:
        ctx.violation("G4.keyword-table", ["anchor"], "sylvia-derive/src", ">= 1 keyword table (sv::msg kinds)", n, "anchor missing")
    grules.rule_g5(ctx)
    C.corpus_adequacy(ctx, enforce=False)
    ctx.floor("C04.a-partition", 150)
    ctx.floor("C04.b-wrapper-kind", 90)
    ctx.floor("C04.c-entry-point", 60)
    ctx.floor("C04.d-mt-contract", 150)
    return check.finish(
        ctx, "translation_validation",
        "kind partition of handlers over generated message types; every mention of a part inside a K-wrapper (payload accessor, membership list, error list, overlap list, schema, response table) is K-typed; each entry point and each multitest Contract method decodes only the wrapper of its own kind; generator keyword tables (G4) and name tables (G5) cannot merge kinds for any input",
        "translation validation over the corpus + closed-table rules over the generator source",
        ["with the kind partition, K-typed decoding and C02's arm rule, a document can reach a K2 handler only through a K2 message type"])
