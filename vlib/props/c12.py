"""C12 — multitest proxies are equivalent to sending the raw JSON message (structure only)."""
from .. import check, rrules, witness
from . import common as C
from . import entry as E
from . import helpers as H
from .common import A, G, M

STATEMENT = "a proxy method performs exactly one call of the corresponding cw-multi-test operation with the same-named message, the proxy's address and the options set by the with_* setters"


def mt_items(g):
    mt = g.one("mod", "mt")
    return mt["items"] if mt else None


def proxy_impl(mt, m):
    name = m.name + "Proxy"
    imps = [i for i in mt if i.get("k") == "impl" and i.get("trait") and i["trait"]["path"]["segs"][-1]["id"] == name]
    return imps


def struct_lit_fields(e):
    return {fl["member"]: A.strip_expr(fl["expr"]) for fl in e["fields"]}


def check_code_id(ctx, m, g, mt):
    key = [m.crate_key, "::".join(m.modpath + [m.name]), "CodeId"]
    imps = [i for i in mt if i.get("k") == "impl" and i.get("trait") is None and i["self_ty"]["k"] == "path" and i["self_ty"]["path"]["segs"][-1]["id"] == "CodeId"]
    ctx.inst("C12.code_id", distinct=m.key)
    if len(imps) != 1:
        ctx.violation("C12.code_id", key + ["impl"], C.where(m), "one inherent impl of CodeId", len(imps), STATEMENT, "MtHelpers::emit_code_id")
        return
    imp = imps[0]
    sc = g.method(imp, "store_code")
    if sc is None:
        ctx.violation("C12.code_id", key + ["store_code"], C.where(m, imp), "fn store_code", "absent", STATEMENT)
    else:
        calls = A.find_all(sc["body"], lambda n: isinstance(n, dict) and n.get("x") and n.get("k") == "mcall" and n["method"] == "store_code")
        ok = False
        if len(calls) == 1 and len(calls[0]["args"]) == 1:
            b = A.strip_expr(calls[0]["args"][0])
            if b["k"] == "call" and A.path_ids(b["func"])[-2:] == ["Box", "new"] and len(b["args"]) == 1:
                cc = E.ctor_call(b["args"][0])
                ok = cc is not None and cc["type"].split("::")[-1] == m.name and [A.compact(x) for x in cc["generics"]] == [p["name"] if p["k"] != "lifetime" else "'_" for p in m.generic_params]
        if not ok:
            ctx.violation("C12.code_id", key + ["store_code-body"], C.where(m, sc), f"app.app_mut().store_code(Box::new({m.name}::new()))", "other", STATEMENT, "MtHelpers::emit_code_id")
    ins = g.method(imp, "instantiate")
    hs = m.handlers["instantiate"]
    if ins is None or not hs:
        ctx.violation("C12.code_id", key + ["instantiate"], C.where(m, imp), "fn instantiate", "absent", STATEMENT)
        return
    h = hs[0]
    params = [i["pat"].get("name") for i in ins["inputs"] if not i.get("recv")]
    if params != [p["name"] for p in h.params]:
        ctx.violation("C12.code_id", key + ["instantiate-params"], C.where(m, ins), [p["name"] for p in h.params], params, STATEMENT)
    stmts, tail = A.block_parts(ins["body"])
    msg_ok = False
    for s in stmts:
        if s["k"] == "let" and s["pat"].get("name") == "msg" and s["init"] is not None:
            e = A.strip_expr(s["init"])
            if e["k"] == "struct" and e["path"]["segs"][-1]["id"] == "InstantiateMsg":
                fl = {k: A.path_ids(v) for k, v in struct_lit_fields(e).items()}
                msg_ok = fl == {p["name"]: [p["name"]] for p in h.params}
            elif e["k"] == "call" and A.path_ids(e["func"])[-2:] == ["InstantiateMsg", "new"]:
                msg_ok = [A.path_ids(A.strip_expr(a)) for a in e["args"]] == [[p["name"]] for p in h.params]
    if not msg_ok:
        ctx.violation("C12.code_id", key + ["instantiate-msg"], C.where(m, ins), "InstantiateMsg built from the parameters of the same name", "other", STATEMENT)
    t = A.strip_expr(tail) if tail else None
    if not (t and t["k"] == "struct" and t["path"]["segs"][-1]["id"] == "InstantiateProxy"):
        ctx.unrecognised("C12.code_id", key + ["instantiate-tail"], C.where(m, ins), "tail is not an InstantiateProxy literal")
        return
    fl = struct_lit_fields(t)
    defaults = {"code_id": lambda e: A.path_ids(e) == ["self"],
                "funds": lambda e: e["k"] == "ref" and A.strip_expr(e["expr"])["k"] == "array" and not A.strip_expr(e["expr"])["elems"],
                "label": lambda e: e["k"] == "lit" and e.get("v") == "Contract",
                "admin": lambda e: A.path_ids(e) == ["None"],
                "salt": lambda e: A.path_ids(e) == ["None"],
                "msg": lambda e: A.path_ids(e) == ["msg"]}
    if set(fl) != set(defaults):
        ctx.violation("C12.code_id", key + ["proxy-fields"], C.where(m, ins), sorted(defaults), sorted(fl), STATEMENT)
    for k, pred in defaults.items():
        if k in fl and not pred(fl[k]):
            ctx.violation("C12.code_id", key + ["default", k], C.where(m, ins), {"funds": "&[]", "label": '"Contract"', "admin": "None", "salt": "None", "code_id": "self", "msg": "msg"}[k], fl[k].get("s") or fl[k]["k"], STATEMENT,
                          "MtHelpers::emit_code_id (defaults)")


def check_instantiate_proxy(ctx, m, g, mt):
    key = [m.crate_key, "::".join(m.modpath + [m.name]), "InstantiateProxy"]
    imps = [i for i in mt if i.get("k") == "impl" and i.get("trait") is None and i["self_ty"]["k"] == "path" and i["self_ty"]["path"]["segs"][-1]["id"] == "InstantiateProxy"]
    ctx.inst("C12.instantiate_proxy", distinct=m.key)
    if len(imps) != 1:
        ctx.violation("C12.instantiate_proxy", key + ["impl"], C.where(m), "one inherent impl", len(imps), STATEMENT)
        return
    imp = imps[0]
    for setter, field in (("with_funds", "funds"), ("with_label", "label"), ("with_admin", "admin"), ("with_salt", "salt")):
        f = g.method(imp, setter)
        if f is None:
            ctx.violation("C12.instantiate_proxy", key + [setter, "missing"], C.where(m, imp), f"fn {setter}", "absent", STATEMENT)
            continue
        stmts, tail = A.block_parts(f["body"])
        t = A.strip_expr(tail) if tail else None
        env = {}
        for s in stmts:
            if s["k"] == "let" and s["pat"]["k"] == "ident" and s["init"] is not None:
                env[s["pat"]["name"]] = s["init"]
        ok = False
        if t and t["k"] == "struct" and t.get("rest") is not None and A.path_ids(A.strip_expr(t["rest"])) == ["self"]:
            fl = struct_lit_fields(t)
            if list(fl) == [field]:
                e = fl[field]
                ids = A.path_ids(e)
                src = env.get(ids[0]) if ids and ids[0] in env else e
                # the value derives from the parameter of the same name
                names = [n["path"]["segs"][0]["id"] for n in A.find_all(src, lambda n: isinstance(n, dict) and n.get("x") and n.get("k") == "path" and len(n["path"]["segs"]) == 1)]
                ok = field in names or (ids == [field] and field not in env)
        if not ok:
            ctx.violation("C12.instantiate_proxy", key + [setter], C.where(m, f), f"Self {{ {field}: <from parameter {field}>, ..self }}", "other", STATEMENT, "MtHelpers::emit_instantiate_proxy")
    call = g.method(imp, "call")
    if call is None:
        ctx.violation("C12.instantiate_proxy", key + ["call", "missing"], C.where(m, imp), "fn call", "absent", STATEMENT)
        return
    stmts, tail = A.block_parts(call["body"])
    # destructuring `let Self { code_id, funds, label, admin, salt, msg } = self;`
    des = [s for s in stmts if s["k"] == "let" and s["pat"]["k"] == "struct" and A.path_ids(A.strip_expr(s["init"])) == ["self"]]
    binds = {}
    if des:
        for fl in des[0]["pat"]["fields"]:
            if fl["pat"]["k"] == "ident":
                binds[fl["pat"]["name"]] = fl["member"]
    ic = A.find_all(call["body"], lambda n: isinstance(n, dict) and n.get("x") and n.get("k") == "mcall" and n["method"] == "instantiate_contract")
    if len(ic) != 1 or len(ic[0]["args"]) != 6:
        ctx.violation("C12.instantiate_proxy", key + ["call", "instantiate_contract"], C.where(m, call), "one call of instantiate_contract with 6 arguments", len(ic), STATEMENT)
    else:
        def src(e):
            e = A.strip_expr(e)
            while e["k"] in ("ref",) or (e["k"] == "mcall" and e["method"] in ("clone", "to_owned", "into", "to_string") and not e["args"]):
                e = A.strip_expr(e["expr"] if e["k"] == "ref" else e["recv"])
            if e["k"] == "field":
                b = A.path_ids(A.strip_expr(e["base"]))
                return (binds.get(b[0], b[0]) if b else None, e["member"])
            ids = A.path_ids(e)
            return binds.get(ids[0], ids[0]) if ids else None
        got = [src(a) for a in ic[0]["args"]]
        want = [("code_id", "code_id"), "sender", "msg", "funds", "label", "admin"]
        if got != want:
            ctx.violation("C12.instantiate_proxy", key + ["call", "args"], C.where(m, call), want, got, STATEMENT, "MtHelpers::emit_instantiate_proxy (call)")
    i2 = A.find_all(call["body"], lambda n: isinstance(n, dict) and n.get("x") and n.get("k") == "struct" and n["path"]["segs"][-1]["id"] == "Instantiate2")
    if i2:
        ctx.tag("feat.cw12")
        fl = struct_lit_fields(i2[0])

        def base_name(e):
            e = A.strip_expr(e)
            while e["k"] == "mcall" and e["method"] in ("to_owned", "into", "clone", "to_vec", "to_string") and not e["args"]:
                e = A.strip_expr(e["recv"])
            if e["k"] == "field":
                b = A.path_ids(A.strip_expr(e["base"]))
                return (binds.get(b[0], b[0]) if b else None, e["member"])
            ids = A.path_ids(e)
            return ids[0] if ids else None
        got = {k: base_name(v) for k, v in fl.items()}
        want = {"admin": "admin", "code_id": ("code_id", "code_id"), "msg": "msg", "funds": "funds", "label": "label", "salt": "salt"}
        if got != want:
            ctx.violation("C12.instantiate_proxy", key + ["call", "instantiate2"], C.where(m, call), want, got, STATEMENT, "MtHelpers::emit_instantiate2_body")
    else:
        ctx.tag("feat.no-cw12")
        # without cosmwasm_1_2 a salted instantiate cannot be honoured: it must fail, not fall back to an unsalted instantiate
        ms = [n for n in A.find_all(call["body"], lambda n: isinstance(n, dict) and n.get("x") and n.get("k") == "match" and A.path_ids(A.strip_expr(n["expr"])) in (["salt"], [next((k for k, v in binds.items() if v == "salt"), "salt")]))]
        ok = False
        for mm in ms:
            for arm in mm["arms"]:
                if arm["pat"]["k"] == "tuplestruct" and arm["pat"]["path"]["segs"][-1]["id"] == "Some":
                    inst = A.find_all(arm["body"], lambda n: isinstance(n, dict) and n.get("x") and n.get("k") == "mcall" and n["method"] in ("instantiate_contract", "execute"))
                    errs = A.find_all(arm["body"], lambda n: isinstance(n, dict) and n.get("x") and n.get("k") == "call" and A.last_seg(n["func"]) == "Err")
                    ok = not inst and bool(errs)
        if not ok:
            ctx.violation("C12.instantiate_proxy", key + ["call", "salt-without-cw12"], C.where(m, call), "with_salt without cosmwasm_1_2 yields an error", "salted branch performs a chain operation or does not fail", STATEMENT,
                          "MtHelpers::emit_instantiate2_body (feature-off branch)")


CHAIN_OPS = {"execute", "instantiate_contract", "wasm_sudo", "execute_contract", "migrate_contract", "execute_multi", "sudo"}


def is_downcast_unwrap(cl):
    """|err| err.downcast().unwrap()   /   |err| err.downcast::<T>().unwrap()"""
    cl = A.strip_expr(cl)
    if cl["k"] != "closure" or len(cl["inputs"]) != 1 or cl["inputs"][0].get("k") != "ident":
        return False
    v = cl["inputs"][0]["name"]
    b = A.strip_expr(cl["body"])
    return b["k"] == "mcall" and b["method"] == "unwrap" and not b["args"] and A.strip_expr(b["recv"])["k"] == "mcall" \
        and A.strip_expr(b["recv"])["method"] == "downcast" and A.path_ids(A.strip_expr(b["recv"])["recv"]) == [v]


def check_error_maps(ctx, m, g, mt):
    """the error of every chain operation performed by generated multitest code is mapped by a plain downcast to the contract's
    error type (so that a handler error surfaces as the value the handler returned)"""
    key0 = [m.crate_key, "::".join(m.modpath + [m.name]), "error-map"]
    for imp in mt:
        if imp.get("k") != "impl":
            continue
        for f in imp["items"]:
            if f.get("k") != "fn" or not f.get("body"):
                continue
            for me in A.find_all(f["body"], lambda n: isinstance(n, dict) and n.get("x") and n.get("k") == "mcall" and n["method"] == "map_err" and len(n["args"]) == 1):
                r = A.strip_expr(me["recv"])
                if not (r["k"] == "mcall" and r["method"] in CHAIN_OPS):
                    continue
                ctx.inst("C12.error-map", distinct=(m.key, f["name"], r["method"]))
                if not is_downcast_unwrap(me["args"][0]):
                    ctx.violation("C12.error-map", key0 + [f["name"], r["method"]], C.where(m, f), f"{r['method']}(..).map_err(|err| err.downcast().unwrap())", "another error mapping", STATEMENT,
                                  "an error returned by a handler surfaces as a value of the contract's error type equal to the one returned")
            # a chain operation whose error is not mapped at all is fine only if the method returns the chain's own error type; the
            # generated proxies always map, so an unmapped `?` directly on a chain op is reported as unrecognised
            for op in A.find_all(f["body"], lambda n: isinstance(n, dict) and n.get("x") and n.get("k") == "try" and A.strip_expr(n["expr"])["k"] == "mcall" and A.strip_expr(n["expr"])["method"] in CHAIN_OPS):
                ctx.unrecognised("C12.error-map", key0 + [f["name"], "unmapped"], C.where(m, f), "chain operation error propagated without the downcast mapping")


def run(ctx):
    C.corpus_must_compile(ctx, "C12.compile")
    rrules.rule_flow_contracts(ctx, {"R6"})
    rrules.rule_r6_calls(ctx)
    n = 0
    for m, g in C.pairs(ctx):
        mt = mt_items(g)
        if mt is None:
            ctx.violation("C12.mt", [m.crate_key, m.name, "missing"], C.where(m), "mod mt (sylvia built with the mt feature)", "absent", STATEMENT)
            continue
        ctx.program(m.key)
        imps = proxy_impl(mt, m)
        ctx.inst("C12.impls", distinct=m.key)
        if len(imps) != 1:
            ctx.violation("C12.impls", [m.crate_key, m.name, "proxy-impl"], C.where(m), f"one impl of {m.name}Proxy", len(imps), STATEMENT)
            continue
        kinds = ["exec", "query", "sudo"] + (["migrate"] if m.kind == "contract" else [])
        H.check_helper_impl(ctx, "C12.proxy", m, g, imps[0], "mt-proxy", kinds, remote=False)
        for k in kinds:
            if m.handlers[k]:
                ctx.tag(f"mt.proxy.{k}")
        check_error_maps(ctx, m, g, mt)
        if m.kind == "contract":
            check_code_id(ctx, m, g, mt)
            check_instantiate_proxy(ctx, m, g, mt)
    witness.run_for(ctx, "C12")
    for t in ("mt.proxy.exec", "mt.proxy.query", "mt.proxy.sudo", "mt.proxy.migrate"):
        if ctx.tags.get(t, 0) == 0:
            ctx.violation("TAG", [t], "corpus", f"a corpus program exercising {t}", "none", "corpus adequacy (DESIGN-appendix A 32)")
    ctx.floor("C12.proxy", 200)
    ctx.floor("C12.code_id", 40)
    ctx.floor("C12.error-map", 60)
    return check.finish(
        ctx, "other",
        "structure only: every generated proxy method builds the message of its own handler through the constructor of that handler's variant with the parameters in order and performs exactly the cw-multi-test operation of its kind (ExecProxy -> execute_contract, query -> query_wasm_smart, sudo -> wasm_sudo, MigrateProxy -> migrate_contract) on the proxy's own address and app; CodeId::store_code boxes Contract::new(); instantiate defaults (funds &[], label \"Contract\", admin None, salt None) and with_* setters each replace one field; instantiate_contract / Instantiate2 receive code id, sender, message, funds, label, admin, salt; R6 flow contracts over sylvia/src/multitest.rs (ExecProxy / MigrateProxy new, with_funds, call incl. error downcast). By T3 the chain operations serialise the message with the serde impl C01 describes, so proxy path and raw-JSON path hand identical bytes and options to the same chain function; the chain itself is NOT analysed, histories are not enumerated",
        "static structural analysis (translation validation of generated proxies + field-provenance over the runtime); chain semantics of cw-multi-test are outside static reach and are trusted (T3)",
        ["cw-multi-test chain semantics; equality of chain state over call sequences is reduced to 'same call, same bytes, same options' and not decided beyond that",
         "equality of error values beyond 'downcast to the contract error type is attempted first'"])
