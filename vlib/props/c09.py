"""C09 — reply data is extracted according to the declared data mode."""
from .. import check, witness
from . import common as C
from . import reply as R
from .common import A, G, M
from .c07 import name_to_const

STATEMENT = "the data parameter of a success method is produced according to the documented table of #[sv::data(..)] modes; every failure precedes the handler call"

# documented table (sylvia-derive/src/lib.rs, `sv::data`)
TABLE = {
    (True, True, False): None,                                                            # raw, opt: forwarded as Option<Binary>
    (True, False, False): {"decode": "none", "inner_json": False, "absent": "Err", "wrap": "value"},
    (False, True, True): {"decode": "instantiate", "inner_json": False, "absent": "None", "wrap": "Some"},
    (False, False, True): {"decode": "instantiate", "inner_json": False, "absent": "Err", "wrap": "value"},
    (False, True, False): {"decode": "execute", "inner_json": True, "absent": "None", "wrap": "Some"},
    (False, False, False): {"decode": "execute", "inner_json": True, "absent": "Err", "wrap": "value"},
}
MODE_NAME = {(True, True, False): "raw-opt", (True, False, False): "raw", (False, True, True): "inst-opt", (False, False, True): "inst",
             (False, True, False): "opt", (False, False, False): "typed"}


def check_item(ctx, m, g):
    key0 = [m.crate_key, "::".join(m.modpath + [m.name])]
    table, order, _ = M.reply_table(m)
    try:
        dr = R.analyse_dispatch_reply(g, m.name)
        sub = R.analyse_submsg(g)
    except G.Unrecognised as e:
        ctx.unrecognised("C09.mode", key0, C.where(m), str(e))
        return
    if dr is None or sub is None:
        return
    n2c = name_to_const(sub)
    for name in order:
        ent = table[name]
        cs = n2c.get(name) or set()
        const = next(iter(cs)) if len(cs) == 1 else None
        arms = dr["arms"].get(const) if const else None
        if arms is None:
            continue
        s = ent["success"]
        ok = arms["ok"]
        key = key0 + [name]
        where = C.where(m, {"ln": ok.get("ln")})
        if s is None:
            # no success method: no data handling may appear
            if ok["kind"] == "handler" and ok.get("data") is not None:
                ctx.violation("C09.mode", key + ["unexpected-data"], where, "no data extraction without a success method", ok["data"], STATEMENT)
            continue
        ctx.inst("C09.mode", distinct=(m.key, name))
        dm = M.data_mode(s)
        if ok["kind"] != "handler":
            continue   # C07 reports
        if dm is None:
            ctx.tag("data.none")
            if ok["data"] is not None or any(a and a[0] in ("data",) or a == ("field", ("ok-resp",), "data") for a in ok["args"]):
                ctx.violation("C09.mode", key + ["no-marker"], where, "no data argument without #[sv::data]", ok["args"], STATEMENT, "ReplyVariant::as_data_field")
            continue
        k = (dm["raw"], dm["opt"], dm["instantiate"])
        ctx.tag("data." + MODE_NAME.get(k, "invalid"))
        want = TABLE.get(k, "invalid")
        if want == "invalid":
            continue
        if want is None:
            if ok["data"] is not None or not ok["args"] or ok["args"][0] != ("field", ("ok-resp",), "data"):
                ctx.violation("C09.mode", key + ["raw-opt"], where, "data forwarded untouched as Option<Binary>", {"stmt": ok["data"], "arg0": ok["args"][:1]}, STATEMENT, "DataField::emit_data_deserialization")
        else:
            if ok["data"] != want:
                ctx.violation("C09.mode", key + [MODE_NAME[k]], where, want, ok["data"], STATEMENT, "DataField::emit_data_deserialization")
            if not ok["args"] or ok["args"][0][0] != "data":
                ctx.violation("C09.mode", key + ["arg0"], where, "first argument after ctx is the extracted data", ok["args"][:1], STATEMENT)
        if not ok["resp_destructured"]:
            ctx.violation("C09.mode", key + ["source"], where, "data taken from the sub-message response", "response not destructured", STATEMENT)
        ctx.sample({"program": m.key, "name": name, "method": s.fn, "mode": MODE_NAME[k], "found": ok["data"]})


def run(ctx):
    C.corpus_must_compile(ctx, "C09.compile")
    for m, g in C.pairs(ctx, want_kind="contract"):
        if not m.replies_feature:
            continue
        ctx.program(m.key)
        check_item(ctx, m, g)
    witness.run_for(ctx, "C09")
    for t in ("data.raw-opt", "data.raw", "data.inst-opt", "data.inst", "data.opt", "data.typed", "data.none"):
        if ctx.tags.get(t, 0) == 0:
            ctx.violation("TAG", [t], "corpus", f"a corpus program exercising {t}", "none", "corpus adequacy (DESIGN-appendix A 24)")
    C.corpus_adequacy(ctx, enforce=False)
    ctx.floor("C09.mode", 30)
    return check.finish(
        ctx, "translation_validation",
        "for every success method: the statements between the SubMsgResponse destructuring and the handler call are classified as (envelope decoder, inner JSON, on-absent, wrap) and compared with the documented table; every decoding step's error is propagated with `?`/`return Err` and the handler call is the block's tail (not invoked on failure); the decoder is applied to the received bytes and the forwarded value is the decoded one",
        "translation validation; cw_utils::parse_*_response_data and from_json are trusted (T3)",
        ["correctness of cw_utils::parse_execute_response_data / parse_instantiate_response_data and from_json (T3)",
         "an execute envelope that is present but carries no data is an error in every typed mode (documentation speaks only of absent sub-message data)"])
