"""C10 — remote helpers build messages the target contract accepts and routes identically."""
from .. import check, rrules
from . import common as C
from . import helpers as H
from .common import A, G, M

STATEMENT = "executor / querier helpers build the same-named message with equal arguments, addressed to the handle's contract with the builder's funds; instantiate builder carries code id, args, admin, label, funds, salt"


def sv_trait_impls(g, trait_name):
    return [i for i in g.sv if i.get("k") == "impl" and i.get("trait") and i["trait"]["path"]["segs"][-1]["id"] == trait_name]


def check_instantiate_builder(ctx, m, g):
    key = [m.crate_key, "::".join(m.modpath + [m.name]), "instantiate_builder"]
    hs = m.handlers["instantiate"]
    if not hs:
        return
    h = hs[0]
    imps = [i for i in g.sv if i.get("k") == "impl" and i.get("trait") and i["trait"]["path"]["segs"][-1]["id"].endswith("InstantiateBuilder")
            and i["self_ty"]["k"] == "path" and i["self_ty"]["path"]["segs"][-1]["id"] == "InstantiateBuilder"]
    ctx.inst("C10.ibuilder", distinct=m.key)
    if len(imps) != 1:
        ctx.violation("C10.ibuilder", key + ["impl"], C.where(m), "one <Contract>InstantiateBuilder impl", len(imps), STATEMENT, "InstantiateBuilder::emit")
        return
    fns = [f for f in imps[0]["items"] if f.get("k") == "fn"]
    if len(fns) != 1:
        ctx.violation("C10.ibuilder", key + ["fns"], C.where(m, imps[0]), "one constructor function", [f["name"] for f in fns], STATEMENT)
        return
    f = fns[0]
    params = [(i["pat"].get("name"), A.type_str(i["ty"])) for i in f["inputs"] if not i.get("recv")]
    # the first parameter is the code id (whatever the generator calls it; it must not be one of the handler's own argument names,
    # which would not even compile), the others are the handler's arguments in order
    cid = params[0][0] if params else None
    want_p = [(cid, "u64")] + [(p["name"], p["ty_s"]) for p in h.params]
    if [(n, A.compact(t)) for n, t in params] != [(n, A.compact(t)) for n, t in want_p] or cid in [p["name"] for p in h.params]:
        ctx.violation("C10.ibuilder", key + ["params"], C.where(m, f), [("<code id>", "u64")] + want_p[1:], params, STATEMENT)
    stmts, tail = A.block_parts(f["body"])
    env = {}
    ok = True
    step = []
    for s in stmts:
        if s["k"] == "let" and s["pat"]["k"] == "ident" and s["init"] is not None:
            init = A.strip_expr(s["init"])
            if init["k"] == "call" and A.path_ids(init["func"])[-2:] == ["InstantiateMsg", "new"]:
                args = [A.path_ids(A.strip_expr(a)) for a in init["args"]]
                if args != [[p["name"]] for p in h.params]:
                    ctx.violation("C10.ibuilder", key + ["msg-args"], C.where(m, f), [p["name"] for p in h.params], args, STATEMENT)
                env[s["pat"]["name"]] = "msg"
                step.append("new")
                continue
            if init["k"] == "try":
                c = A.strip_expr(init["expr"])
                if c["k"] == "call" and A.last_seg(c["func"]) == "to_json_binary" and len(c["args"]) == 1:
                    a = A.strip_expr(c["args"][0])
                    a = A.strip_expr(a["expr"]) if a["k"] == "ref" else a
                    ids = A.path_ids(a)
                    if ids and env.get(ids[0]) == "msg":
                        env[s["pat"]["name"]] = "encoded"
                        step.append("encode")
                        continue
        ok = False
    t = A.strip_expr(tail) if tail else None
    fin = False
    if t and t["k"] == "call" and A.last_seg(t["func"]) == "Ok" and len(t["args"]) == 1:
        b = A.strip_expr(t["args"][0])
        if b["k"] == "call" and A.path_ids(b["func"])[-2:] == ["InstantiateBuilder", "new"] and len(b["args"]) == 2:
            a0 = A.path_ids(A.strip_expr(b["args"][0]))
            a1 = A.path_ids(A.strip_expr(b["args"][1]))
            fin = bool(a0) and env.get(a0[0]) == "encoded" and a1 == [cid]
    if not ok or step != ["new", "encode"] or not fin:
        ctx.violation("C10.ibuilder", key + ["body"], C.where(m, f), "InstantiateMsg::new(params) -> to_json_binary(&msg)? -> InstantiateBuilder::new(msg, code_id)", {"steps": step, "final": fin}, STATEMENT,
                      "InstantiateBuilder::emit")


def run(ctx):
    C.corpus_must_compile(ctx, "C10.compile")
    rrules.rule_flow_contracts(ctx, {"R4", "R5"})
    for m, g in C.pairs(ctx):
        ctx.program(m.key)
        ex = sv_trait_impls(g, "Executor")
        qu = sv_trait_impls(g, "Querier")
        want_n = 1 if m.kind == "contract" else 2
        ctx.inst("C10.impls", distinct=m.key)
        if len(ex) != want_n or len(qu) != want_n:
            ctx.violation("C10.impls", [m.crate_key, m.name, "count"], C.where(m), f"{want_n} Executor and {want_n} Querier impls", {"Executor": len(ex), "Querier": len(qu)}, STATEMENT)
        for i, imp in enumerate(ex):
            H.check_helper_impl(ctx, "C10.executor", m, g, imp, f"Executor#{i}", ["exec"], remote=True)
        for i, imp in enumerate(qu):
            H.check_helper_impl(ctx, "C10.querier", m, g, imp, f"Querier#{i}", ["query"], remote=True)
        if m.kind == "contract":
            check_instantiate_builder(ctx, m, g)
        for h in m.handlers["exec"][:1]:
            ctx.sample({"program": m.key, "executor_impls": len(ex), "querier_impls": len(qu)}, cap=5)
    from .. import witness
    witness.run_for(ctx, "C10")
    C.corpus_adequacy(ctx, enforce=False)
    ctx.floor("C10.executor", 100)
    ctx.floor("C10.querier", 100)
    ctx.floor("C10.ibuilder", 40)
    ctx.floor("R4.flow", 13)
    ctx.floor("R5.flow", 6)
    return check.finish(
        ctx, "translation_validation",
        "per item: every Executor / Querier impl has exactly one method per exec / query handler that calls the constructor of that handler's variant (constructor->variant read from the message type's inherent impl) with its parameters in order, through this item's own Api accessor of the right kind, and hands it to the Ready builder (self.contract(), self.funds(), to_json_binary(&msg)?) resp. query_wasm_smart(self.contract(), &query) with the declared response type; the InstantiateBuilder constructor; R4/R5 flow contracts over sylvia/src (builder state machine, Remote::executor/querier/update_admin/clear_admin, InstantiateBuilder::build/build2)",
        "translation validation + field-provenance rules over the runtime source; together with C01(f), C02 and C03(d) this is 'routes to the same method with equal arguments'",
        ["encoding of argument values is serde's (T2)", "QuerierWrapper::query_wasm_smart / WasmMsg semantics (T3)"])
