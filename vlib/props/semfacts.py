"""Order-insensitive semantic facts of one corpus item's generated code (for the C14 differential)."""
import json

from . import common as C
from . import entry as E
from . import helpers as H
from . import reply as R
from . import wrapper as W
from .c07 import name_to_const
from .c16 import response_pairs
from .common import A, G, M, ENUM_KINDS, KINDS


def clean(x):
    """JSON-able, order-normalised copy without positional noise"""
    if isinstance(x, dict):
        return {str(k): clean(v) for k, v in sorted(x.items(), key=lambda kv: str(kv[0])) if k not in ("ln", "fn", "node", "span", "body", "ret")}
    if isinstance(x, (list, tuple)):
        return [clean(v) for v in x]
    if isinstance(x, set):
        return sorted(clean(v) for v in x)
    return x


def enum_facts(ctx, m, g, kind):
    info = C.enum_info(ctx, m, g, kind, "C14.facts")
    if info is None:
        return {"unrecognised": True}
    sf = g.serde(info.ty)
    ser = sf["ser"]["variants"] if sf["ser"] else {}
    out = {"wire": {}, "arms": {}, "params": sorted(p["name"] for p in info.ty["generics"]["params"]),
           "VARIANTS": sorted(sf["de"]["VARIANTS"] or []) if sf["de"] else None}
    variants = {v["name"]: v for v in info.ty["variants"]}
    for a in info.arms:
        if a.get("phantom"):
            out["arms"]["_Phantom"] = "err"
            continue
        vn = a["variant"]
        wire = (ser.get(vn) or {}).get("wire")
        fields = {f["name"]: A.type_str(f["ty"]) for f in variants[vn]["fields"]} if vn in variants else None
        out["wire"][str(wire)] = {"handler": a["handler"], "fields": fields,
                                  "args": [a["binds"].get(b) if b else None for b in a["args"]], "ctx_ok": a["ctx_ok"], "adapter": a["adapter"],
                                  "attrs": sorted(x["path"] + ":" + A.compact(x["tokens"]) for x in variants[vn]["attrs"]) if vn in variants else None,
                                  "field_attrs": {f["name"]: sorted(x["path"] + ":" + A.compact(x["tokens"]) for x in f["attrs"]) for f in variants[vn]["fields"]} if vn in variants else None}
    out["type_attrs"] = sorted(x["path"] + ":" + A.compact(x["tokens"]) for x in info.ty["attrs"])
    out["list"] = sorted(g.messages_list(kind) or [])
    return out


def struct_facts(m, g, kind):
    ty = g.msg_type(kind)
    if ty is None:
        return None
    imp, f = G.dispatch_fn(g, ty["name"])
    calls = G.contract_calls(f["body"]) if f else []
    return {"fields": {fl["name"]: A.type_str(fl["ty"]) for fl in ty["fields"]}, "calls": [c["method"] for c in calls],
            "params": sorted(p["name"] for p in ty["generics"]["params"]),
            "type_attrs": sorted(x["path"] + ":" + A.compact(x["tokens"]) for x in ty["attrs"])}


def wrapper_facts(m, g, kind):
    wf = W.analyse(m, g, kind)
    from .c02 import classify_wrapper_arm
    arms = {}
    if wf.dispatch:
        extra, mt = G.dispatch_match(wf.dispatch)
        for a in mt["arms"]:
            vn = a["pat"]["path"]["segs"][-1]["id"]
            arms[vn] = classify_wrapper_arm(a["body"])
    return {"variants": {k: {kk: vv for kk, vv in v.items()} for k, v in wf.variants.items()},
            "attempts": sorted((a["variant"], str(a["list"])) for a in (wf.de["attempts"] if wf.de else [])),
            "error_lists": sorted(str(l) for l in (wf.de["error_lists"] or [])) if wf.de else None,
            "const_lists": sorted(str(l) for l in (wf.const_lists or [])),
            "any_of": sorted(wf.any_of or []), "responses": sorted(wf.responses or []) if wf.responses else None,
            "froms": sorted((f["src"] or "", f["variant"] or "") for f in wf.froms), "arms": arms}


def reply_facts(m, g):
    dr = R.analyse_dispatch_reply(g, m.name)
    sub = R.analyse_submsg(g)
    if dr is None or sub is None:
        return None
    n2c = name_to_const(sub)
    out = {}
    for name, cs in n2c.items():
        const = next(iter(cs)) if len(cs) == 1 else None
        arms = dr["arms"].get(const) if const else None
        builders = {}
        for recv, ms in sub["impls"].items():
            nf = ms.get(name)
            if nf:
                f = dict(nf["fields"])
                f.pop("id", None)      # the numeric id / constant may differ between orders
                builders[recv] = {"params": [t for _, t in nf["params"]], "payload": {"mode": nf["payload"]["mode"], "n": len(nf["payload"]["names"])} if nf["payload"] else None,
                                  "fields": f, "rest": nf["rest"]}
        def arm_nf(a):
            if a is None:
                return None
            d = {k: v for k, v in a.items() if k in ("kind", "method", "ctx", "args", "data", "events", "err_into")}
            if a.get("payload"):
                d["payload"] = {"mode": a["payload"]["mode"], "n": len(a["payload"]["names"])}
            return d
        out[name] = {"ok": arm_nf(arms["ok"]) if arms else None, "err": arm_nf(arms["err"]) if arms else None, "builders": builders}
    return {"names": out, "n_arms": len(dr["arms"]), "default": dr["default"]}


def entry_facts(m, g):
    out = {"entry_points": None, "mt": None}
    if g.entry_points is not None:
        eps = {}
        for f in g.entry_points:
            if f.get("k") == "fn":
                ep = E.analyse_entry_fn(f)
                b = dict(ep["body"])
                eps[f["name"]] = {"params": ep["params"], "msg": (ep["msg"] or {}).get("acc"), "nf": b}
        out["entry_points"] = eps
    mt, imp = E.mt_contract_impl(g)
    if imp is not None:
        ms = {}
        for f in imp["items"]:
            if f.get("k") == "fn":
                nf = E.analyse_mt_contract_method(f)
                nf["from_json"] = [x["ty_s"] for x in nf.get("from_json", [])]
                ms[f["name"]] = nf
        out["mt"] = ms
    return out


def helper_facts(m, g):
    out = {}
    groups = {"Executor": [i for i in g.sv if i.get("k") == "impl" and i.get("trait") and i["trait"]["path"]["segs"][-1]["id"] == "Executor"],
              "Querier": [i for i in g.sv if i.get("k") == "impl" and i.get("trait") and i["trait"]["path"]["segs"][-1]["id"] == "Querier"]}
    mt = g.one("mod", "mt")
    if mt:
        groups["Proxy"] = [i for i in mt["items"] if i.get("k") == "impl" and i.get("trait") and i["trait"]["path"]["segs"][-1]["id"] == m.name + "Proxy"]
    for label, imps in groups.items():
        for n, imp in enumerate(sorted(imps, key=lambda i: A.type_str(i["self_ty"]))):
            ms = {}
            for f in imp["items"]:
                if f.get("k") == "fn":
                    try:
                        nf = H.classify_helper(f)
                        ms[f["name"]] = {"acc": nf["msg"]["acc"], "ctor": nf["msg"]["ctor"], "args": nf["msg"]["args"], "op": nf["op"], "params": [t for _, t in nf["params"]]}
                    except G.Unrecognised as e:
                        ms[f["name"]] = {"unrecognised": str(e)}
            out[f"{label}#{n}"] = ms
    return out


def semfacts(ctx, m, g):
    out = {}
    for kind in ENUM_KINDS:
        try:
            out["enum." + kind] = enum_facts(ctx, m, g, kind)
        except G.Unrecognised as e:
            out["enum." + kind] = {"unrecognised": str(e)}
    if m.kind == "contract":
        for kind in ("instantiate", "migrate"):
            try:
                out["struct." + kind] = struct_facts(m, g, kind)
            except G.Unrecognised as e:
                out["struct." + kind] = {"unrecognised": str(e)}
        for kind in ENUM_KINDS:
            try:
                out["wrapper." + kind] = wrapper_facts(m, g, kind)
            except G.Unrecognised as e:
                out["wrapper." + kind] = {"unrecognised": str(e)}
        try:
            out["reply"] = reply_facts(m, g) if m.replies_feature else None
        except G.Unrecognised as e:
            out["reply"] = {"unrecognised": str(e)}
        try:
            out["entry"] = entry_facts(m, g)
        except G.Unrecognised as e:
            out["entry"] = {"unrecognised": str(e)}
    try:
        out["helpers"] = helper_facts(m, g)
    except G.Unrecognised as e:
        out["helpers"] = {"unrecognised": str(e)}
    try:
        qt = g.msg_type("query")
        imps = g.trait_impls("QueryResponses", qt["name"]) if qt else []
        # the placeholder entry of generic enums lists the type parameters in first-use order (free under the property)
        out["responses"] = sorted(p for p in response_pairs(imps[0]) if not p[0].startswith("_")) if imps else None
    except G.Unrecognised as e:
        out["responses"] = {"unrecognised": str(e)}
    return json.loads(json.dumps(clean(out), sort_keys=True, default=str))
