"""C13 — the annotated source is passed through intact and expansion is deterministic."""
from .. import check, grules, util
from . import common as C
from .common import A, G, M

STATEMENT = "contract/interface re-emit the input with only sv::* attributes (item + methods) and all parameter attributes removed; entry_points re-emits its input unchanged"


def norm_lit(s):
    """canonical form of string literals: compare by *value* (`r" x"` == `" x"`, `\\'` == `'`)"""
    import re
    if s.startswith('r') and '"' in s and (s[1] in '#"'):
        body = s[s.index('"') + 1:s.rindex('"')]
        return "str:" + body
    if s.startswith('"') and s.endswith('"'):
        body = s[1:-1]
        out = []
        i = 0
        while i < len(body):
            ch = body[i]
            if ch == "\\" and i + 1 < len(body):
                n = body[i + 1]
                simple = {"n": "\n", "t": "\t", "r": "\r", "0": "\0", "\\": "\\", '"': '"', "'": "'"}
                if n in simple:
                    out.append(simple[n])
                    i += 2
                    continue
                if n == "x" and i + 3 < len(body):
                    out.append(chr(int(body[i + 2:i + 4], 16)))
                    i += 4
                    continue
                if n == "u":
                    m = re.match(r"u\{([0-9a-fA-F_]+)\}", body[i + 1:])
                    if m:
                        out.append(chr(int(m.group(1).replace("_", ""), 16)))
                        i += 1 + len(m.group(0))
                        continue
                if n == "\n":
                    # line continuation: skip the newline and leading whitespace
                    i += 2
                    while i < len(body) and body[i] in " \t\n\r":
                        i += 1
                    continue
            out.append(ch)
            i += 1
        return "str:" + "".join(out)
    return s


def tokens_of(text, tag):
    tt = util.syn_tokens_text(text, tag + ".rs")["tt"]
    return tt


def flat(tt):
    out = []
    for t in tt:
        if t["t"] == "group":
            close = {"(": ")", "[": "]", "{": "}", "": ""}[t["d"]]
            if t["d"]:
                out.append(t["d"])
            out.extend(flat(t["c"]))
            if close:
                out.append(close)
        elif t["t"] == "lit":
            out.append(norm_lit(t["s"]))
        else:
            out.append(t["s"])
    return out


def attr_path(group):
    """path string of an attribute's bracket group content: `sv :: msg (..)` -> 'sv::msg'"""
    segs = []
    c = group["c"]
    i = 0
    while i < len(c):
        if c[i]["t"] == "ident":
            segs.append(c[i]["s"])
            i += 1
            if i + 1 < len(c) and c[i]["t"] == "punct" and c[i]["s"] == ":" and c[i + 1]["t"] == "punct" and c[i + 1]["s"] == ":":
                i += 2
                continue
        break
    return "::".join(segs)


def split_leading_attrs(tt):
    """-> ([ (hash_tok, group_tok) ... ], rest)"""
    attrs = []
    i = 0
    while i + 1 < len(tt) and tt[i]["t"] == "punct" and tt[i]["s"] == "#" and tt[i + 1]["t"] == "group" and tt[i + 1]["d"] == "[":
        attrs.append((tt[i], tt[i + 1]))
        i += 2
    return attrs, tt[i:]


def is_sv(path):
    p = path.split("::")
    return len(p) == 2 and p[0] == "sv" and p[1] in M.SV_KNOWN


def strip_attr_positions(tokens, pred):
    """remove `# [..]` pairs at this nesting level for which pred(path) holds"""
    out = []
    i = 0
    while i < len(tokens):
        t = tokens[i]
        if t["t"] == "punct" and t["s"] == "#" and i + 1 < len(tokens) and tokens[i + 1]["t"] == "group" and tokens[i + 1]["d"] == "[":
            if pred(attr_path(tokens[i + 1])):
                i += 2
                continue
        out.append(t)
        i += 1
    return out


def spec_strip_body(body_tokens):
    """documented stripping inside the impl/trait body: sv::* attributes at item level; all attributes on fn parameters"""
    toks = strip_attr_positions(body_tokens, is_sv)
    out = []
    i = 0
    while i < len(toks):
        t = toks[i]
        out.append(t)
        if t["t"] == "ident" and t["s"] == "fn":
            # name, optional generics, then the parameter group
            j = i + 1
            depth = 0
            while j < len(toks):
                tj = toks[j]
                if tj["t"] == "punct" and tj["s"] == "<":
                    depth += 1
                elif tj["t"] == "punct" and tj["s"] == ">":
                    depth -= 1
                elif tj["t"] == "group" and tj["d"] == "(" and depth == 0:
                    break
                out.append(tj)
                j += 1
            if j < len(toks):
                g = dict(toks[j])
                g["c"] = strip_attr_positions(g["c"], lambda p: True)
                out.append(g)
                i = j + 1
                continue
            i = j
            continue
        i += 1
    return out


def norm_params(tt):
    """drop a trailing comma of every fn parameter list (re-emission through syn's Punctuated does not keep it; it has no meaning)"""
    out = []
    i = 0
    while i < len(tt):
        t = tt[i]
        if t["t"] == "group":
            t = dict(t)
            t["c"] = norm_params(t["c"])
            out.append(t)
            i += 1
            continue
        out.append(t)
        if t["t"] == "ident" and t["s"] == "fn":
            j = i + 1
            depth = 0
            while j < len(tt):
                tj = tt[j]
                if tj["t"] == "punct" and tj["s"] == "<":
                    depth += 1
                elif tj["t"] == "punct" and tj["s"] == ">":
                    depth -= 1
                elif tj["t"] == "group" and tj["d"] == "(" and depth == 0:
                    g2 = dict(tj)
                    c = norm_params(g2["c"])
                    if c and c[-1]["t"] == "punct" and c[-1]["s"] == ",":
                        c = c[:-1]
                    g2["c"] = c
                    out.append(g2)
                    j += 1
                    break
                elif tj["t"] == "group":
                    break
                out.append(tj)
                j += 1
            i = j
            continue
        i += 1
    return out


def check_item(ctx, m, g):
    key = [m.crate_key, "::".join(m.modpath + [m.name])]
    pr = g.probes
    if "src" not in pr or "ct" not in pr:
        ctx.violation("C13.probes", key + ["missing"], C.where(m), "src and ct probe captures", sorted(pr), "probe splice lost")
        return
    src = tokens_of(pr["src"], "src")
    attrs, rest = split_leading_attrs(src)
    paths = [attr_path(a[1]) for a in attrs]
    macro_word = m.kind
    # ---- entry_points pass-through
    if m.entry_points:
        ctx.inst("C13.entry_points", distinct=m.key)
        if "ep" not in pr:
            ctx.violation("C13.entry_points", key + ["missing"], C.where(m), "ep probe capture", "absent", STATEMENT)
        else:
            # expected: src minus the attributes up to and including the ep probe
            idx = next((i for i, p in enumerate(paths) if p == "vprobe::capture" and "ep_" in "".join(flat(attrs[i][1]["c"]))), None)
            if idx is None:
                ctx.violation("C13.entry_points", key + ["splice"], C.where(m), "ep probe in the source capture", paths, STATEMENT)
            else:
                # the attribute directly before the ep probe must be entry_points; everything else stays in place
                if idx == 0 or paths[idx - 1].split("::")[-1] != "entry_points":
                    ctx.violation("C13.entry_points", key + ["prefix"], C.where(m), "entry_points directly before its probe", paths[:idx + 1], STATEMENT)
                exp = []
                for k, a in enumerate(attrs):
                    if k in (idx - 1, idx):
                        continue
                    if paths[k] == "vprobe::capture" and "src_" in "".join(flat(a[1]["c"])):
                        continue
                    exp += ["#"] + flat([a[1]])
                exp += flat(norm_params(rest))
                got = flat(norm_params(tokens_of(pr["ep"], "ep")))
                if exp != got:
                    d = first_diff(exp, got)
                    ctx.violation("C13.entry_points", key + ["tokens"], C.where(m), f"input re-emitted unchanged (…{' '.join(exp[max(0, d - 6):d + 6])}…)", f"…{' '.join(got[max(0, d - 6):d + 6])}…", STATEMENT,
                                  "lib.rs entry_points_impl (#input #expanded)")
    # ---- contract / interface pass-through
    ctx.inst("C13.pass-through", distinct=m.key)
    kept = []
    for (h, grp), p in zip(attrs, paths):
        last = p.split("::")[-1]
        if p == "vprobe::capture" or (last in ("contract", "interface", "entry_points") and p.split("::")[0] != "sv"):
            continue
        if is_sv(p):
            ctx.tag("strip.item-attr")
            continue
        kept.append(grp)
    if len(rest) < 1 or rest[-1]["t"] != "group" or rest[-1]["d"] != "{":
        ctx.unrecognised("C13.pass-through", key, C.where(m), "item does not end with a brace group")
        return
    body = dict(rest[-1])
    before = sum(1 for _ in A.find_all(body, lambda n: isinstance(n, dict) and n.get("t") == "punct" and n.get("s") == "#"))
    body["c"] = spec_strip_body(body["c"])
    exp = []
    if m.kind == "contract":
        exp += ["#", "[", "allow", "(", "clippy", ":", ":", "new_without_default", ")", "]"]
    for grp in kept:
        exp += ["#"] + flat([grp])
    exp += flat(norm_params(rest[:-1])) + flat(norm_params([body]))
    got = flat(norm_params(tokens_of(pr["ct"], "ct")))
    if exp != got:
        d = first_diff(exp, got)
        ctx.violation("C13.pass-through", key + ["tokens"], C.where(m), f"spec-strip(input) (…{' '.join(exp[max(0, d - 8):d + 8])}…)", f"…{' '.join(got[max(0, d - 8):d + 8])}…", STATEMENT,
                      "fold.rs StripInput / lib.rs contract_impl, interface_impl")
    if m.other_methods:
        ctx.tag("item.helper-methods")
    if any(p["attrs"] for k in m.handlers for h in m.handlers[k] for p in h.params):
        ctx.tag("strip.arg-attr")
    ctx.sample({"program": m.key, "tokens_compared": len(exp), "kept_item_attrs": [attr_path(gp) for gp in kept]}, cap=4)


def first_diff(a, b):
    for i, (x, y) in enumerate(zip(a, b)):
        if x != y:
            return i
    return min(len(a), len(b))


def run(ctx):
    for m, g in C.pairs(ctx, include_noop=True):
        ctx.program(m.key)
        check_item(ctx, m, g)
        st = C.generated_statics(g)
        ctx.inst("C13.no-generated-static", distinct=m.key)
        if st:
            ctx.violation("C13.no-generated-static", [m.crate_key, "::".join(m.modpath + [m.name]), "static"], C.where(m),
                          "the macro output defines no `static` beyond the input's (expansion is a pure function of the input; statics in generic impls are shared by all instantiations)", st, STATEMENT)
        if m.noop:
            ctx.tag("contract.with-macro-argument")
    grules.rule_g3(ctx)
    # positive fixture for G3 (expected count on the tree is zero)
    fctx = check.Ctx("C13-fixture", ctx.tier, ctx.seed)
    saved = dict(grules._cache)
    grules._cache.clear()
    grules._cache["asts"] = {"fixture.rs": util.syn_ast_text("use std::collections::HashMap; static mut X: u32 = 0; fn f() { let t = std::time::Instant::now(); }")}
    grules.rule_g3(fctx)
    grules._cache.clear()
    grules._cache.update(saved)
    if len(fctx.violations) < 3:
        ctx.violation("FIXTURE", ["G3"], "checker", "G3 fires on HashMap / static mut / std::time fixture", len(fctx.violations), "the rule lost its ability to fire")
    ctx.inst("fixture")
    ctx.floor("C13.pass-through", 50)
    ctx.floor("C13.entry_points", 25)
    return check.finish(
        ctx, "translation_validation",
        "probe attributes capture the token stream each sylvia macro received and re-emitted (before any further expansion); ct-capture must equal an independent implementation of the documented stripping rule applied to the src-capture (plus the one added lint allowance), ep-capture must equal the src-capture minus the entry_points attribute, compared token by token; G3: the macro crate uses no source of run-to-run variation (imports, paths, statics, macros, unreviewed dependencies)",
        "translation validation of macro pass-through on real token streams + effect rule over the generator",
        ["determinism of the reviewed dependencies (syn, quote, proc-macro2, convert_case, proc-macro-error, proc-macro-crate, itertools) is by review, recorded in grules.REVIEWED_DEPS"])
