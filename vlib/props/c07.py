"""C07 — reply routing honours the declared handler and outcome."""
from .. import check, witness
from . import common as C
from . import reply as R
from .common import A, G, M

STATEMENT = "dispatch_reply routes (id, outcome) to the declared method with the documented context and arguments; uncovered outcomes pass through; unknown ids are errors"

CTX_SUCCESS = [("param", "deps"), ("param", "env"), ("reply", "gas_used"), ("field", ("ok-resp",), "events"), ("field", ("ok-resp",), "msg_responses")]
CTX_OTHER = [("param", "deps"), ("param", "env"), ("reply", "gas_used"), ("empty-vec",), ("empty-vec",)]


def payload_count(h, role):
    """number of payload parameters of method h used in `role` (success/error/always)"""
    if role == "success":
        return len(h.params) - (1 if M.data_mode(h) is not None else 0)
    return len(h.params) - 1


def payload_args_ok(args, n):
    if n == 1 and args in ([("payload-raw",)], [("payload-json", "single")], [("payload-json", 0)]):
        return True
    return args == [("payload-json", i) for i in range(n)]


def name_to_const(sub):
    """handler name -> id constant, read from the SubMsg builder bodies (no casing rule is guessed)."""
    out = {}
    for recv, ms in sub["impls"].items():
        for name, nf in ms.items():
            idf = nf["fields"].get("id")
            c = idf[1][-1] if idf and idf[0] == "path" else None
            out.setdefault(name, set()).add(c)
    return out


def check_item(ctx, m, g):
    key0 = [m.crate_key, "::".join(m.modpath + [m.name])]
    table, order, conflicts = M.reply_table(m)
    try:
        dr = R.analyse_dispatch_reply(g, m.name)
        sub = R.analyse_submsg(g)
    except G.Unrecognised as e:
        ctx.unrecognised("C07.table", key0, C.where(m), str(e))
        return
    if dr is None or sub is None:
        ctx.violation("C07.table", key0 + ["missing"], C.where(m), "fn dispatch_reply and trait SubMsgMethods", f"dispatch_reply={dr is not None} SubMsgMethods={sub is not None}", STATEMENT, "Reply::emit")
        return
    ctx.inst("C07.skeleton", distinct=m.key)
    if not dr["destructured"]:
        ctx.violation("C07.skeleton", key0 + ["destructure"], C.where(m, dr["fn"]), "Reply destructured into id, payload, gas_used, result", "not", STATEMENT)
    pn = [p[0] for p in dr["params"]]
    if pn != ["deps", "env", "msg", "contract"]:
        ctx.violation("C07.skeleton", key0 + ["params"], C.where(m, dr["fn"]), ["deps", "env", "msg", "contract"], pn, STATEMENT)
    d = dr["default"]
    if d is None or not d["is_err"] or d["handler_calls"]:
        ctx.violation("C07.skeleton", key0 + ["unknown-id"], C.where(m, dr["fn"]), "default arm returning an error and calling no handler", d, STATEMENT, "Reply::emit_dispatch")
    n2c = name_to_const(sub)
    if len(dr["arms"]) != len(table):
        ctx.violation("C07.table", key0 + ["arm-count"], C.where(m, dr["fn"]), f"{len(table)} id arms (one per handler name: {sorted(table)})", sorted(dr["arms"]), STATEMENT, "ReplyVariants::as_reply_data")
    for name in order:
        ent = table[name]
        key = key0 + [name]
        cs = n2c.get(name)
        if not cs or len(cs) != 1 or None in cs:
            ctx.violation("C07.table", key + ["id-const"], C.where(m), f"builder `{name}` stamping one id constant", cs, STATEMENT, "ReplyData::emit_submsg_setter")
            continue
        const = next(iter(cs))
        arms = dr["arms"].get(const)
        if arms is None:
            ctx.violation("C07.table", key + ["no-arm"], C.where(m, dr["fn"]), f"an arm for {const}", sorted(dr["arms"]), STATEMENT)
            continue
        cov = ("always" if ent["always"] else "") + ("S" if ent["success"] else "") + ("E" if ent["error"] else "")
        ctx.tag(f"reply.cover.{cov}")
        # ---- success outcome
        ok = arms["ok"]
        ctx.inst("C07.table", distinct=(m.key, name, "ok"))
        s, a = ent["success"], ent["always"]
        if s is not None:
            ctx.tag("reply.ok.success")
            dm = M.data_mode(s)
            if dm is None:
                lead = []
            elif dm["raw"] and dm["opt"]:
                lead = [("field", ("ok-resp",), "data")]     # Option<Binary> forwarded as received
            else:
                lead = [("data",)]
            want_m, want_ctx = s.fn, CTX_SUCCESS
            n_pay = payload_count(s, "success")
        elif a is not None:
            ctx.tag("reply.ok.always")
            want_m, want_ctx, lead = a.fn, CTX_OTHER, [("reply", "result")]
            n_pay = payload_count(a, "always")
        else:
            ctx.tag("reply.ok.passthrough")
            want_m = None
        check_arm(ctx, m, g, key + ["ok"], ok, want_m, want_ctx if want_m else None, lead if want_m else None, n_pay if want_m else None, "ok", dr)
        # ---- error outcome
        er = arms["err"]
        ctx.inst("C07.table", distinct=(m.key, name, "err"))
        e = ent["error"]
        if e is not None:
            ctx.tag("reply.err.error")
            want_m, lead, n_pay = e.fn, [("err-text",)], payload_count(e, "error")
        elif a is not None:
            ctx.tag("reply.err.always")
            want_m, lead, n_pay = a.fn, [("reply", "result")], payload_count(a, "always")
        else:
            ctx.tag("reply.err.passthrough")
            want_m = None
        check_arm(ctx, m, g, key + ["err"], er, want_m, CTX_OTHER if want_m else None, lead if want_m else None, n_pay if want_m else None, "err", dr)
        if len(ent["methods"]) > 1:
            fns = [h.fn for h in m.handlers["reply"]]
            first, second = ent["methods"][0], ent["methods"][1]
            ctx.tag("reply.merge." + ("se" if first.reply_on == "success" else "es"))
        ctx.sample({"program": m.key, "name": name, "const": const, "ok": {k: ok.get(k) for k in ("kind", "method")}, "err": {k: er.get(k) for k in ("kind", "method")}})
    extra = set(dr["arms"]) - set(next(iter(v)) for v in n2c.values() if len(v) == 1)
    if extra:
        ctx.violation("C07.table", key0 + ["extra-arms"], C.where(m, dr["fn"]), "arms only for declared names", sorted(extra), STATEMENT)


def check_arm(ctx, m, g, key, arm, want_method, want_ctx, lead, n_pay, which, dr):
    where = C.where(m, {"ln": arm.get("ln")})
    if want_method is None:
        kind = "passthrough_ok" if which == "ok" else "passthrough_err"
        if arm["kind"] != kind:
            ctx.violation("C07.table", key + ["passthrough"], where, f"no method covers this outcome: {kind}", {k: arm.get(k) for k in ("kind", "method")}, STATEMENT,
                          "ReplyData::emit_success_match_arm / emit_error_match_arm")
            return
        if which == "ok" and not (arm["events"] and arm["data"]):
            ctx.violation("C07.table", key + ["passthrough-content"], where, "events and data of the sub-message passed through", {"events": arm["events"], "data": arm["data"]}, STATEMENT)
        if which == "err" and not arm["err_into"]:
            ctx.violation("C07.table", key + ["passthrough-err-into"], where, "error converted into the contract error", "no conversion", STATEMENT)
        return
    if arm["kind"] != "handler":
        ctx.violation("C07.table", key + ["handler"], where, f"calls {want_method}", arm["kind"], STATEMENT, "ReplyData::emit_success_match_arm / emit_error_match_arm")
        return
    if arm["method"] != want_method:
        ctx.violation("C07.table", key + ["method"], where, want_method, arm["method"], STATEMENT, "ReplyData::emit_success_match_arm / emit_error_match_arm")
    if arm["ctx"] != want_ctx:
        ctx.violation("C07.ctx", key + ["ctx"], where, want_ctx, arm["ctx"], STATEMENT)
    ctx.inst("C07.ctx")
    args = arm["args"]
    head = args[:len(lead)]
    head_n = [("data",) if (a and a[0] == "data") else a for a in head]
    if head_n != lead:
        ctx.violation("C07.args", key + ["lead-arg"], where, lead, head, STATEMENT)
    if not payload_args_ok(args[len(lead):], n_pay):
        ctx.violation("C07.args", key + ["payload-args"], where, f"{n_pay} payload values in order", args[len(lead):], STATEMENT, "PayloadFields::emit_payload_deserialization")
    ctx.inst("C07.args")
    ctor = arm["ctor"]
    if ctor is None or ctor["type"].split("::")[-1] != m.name or [A.compact(x) for x in ctor["generics"]] != m.generics + [] and ctor["generics"] != [p["name"] for p in m.generic_params]:
        ctx.violation("C07.table", key + ["ctor"], where, f"{m.name}::<{', '.join(p['name'] for p in m.generic_params)}>::new()", ctor, STATEMENT)


def run(ctx):
    C.corpus_must_compile(ctx, "C07.compile")
    n = 0
    for m, g in C.pairs(ctx, want_kind="contract"):
        if not m.replies_feature:
            continue
        ctx.program(m.key)
        n += 1
        check_item(ctx, m, g)
    witness.run_for(ctx, "C07")
    for t in ("reply.ok.success", "reply.ok.always", "reply.ok.passthrough", "reply.err.error", "reply.err.always", "reply.err.passthrough",
              "reply.merge.se", "reply.merge.es"):
        if ctx.tags.get(t, 0) == 0:
            ctx.violation("TAG", [t], "corpus", f"a corpus program exercising {t}", "none", "corpus adequacy (branch table DESIGN-appendix A 21/22/27)")
    C.corpus_adequacy(ctx, enforce=False)
    ctx.floor("C07.table", 40)
    return check.finish(
        ctx, "translation_validation",
        "dispatch_reply of every replies-enabled corpus contract: Reply destructured once; one id arm per handler name (name->id read from the builders); per outcome the arm's normal form (handler, context provenance, leading data/error/result argument, payload values in order) or the documented pass-through; default arm is an error",
        "translation validation with provenance tracking through let-bindings and patterns",
        ["values (ids, events, payloads) are not enumerated: provenance is structural"])
