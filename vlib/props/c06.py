"""C06 — entry points exist exactly for defined, non-overridden kinds and forward calls."""
from .. import check, grules, witness
from . import common as C
from . import entry as E
from .common import A, G, M, KINDS, EP_NAME, ACCESSOR, WRAPPER_ACCESSOR
from .c04 import MT_METHOD_KIND, want_entry_acc
from .c02 import CTX_ARITY, DEPS

STATEMENT = "entry points = {instantiate, execute, query, sudo} + migrate/reply iff a handler exists - overridden kinds; each builds the contract with new() and dispatches the message with deps, env, info"
PARAMS = {k: ["deps", "env"] + (["info"] if CTX_ARITY[k] == 3 else []) for k in KINDS}


def contract_generics_for_ep(m):
    return [A.compact(x) for x in m.ep_generics]


def check_item(ctx, m, g):
    key0 = [m.crate_key, "::".join(m.modpath + [m.name])]
    overridden = {o["kind"] for o in m.overrides}
    for o in m.overrides:
        ctx.tag(f"ep.override.{o['kind']}")
    if m.entry_points:
        ctx.inst("C06.set", distinct=m.key)
        want = {EP_NAME[k] for k in M.entry_point_set(m)}
        have = {f["name"] for f in (g.entry_points or []) if f.get("k") == "fn"}
        others = [f for f in (g.entry_points or []) if f.get("k") not in ("fn", "use")]
        if g.entry_points is None:
            ctx.violation("C06.set", key0 + ["module"], C.where(m), "mod entry_points", "absent", STATEMENT, "EntryPoints::emit")
            return
        if want != have:
            ctx.violation("C06.set", key0 + ["set"], C.where(m), sorted(want), sorted(have), STATEMENT, "EntryPoints::emit / OverrideEntryPoint::parse")
        if others:
            ctx.violation("C06.set", key0 + ["extra-items"], C.where(m), "only fn items", [o.get("k") for o in others], STATEMENT)
        ctx.tag("ep.migrate." + ("handler" if m.handlers["migrate"] else "none") + ("+override" if "migrate" in overridden else ""))
        ctx.tag("ep.reply." + ("none" if not m.handlers["reply"] else ("replies" if m.replies_feature else "legacy")) + ("+override" if "reply" in overridden else ""))
        if m.generics:
            ctx.tag("ep.generic")
        for f in g.entry_points:
            if f.get("k") != "fn":
                continue
            kind = MT_METHOD_KIND.get(f["name"])
            if kind is None:
                continue
            key = key0 + ["entry_point", f["name"]]
            ctx.inst("C06.body", distinct=(m.key, f["name"]))
            try:
                ep = E.analyse_entry_fn(f)
            except G.Unrecognised as e:
                ctx.unrecognised("C06.body", key, C.where(m, f), str(e))
                continue
            # parameters
            pn = [p[0] for p in ep["params"]]
            pt = [p[1] for p in ep["params"]]
            want_p = PARAMS[kind] + ["msg"]
            want_t = [DEPS[kind], "Env"] + (["MessageInfo"] if CTX_ARITY[kind] == 3 else [])
            if pn != want_p or pt[:-1] != want_t:
                ctx.violation("C06.body", key + ["params"], C.where(m, f), list(zip(want_p, want_t + ["<msg>"])), ep["params"], STATEMENT, "MsgType::emit_ctx_params")
            # error type
            out = ep["ret"]
            if out and out["k"] == "path" and isinstance(out["path"]["segs"][-1]["args"], list) and len(out["path"]["segs"][-1]["args"]) == 2:
                es = A.type_str(out["path"]["segs"][-1]["args"][1])
                we = m.error or "StdError"
                if not (A.compact(es) == A.compact(we) or (m.error is None and es.endswith("::StdError"))):
                    ctx.violation("C06.body", key + ["error-type"], C.where(m, f), we, es, STATEMENT)
            else:
                ctx.violation("C06.body", key + ["return"], C.where(m, f), "Result<_, Error>", out and A.type_str(out), STATEMENT)
            b = ep["body"]
            if not b["err_into"]:
                ctx.violation("C06.body", key + ["err-into"], C.where(m, f), ".map_err(Into::into)", "missing", STATEMENT)
            ctor = b.get("ctor")
            if b["form"] == "dispatch_reply":
                cs = [a for a in b["args"] if a[0] == "ctor"]
                ctor = cs[0][1] if len(cs) == 1 else None
            if ctor is None:
                ctx.violation("C06.body", key + ["ctor"], C.where(m, f), f"{m.name}::new()", "not found", STATEMENT)
            else:
                if ctor["type"].split("::")[-1] != m.name:
                    ctx.violation("C06.body", key + ["ctor-type"], C.where(m, f), m.name, ctor["type"], STATEMENT)
                if [A.compact(x) for x in ctor["generics"]] != contract_generics_for_ep(m):
                    ctx.violation("C06.body", key + ["ctor-generics"], C.where(m, f), contract_generics_for_ep(m), ctor["generics"], STATEMENT, "EntryPoints::emit_default_entry_point")
            if kind == "reply":
                if m.replies_feature:
                    if b["form"] != "dispatch_reply":
                        ctx.violation("C06.body", key + ["reply-form"], C.where(m, f), "sv::dispatch_reply(deps, env, msg, contract)", b["form"], STATEMENT)
                    else:
                        shape = [a[1] if a[0] == "param" else a[0] for a in b["args"]]
                        if shape != ["deps", "env", "msg", "ctor"]:
                            ctx.violation("C06.body", key + ["reply-args"], C.where(m, f), ["deps", "env", "msg", "<new()>"], shape, STATEMENT)
                        if b["path"][:-1] not in (["sv"], []):
                            ctx.violation("C06.body", key + ["reply-path"], C.where(m, f), "sv::dispatch_reply", "::".join(b["path"]), STATEMENT)
                else:
                    first = m.handlers["reply"][0].fn if m.handlers["reply"] else None
                    if b["form"] != "legacy_reply" or b.get("method") != first or not b.get("ctx_conv") or b.get("ctx") != ["deps", "env"] or b.get("rest") != [["msg"]]:
                        ctx.violation("C06.body", key + ["legacy-reply"], C.where(m, f), f"{m.name}::new().{first}((deps, env).into(), msg)", {k: b.get(k) for k in ("form", "method", "ctx", "rest")}, STATEMENT)
            else:
                if b["form"] != "dispatch":
                    ctx.violation("C06.body", key + ["form"], C.where(m, f), "msg.dispatch(&Contract::new(), ctx)", b["form"], STATEMENT)
                elif b["ctx"] != PARAMS[kind]:
                    ctx.violation("C06.body", key + ["ctx"], C.where(m, f), PARAMS[kind], b["ctx"], STATEMENT, "MsgType::emit_ctx_values")
                if b["n_calls"] != 3:
                    ctx.violation("C06.body", key + ["calls"], C.where(m, f), "exactly: new(), dispatch(), map_err()", b["n_calls"], STATEMENT)
            ctx.sample({"program": m.key, "entry_point": f["name"], "body": b["form"], "ctx": b.get("ctx")})
    # ---- multitest Contract impl
    mt, imp = E.mt_contract_impl(g)
    if mt is None:
        return
    if imp is None:
        ctx.violation("C06.mt", key0 + ["impl"], C.where(m), "impl cw_multi_test::Contract", "absent", STATEMENT)
        return
    methods = {f["name"]: f for f in imp["items"] if f.get("k") == "fn"}
    if set(methods) != set(MT_METHOD_KIND):
        ctx.violation("C06.mt", key0 + ["methods"], C.where(m, imp), sorted(MT_METHOD_KIND), sorted(methods), STATEMENT)
    ov = {}
    for o in m.overrides:
        ov.setdefault(o["kind"], o)   # documented: one override per kind
    for name, f in methods.items():
        kind = MT_METHOD_KIND.get(name)
        if kind is None:
            continue
        key = key0 + ["mt", name]
        ctx.inst("C06.mt", distinct=(m.key, name))
        try:
            nf = E.analyse_mt_contract_method(f)
        except G.Unrecognised as e:
            ctx.unrecognised("C06.mt", key, C.where(m, f), str(e))
            continue
        if kind in ov:
            o = ov[kind]
            ctx.tag(f"mt.contract.{kind}.override")
            okp = nf["form"] == "override" and A.compact(nf["path"]) == A.compact(o["path"])
            if not okp:
                ctx.violation("C06.mt", key + ["override-target"], C.where(m, f), f"calls {o['path']}", nf.get("path", nf["form"]), STATEMENT, "OverrideEntryPoint::emit_multitest_dispatch")
                continue
            last = "msg" if kind == "reply" else "from_json"
            if nf["args"] != PARAMS[kind] + [last]:
                ctx.violation("C06.mt", key + ["override-args"], C.where(m, f), PARAMS[kind] + [last], nf["args"], STATEMENT, "OverrideEntryPoint::emit_multitest_dispatch")
            if kind != "reply":
                fj = nf["from_json"]
                if len(fj) != 1 or A.compact(fj[0]["ty_s"] or "") != A.compact(o["msg"] or "") or fj[0]["src"] != ["msg"]:
                    ctx.violation("C06.mt", key + ["override-msg-type"], C.where(m, f), f"from_json::<{o['msg']}>(&msg)", [x["ty_s"] for x in fj], STATEMENT)
            continue
        ctx.tag(f"mt.contract.{kind}.default")
        has_handler = bool(m.handlers[kind]) if kind in ("migrate", "reply") else True
        if not has_handler:
            if nf["form"] != "bail":
                ctx.violation("C06.mt", key + ["absent-kind"], C.where(m, f), "an error (no handler declared)", nf["form"], STATEMENT, "MtHelpers::emit_impl_contract")
            continue
        if kind == "reply":
            if m.replies_feature:
                if nf["form"] != "dispatch_reply":
                    ctx.violation("C06.mt", key + ["reply-form"], C.where(m, f), "dispatch_reply(deps, env, msg, contract)", nf["form"], STATEMENT)
            else:
                first = m.handlers["reply"][0].fn
                if nf["form"] != "legacy_reply" or nf.get("method") != first or nf.get("ctx") != ["deps", "env"] or nf.get("rest") != [["msg"]]:
                    ctx.violation("C06.mt", key + ["legacy-reply"], C.where(m, f), f"self.{first}((deps, env).into(), msg)", {k: nf.get(k) for k in ("form", "method", "ctx", "rest")}, STATEMENT)
            continue
        if nf["form"] != "dispatch" or nf.get("ctx") != PARAMS[kind] or nf.get("contract_arg") != ["self"] or not nf.get("err_into"):
            ctx.violation("C06.mt", key + ["default-form"], C.where(m, f), f"from_json::<..>(&msg)?.dispatch(self, ({', '.join(PARAMS[kind])})).map_err(Into::into)",
                          {k: nf.get(k) for k in ("form", "ctx", "contract_arg", "err_into")}, STATEMENT, "emit_default_dispatch")
        fj = nf["from_json"]
        acc = fj[0]["acc"] if len(fj) == 1 else None
        if acc is None or acc["acc"] != want_entry_acc(kind):
            ctx.violation("C06.mt", key + ["decoded-type"], C.where(m, f), want_entry_acc(kind), [x["ty_s"] for x in fj], STATEMENT)


def run(ctx):
    C.corpus_must_compile(ctx, "C06.compile")
    for m, g in C.pairs(ctx, want_kind="contract"):
        ctx.program(m.key)
        check_item(ctx, m, g)
    witness.run_for(ctx, "C06")
    grules.rule_g4(ctx)
    need = [f"ep.override.{k}" for k in KINDS]
    for t in need:
        if ctx.tags.get(t, 0) == 0:
            ctx.violation("TAG", [t], "corpus", f"a corpus program that overrides {t.split('.')[-1]}", "none", "corpus adequacy")
    C.corpus_adequacy(ctx, enforce=False)
    ctx.floor("C06.set", 25)
    ctx.floor("C06.body", 100)
    ctx.floor("C06.mt", 180)
    ctx.exhaustive = (ctx.tier == "thorough")
    return check.finish(
        ctx, "translation_validation",
        "set of generated entry points vs model (defaults + migrate/reply iff handler - overrides); each body's normal form (contract built with new() and the entry_points generics, msg.dispatch with (deps, env[, info]) / dispatch_reply / legacy reply); the six multitest Contract methods (override path + its message type, default dispatch, error for absent kinds); override witness libraries must type-check; G4 keyword tables",
        "translation validation over corpus + override-subset witness family (quick: singles, pairs, all, none; thorough: all 64 subsets x migrate/reply x replies)",
        ["messages sent through an entry point: reduced to dispatch (C02/C03)"])
