"""C19 — generated code is hygienic about crate name and user type-parameter names."""
from .. import check, grules, witness
from . import common as C


def run(ctx):
    n1 = grules.rule_g1(ctx)
    n2 = grules.rule_g2(ctx)
    # positive fixtures: the rules must be able to fire (expected count on the tree is zero)
    from .. import util
    fx_ctx = check.Ctx("C19-fixture", ctx.tier, ctx.seed)
    fixture = util.syn_ast_text('fn f() { let sylvia = 1; let a = quote! { sylvia::cw_std::Response::new() }; let b = quote! { impl<C, #(#generics,)*> X for Y<C> {} }; let c = quote! { #sylvia ::cw_std::Empty }; }')
    saved = grules._cache.copy()
    grules._cache.clear()
    grules._cache["asts"] = {"fixture.rs": fixture}
    f1 = grules.rule_g1(fx_ctx)
    f2 = grules.rule_g2(fx_ctx)
    grules._cache.clear()
    grules._cache.update(saved)
    g1_hits = [v for v in fx_ctx.violations if v["rule"].startswith("G1")]
    g2_hits = [v for v in fx_ctx.violations if v["rule"].startswith("G2")]
    ctx.inst("fixture")
    if len(g1_hits) != 1 or len(g2_hits) != 1:
        ctx.violation("FIXTURE", ["G1G2"], "checker", "G1 and G2 each fire exactly once on the positive fixture", {"G1": len(g1_hits), "G2": len(g2_hits)}, "the rule lost its ability to fire")
    n = witness.run_for(ctx, "C19")
    ctx.floor("G1.literal-crate-path", 250)
    ctx.floor("G2.helper-generic-names", 30)
    if n < 10:
        ctx.violation("C19.w", ["anchor"], "corpus", ">= 10 hygiene witnesses", n, "witnesses missing")
    return check.finish(
        ctx, "other",
        "G1: no quote!/parse_quote! template of sylvia-derive spells a path that starts with the framework's (or a re-exported dependency's) crate name literally, nor a string literal containing one; G2: no template generics list that sits next to interpolated user generics declares a single-upper-case-letter type parameter; witnesses: (a) reply, override and interface/custom/generic suites compiled in a crate whose only dependency is the renamed framework, (b) generic contracts / interfaces using all 26 single letters and 28 conventional words as parameter / associated-type names - all must type-check",
        "token-level rules over every template of the generator (speak for all inputs) + compile-pass witnesses",
        ["multi-letter helper names are decided by the computed witness w-typarams (every helper parameter name found in the templates, outside the reserved Sv prefix, is used as a user parameter / associated type)"])
