"""C05 witnesses (E-W): filled in by the witness engine."""


def run_witnesses(ctx):
    from .. import witness
    witness.run_for(ctx, "C05")
