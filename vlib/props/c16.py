"""C16 — query response metadata names each query's real response type."""
from .. import check
from . import common as C
from . import wrapper as W
from .c03 import parts_of
from .common import A, G, M

STATEMENT = "the response table maps each query's wire name to the type its handler returns (or resp=); the contract-level table/schema is the union over the parts"


def response_pairs(impl):
    fn = next((x for x in impl["items"] if x.get("k") == "fn" and x["name"] == "response_schemas_impl"), None)
    if fn is None:
        raise G.Unrecognised("QueryResponses impl without response_schemas_impl")
    pairs = []
    for t in A.find_all(fn["body"], lambda n: isinstance(n, dict) and n.get("x") and n.get("k") == "tuple" and len(n["elems"]) == 2):
        k = A.strip_expr(t["elems"][0])
        if k["k"] == "mcall" and k["method"] in ("to_string", "to_owned", "into") and A.strip_expr(k["recv"])["k"] == "lit":
            name = A.strip_expr(k["recv"])["v"]
            calls = A.find_all(t["elems"][1], lambda n: isinstance(n, dict) and n.get("x") and n.get("k") == "mcall" and n["method"] == "into_root_schema_for")
            if len(calls) != 1 or not calls[0].get("turbofish"):
                raise G.Unrecognised(f"response entry {name}: no single into_root_schema_for::<T>()")
            pairs.append((name, A.type_str(calls[0]["turbofish"][0])))
    return pairs


def check_item(ctx, m, g):
    key = [m.crate_key, "::".join(m.modpath + [m.name]), "query"]
    ty = g.msg_type("query")
    if ty is None or ty["k"] != "enum":
        return
    imps = g.trait_impls("QueryResponses", ty["name"])
    ctx.inst("C16.pairs", distinct=m.key)
    if len(imps) != 1:
        ctx.violation("C16.pairs", key + ["impl"], C.where(m, ty), "one derived QueryResponses impl", len(imps), STATEMENT, "MsgType::emit_derive_call")
        return
    try:
        pairs = response_pairs(imps[0])
        sf = g.serde(ty)
        info = C.enum_info(ctx, m, g, "query", "C16.pairs")
    except G.Unrecognised as e:
        ctx.unrecognised("C16.pairs", key, C.where(m), str(e))
        return
    if info is None:
        return
    wire_of = {vn: v["wire"] for vn, v in sf["ser"]["variants"].items()}
    want = {}
    for h in m.handlers["query"]:
        vs = info.h2v.get(h.fn, [])
        if len(vs) != 1:
            continue
        want[wire_of.get(vs[0])] = h.resp_ty_s
        ctx.tag("query.resp-" + ("explicit" if h.resp else ("stdresult" if h.ret and A.type_str(h.ret).startswith("StdResult") else "result")))
    got = {}
    for n, t in pairs:
        if n in got:
            ctx.violation("C16.pairs", key + [n, "duplicate"], C.where(m, ty), "each name once", n, STATEMENT)
        got[n] = t
    phantom = got.pop("__phantom", None) if "__phantom" in got else got.pop("_phantom", None)
    used, _ = M.used_params(m, "query")
    if (phantom is not None) != bool(used):
        ctx.violation("C16.pairs", key + ["phantom"], C.where(m, ty), f"placeholder entry iff generic ({sorted(used)})", phantom, STATEMENT)
    gotc = {k: A.compact(v) for k, v in got.items()}
    wantc = {k: A.compact(v or "") for k, v in want.items()}
    if gotc != wantc:
        ctx.violation("C16.pairs", key + ["table"], C.where(m, ty), wantc, gotc, STATEMENT, "MsgVariant::new (return_type) / MsgType::emit_returns_attribute")
    variants = sf["de"]["VARIANTS"] or []
    if sorted(got) != sorted(variants):
        ctx.violation("C16.pairs", key + ["names-vs-sendable"], C.where(m, ty), sorted(variants), sorted(got), STATEMENT)
    if want:
        ctx.sample({"program": m.key, "table": wantc})


def check_contract_level(ctx, m, g):
    key = [m.crate_key, "::".join(m.modpath + [m.name]), "wrapper", "query"]
    try:
        wf = W.analyse(m, g, "query")
    except G.Unrecognised as e:
        ctx.unrecognised("C16.union", key, C.where(m), str(e))
        return
    ctx.inst("C16.union", distinct=m.key)
    parts = parts_of(m)
    want = sorted(wf.variants[p["variant"]]["ty_s"] + "::response_schemas_impl" for p in parts if p["variant"] in wf.variants)
    got = sorted(A.compact(r) for r in (wf.responses or []))
    if [A.compact(w) for w in want] != got:
        ctx.violation("C16.union", key + ["responses"], C.where(m, wf.ty), want, got, STATEMENT, "Interfaces::emit_response_schemas_calls")
    else:
        # the concatenation must keep every part: responses.into_iter().flatten().collect()
        body = wf.responses_body
        chain = [n["method"] for n in A.find_all(body, lambda n: isinstance(n, dict) and n.get("x") and n.get("k") == "mcall")]
        if not {"flatten", "collect"} <= set(chain) or any(c in chain for c in ("take", "skip", "filter", "step_by", "last", "next")):
            ctx.violation("C16.union", key + ["concat"], C.where(m, wf.ty), "all parts' tables concatenated (into_iter().flatten().collect())", chain, STATEMENT)
    # the table of ContractQueryMsg<A> must be a function of A alone: no state shared between instantiations of the generic impl
    st = C.generated_statics(g)
    ctx.inst("C16.no-shared-state", distinct=m.key)
    if st:
        ctx.violation("C16.no-shared-state", key + ["static"], C.where(m, wf.ty), "generated code defines no `static` (one object for all instantiations of a generic impl)", st, STATEMENT,
                      "GlueMessage::emit (QueryResponses impl)")
    for kind in ("exec", "query", "sudo"):
        try:
            w2 = W.analyse(m, g, kind) if kind != "query" else wf
        except G.Unrecognised:
            continue
        ctx.inst("C16.any_of", distinct=(m.key, kind))
        wa = sorted(A.compact(v["ty_s"]) for v in w2.variants.values())
        ga = sorted(A.compact(t or "") for t in (w2.any_of or []))
        if wa != ga or getattr(w2, "any_of_field", 0) != 1:
            ctx.violation("C16.any_of", key[:-1] + [kind, "any_of"], C.where(m, w2.ty), wa, ga, STATEMENT, "GlueMessage::emit (JsonSchema)")


def run(ctx):
    C.corpus_must_compile(ctx, "C16.compile")
    for m, g in C.pairs(ctx):
        ctx.program(m.key)
        check_item(ctx, m, g)
        if m.kind == "contract":
            check_contract_level(ctx, m, g)
    for t in ("query.resp-explicit", "query.resp-result", "query.resp-stdresult"):
        if ctx.tags.get(t, 0) == 0:
            ctx.violation("TAG", [t], "corpus", f"a corpus program exercising {t}", "none", "corpus adequacy (DESIGN-appendix A 7)")
    C.corpus_adequacy(ctx, enforce=False)
    ctx.floor("C16.pairs", 60)
    ctx.floor("C16.union", 40)
    ctx.floor("C16.no-shared-state", 40)
    return check.finish(
        ctx, "translation_validation",
        "(name, type) pairs in cosmwasm-schema-derive's expansion of every query enum vs {wire name -> model response type}; names == serde VARIANTS; placeholder iff generic; contract-level response table = one call per part (Query accessor) concatenated; contract-level JSON schema = any_of of exactly one subschema per part",
        "translation validation; names are cosmwasm-schema-derive's own literals",
        ["schemars schema generation itself is trusted"])
