"""C20 — a stored remote handle has a stable, type-independent encoding."""
from .. import check, rrules, witness
from . import common as C


def run(ctx):
    fx = C.facts(ctx)
    rrules.rule_r7(ctx, fx.sylvia_expanded)
    n = witness.run_for(ctx, "C20")
    if n < 1:
        ctx.violation("C20.w", ["anchor"], "corpus/w-remote", ">= 1 type-level witness", n, "witness missing")
    ctx.floor("R7.remote.shape", 1)
    ctx.floor("R7.remote.derived", 1)
    return check.finish(
        ctx, "other",
        "R7 over sylvia/src/types.rs and the compiler's expansion of the sylvia crate: Remote has exactly one serialised field `addr` (phantom skipped, no serde container/field attribute), serde_derive's output (de)serialises the single key \"addr\", derived impls put no bound on the type parameter, schema_name is a constant string, json_schema declares the single required property `addr`, constructors wrap the given address in Cow::Owned/Borrowed, cosmwasm_std::Addr is a plain derived newtype over String; type-level witness: Remote<'_, T> satisfies Serialize + DeserializeOwned + JsonSchema for a contract, `dyn Interface<..>`, `str` and a trait-less type",
        "source rules over the runtime + the derive expansion + a compile-pass witness; no value is (de)serialised",
        ["serde's impls for Cow, String and newtype structs are transparent and mutually inverse (T2)"])
