"""Normal forms of the generated reply machinery: `dispatch_reply`, `*_REPLY_ID`, `SubMsgMethods`."""
from . import common as C
from . import entry as E
from .common import A, G


def reply_consts(g):
    out = {}
    for it in g.sv:
        if it.get("k") == "const" and it["name"].endswith("_REPLY_ID"):
            e = A.strip_expr(it["expr"])
            out[it["name"]] = int(e["v"]) if e["k"] == "lit" and e.get("lk") == "int" else None
    return out


def is_empty_vec(e):
    e = A.strip_expr(e)
    if e["k"] == "macro" and e["path"].split("::")[-1] == "vec" and not e["tt"]:
        return True
    if e["k"] == "call" and not e["args"] and A.path_ids(e["func"]) and A.path_ids(e["func"])[-2:] == ["Vec", "new"]:
        return True
    if e["k"] == "array" and not e["elems"]:
        return True
    return False


class Env(dict):
    def prov(self, e):
        """provenance term of an expression (names resolved through the environment)"""
        e = A.strip_expr(e)
        if e["k"] == "path" and not e.get("qself") and len(e["path"]["segs"]) == 1:
            n = e["path"]["segs"][0]["id"]
            return self.get(n, ("free", n))
        if e["k"] == "field":
            b = self.prov(e["base"])
            return ("field", b, e["member"])
        if is_empty_vec(e):
            return ("empty-vec",)
        if e["k"] == "ref":
            return ("ref", self.prov(e["expr"]))
        return ("expr", e["k"])


def analyse_dispatch_reply(g, contract_name=None):
    """Returns dict(fn, params, arms: {const_name: {'ok': nf, 'err': nf}}, default: nf, destructured: bool)."""
    f = g.one("fn", "dispatch_reply")
    if f is None:
        return None
    _CONTRACT[0] = contract_name
    out = {"fn": f, "params": [(i["pat"].get("name"), A.type_str(i["ty"])) for i in f["inputs"]]}
    env0 = Env()
    for n, _ in out["params"]:
        env0[n] = ("param", n)
    stmts, tail = A.block_parts(f["body"])
    reply_src = None
    for s in stmts:
        if s["k"] == "let" and s["pat"]["k"] == "struct" and s["pat"]["path"]["segs"][-1]["id"] == "Reply" and s["init"] is not None:
            src = env0.prov(s["init"])
            if src != ("param", "msg"):
                raise G.Unrecognised("dispatch_reply: Reply destructured from something else than `msg`")
            if reply_src is not None:
                raise G.Unrecognised("dispatch_reply: Reply destructured twice")
            reply_src = True
            for fl in s["pat"]["fields"]:
                if fl["pat"]["k"] != "ident":
                    raise G.Unrecognised("dispatch_reply: non-identifier binding in Reply pattern")
                env0[fl["pat"]["name"]] = ("reply", fl["member"])
        elif s["k"] == "item" and s["item"].get("k") == "use":
            continue
        else:
            raise G.Unrecognised(f"dispatch_reply: unexpected statement before the id match (expanded line {s['ln']})")
    out["destructured"] = bool(reply_src)
    tail = A.strip_expr(tail) if tail else None
    if tail is None or tail["k"] != "match":
        raise G.Unrecognised("dispatch_reply: tail is not a match")
    if env0.prov(tail["expr"]) != ("reply", "id"):
        raise G.Unrecognised("dispatch_reply: outer match is not on the reply id")
    out["arms"] = {}
    out["default"] = None
    for arm in tail["arms"]:
        p = arm["pat"]
        if p["k"] == "wild" or (p["k"] == "ident" and p["name"] not in ()) and not p["name"].isupper():
            out["default"] = analyse_default_arm(arm["body"], env0)
            continue
        if p["k"] == "ident":
            cname = p["name"]
        elif p["k"] == "path":
            cname = p["path"]["segs"][-1]["id"]
        else:
            raise G.Unrecognised(f"dispatch_reply: id arm pattern {p['k']}")
        if cname in out["arms"]:
            raise G.Unrecognised(f"dispatch_reply: two arms for {cname}")
        inner = A.strip_expr(arm["body"])
        if inner["k"] != "match" or env0.prov(inner["expr"]) != ("reply", "result"):
            raise G.Unrecognised(f"dispatch_reply arm {cname}: body is not `match result`")
        res = {}
        for ia in inner["arms"]:
            ip = ia["pat"]
            if ip["k"] != "tuplestruct" or ip["path"]["segs"][-1]["id"] not in ("Ok", "Err") or len(ip["elems"]) != 1:
                raise G.Unrecognised(f"dispatch_reply arm {cname}: result arm pattern")
            which = ip["path"]["segs"][-1]["id"].lower()
            if which in res:
                raise G.Unrecognised(f"dispatch_reply arm {cname}: two {which} arms")
            env = Env(env0)
            b = ip["elems"][0]
            if b["k"] == "ident":
                env[b["name"]] = ("ok-resp",) if which == "ok" else ("err-text",)
            elif b["k"] != "wild":
                raise G.Unrecognised(f"dispatch_reply arm {cname}/{which}: binding pattern")
            res[which] = analyse_result_arm(ia["body"], env, which, f"{cname}/{which}")
            res[which]["ln"] = ia["ln"]
        if set(res) != {"ok", "err"}:
            raise G.Unrecognised(f"dispatch_reply arm {cname}: needs exactly an Ok and an Err arm")
        out["arms"][cname] = res
    return out


def analyse_default_arm(body, env):
    body = A.strip_expr(body)
    calls = ctor_method_calls(body)
    stmts, tail = (A.block_parts(body) if body["k"] == "block" else ([], body))
    had, inner = A.peel_err_into(tail) if tail else (False, None)
    inner = A.strip_expr(inner) if inner else None
    is_err = inner is not None and inner["k"] == "call" and A.last_seg(inner["func"]) == "Err"
    return {"is_err": is_err, "handler_calls": len(calls)}


_CONTRACT = [None]


def ctor_method_calls(e):
    """method calls whose receiver is `<Contract>::new()` (any `X::new()` except the framework's Response when the contract name is unknown)"""
    def pred(n):
        if not (isinstance(n, dict) and n.get("x") and n.get("k") == "mcall"):
            return False
        cc = E.ctor_call(n["recv"])
        if cc is None:
            return False
        last = cc["type"].split("::")[-1]
        if _CONTRACT[0] is not None:
            return last == _CONTRACT[0]
        return last != "Response"
    return A.find_all(e, pred)


def classify_data_stmt(init, env):
    """let data = match data { Some(data) => .., None => .. }  ->  dict(decode, inner_json, absent, wrap)"""
    init = A.strip_expr(init)
    if init["k"] != "match" or env.prov(init["expr"]) != ("field", ("ok-resp",), "data"):
        raise G.Unrecognised("data statement is not `match <sub-response data>`")
    some = none = None
    for arm in init["arms"]:
        p = arm["pat"]
        if p["k"] == "tuplestruct" and p["path"]["segs"][-1]["id"] == "Some" and p["elems"][0]["k"] == "ident":
            some = (p["elems"][0]["name"], arm["body"])
        elif (p["k"] == "path" or p["k"] == "ident") and (p.get("name") == "None" or (p.get("path") and p["path"]["segs"][-1]["id"] == "None")):
            none = arm["body"]
        else:
            raise G.Unrecognised("data statement: arm pattern")
    if some is None or none is None:
        raise G.Unrecognised("data statement: needs Some and None arms")
    nb = A.strip_expr(none)
    if (nb["k"] == "path" and A.path_ids(nb) == ["None"]):
        absent = "None"
    elif nb["k"] == "return" and nb["expr"] and A.strip_expr(nb["expr"])["k"] == "call" and A.last_seg(A.strip_expr(nb["expr"])["func"]) == "Err":
        absent = "Err"
    else:
        raise G.Unrecognised("data statement: None arm is neither `None` nor `return Err(..)`")
    sname, sbody = some
    sb = A.strip_expr(sbody)
    calls = [A.last_seg(c["func"]) for c in A.find_all(sbody, lambda n: isinstance(n, dict) and n.get("x") and n.get("k") == "call" and n["func"].get("k") == "path")]
    if "parse_execute_response_data" in calls and "parse_instantiate_response_data" in calls:
        raise G.Unrecognised("data statement: both envelope decoders")
    decode = "execute" if "parse_execute_response_data" in calls else "instantiate" if "parse_instantiate_response_data" in calls else "none"
    inner_json = "from_json" in calls
    # envelope decoder argument must derive from the Some binding
    for c in A.find_all(sbody, lambda n: isinstance(n, dict) and n.get("x") and n.get("k") == "call" and A.last_seg(n["func"]) in ("parse_execute_response_data", "parse_instantiate_response_data")):
        a = A.strip_expr(c["args"][0])
        base = a
        while base["k"] in ("mcall", "ref", "field"):
            base = A.strip_expr(base.get("recv") or base.get("expr") or base.get("base"))
        if A.path_ids(base) != [sname]:
            raise G.Unrecognised("data statement: envelope decoder is not applied to the received data")
    # every fallible step must propagate: each decoder call is under a `?`
    tries = A.find_all(sbody, lambda n: isinstance(n, dict) and n.get("x") and n.get("k") == "try")
    n_decoders = sum(1 for c in calls if c in ("parse_execute_response_data", "parse_instantiate_response_data", "from_json"))
    if len(tries) < n_decoders:
        raise G.Unrecognised("data statement: a decoding step whose error is not propagated with `?`")
    # wrap: tail of the Some arm
    if sb["k"] == "block":
        st, t = A.block_parts(sb)
    else:
        st, t = [], sb
    t = A.strip_expr(t) if t else None
    if t is None:
        raise G.Unrecognised("data statement: Some arm has no value")
    if t["k"] == "call" and A.last_seg(t["func"]) == "Some" and len(t["args"]) == 1:
        wrap = "Some"
        v = A.strip_expr(t["args"][0])
    else:
        wrap = "value"
        v = t
    if v["k"] != "path":
        raise G.Unrecognised("data statement: Some arm value is not a binding")
    vname = A.path_ids(v)[0]
    # the value must be the last decoded binding (or the raw Some binding when no decoding)
    last_let = None
    for s in st:
        if s["k"] == "let" and s["pat"]["k"] == "ident":
            last_let = s["pat"]["name"]
    if decode == "none":
        if vname != sname or st:
            raise G.Unrecognised("data statement: raw mode must forward the received bytes")
    else:
        if vname != last_let:
            raise G.Unrecognised("data statement: forwarded value is not the decoded one")
    return {"decode": decode, "inner_json": inner_json, "absent": absent, "wrap": wrap}


def analyse_result_arm(body, env, which, label):
    body = A.strip_expr(body)
    if body["k"] != "block":
        body = {"k": "block", "stmts": [{"k": "expr", "expr": body, "semi": False, "ln": body.get("ln")}]}
    stmts, tail = A.block_parts(body)
    nf = {"kind": None, "payload": None, "data": None, "resp_destructured": False}
    calls_total = ctor_method_calls(body)
    # ------------- pass-through forms (no handler call)
    if not calls_total:
        if which == "err":
            had, inner = A.peel_err_into(tail) if tail else (False, None)
            inner = A.strip_expr(inner) if inner else None
            if stmts or inner is None or inner["k"] != "call" or A.last_seg(inner["func"]) != "Err" or len(inner["args"]) != 1:
                raise G.Unrecognised(f"{label}: pass-through error arm is not Err(..)")
            ge = A.strip_expr(inner["args"][0])
            if ge["k"] != "call" or A.last_seg(ge["func"]) != "generic_err" or len(ge["args"]) != 1 or env.prov(ge["args"][0]) != ("err-text",):
                raise G.Unrecognised(f"{label}: pass-through error does not carry the sub-message error text")
            nf.update({"kind": "passthrough_err", "err_into": had, "crate_paths": [A.expr_path_str(ge["func"])]})
            return nf
        # ok pass-through: abstract interpretation of a "response term"
        return passthrough_ok(stmts, tail, env, label, nf)
    # ------------- handler forms
    expr_env = {}
    if len(calls_total) != 1:
        raise G.Unrecognised(f"{label}: {len(calls_total)} handler calls")
    for s in stmts:
        if s["k"] != "let" or s["init"] is None:
            raise G.Unrecognised(f"{label}: unexpected statement before the handler call")
        init = A.strip_expr(s["init"])
        p = s["pat"]
        if p["k"] == "struct" and p["path"]["segs"][-1]["id"] == "SubMsgResponse":
            if env.prov(init) != ("ok-resp",):
                raise G.Unrecognised(f"{label}: SubMsgResponse destructured from something else")
            for fl in p["fields"]:
                if fl["pat"]["k"] == "ident":
                    env[fl["pat"]["name"]] = ("field", ("ok-resp",), fl["member"])
                elif fl["pat"]["k"] != "wild":
                    raise G.Unrecognised(f"{label}: SubMsgResponse field pattern")
            nf["resp_destructured"] = True
            continue
        # payload: raw
        if p["k"] == "ident" and env.prov(init) == ("reply", "payload"):
            env[p["name"]] = ("payload-raw",)
            nf["payload"] = {"mode": "raw", "names": [p["name"]]}
            continue
        # payload: json
        if init["k"] == "try":
            c = A.strip_expr(init["expr"])
            if c["k"] == "call" and A.last_seg(c["func"]) == "from_json" and len(c["args"]) == 1 and env.prov(c["args"][0]) == ("ref", ("reply", "payload")):
                if p["k"] == "tuple":
                    names = []
                    for i, e in enumerate(p["elems"]):
                        if e["k"] != "ident":
                            raise G.Unrecognised(f"{label}: payload tuple pattern")
                        env[e["name"]] = ("payload-json", i)
                        names.append(e["name"])
                    nf["payload"] = {"mode": "json-tuple", "names": names}
                elif p["k"] == "ident":
                    env[p["name"]] = ("payload-json", "single")
                    nf["payload"] = {"mode": "json-single", "names": [p["name"]]}
                else:
                    raise G.Unrecognised(f"{label}: payload pattern")
                continue
        # data
        if p["k"] == "ident" and init["k"] == "match":
            cls = classify_data_stmt(init, env)
            env[p["name"]] = ("data", tuple(sorted(cls.items())))
            nf["data"] = cls
            continue
        # a let-bound context / contract: remembered and inlined at the call
        if p["k"] == "ident" and (A.unconv(init)[0] or init["k"] == "tuple" or E.ctor_call(init) is not None):
            expr_env[p["name"]] = init
            continue
        raise G.Unrecognised(f"{label}: unrecognised let before the handler call (expanded line {s['ln']})")
    call = calls_total[0]
    if A.strip_expr(tail) is not call:
        raise G.Unrecognised(f"{label}: the handler call is not the block's tail (a failure edge may follow it)")
    nf["kind"] = "handler"
    nf["method"] = call["method"]
    nf["ctor"] = E.ctor_call(call["recv"])
    if not call["args"]:
        raise G.Unrecognised(f"{label}: handler called without context")
    conv, ce = A.unconv(A.resolve(call["args"][0], expr_env))
    ce = A.resolve(ce, expr_env)
    if not conv or ce["k"] != "tuple":
        raise G.Unrecognised(f"{label}: context is not conv(tuple)")
    nf["ctx"] = [env.prov(x) for x in ce["elems"]]
    nf["args"] = [env.prov(x) for x in call["args"][1:]]
    return nf


RESP_EVENTS = ("field", ("ok-resp",), "events")
RESP_DATA = ("field", ("ok-resp",), "data")


def passthrough_ok(stmts, tail, env, label, nf):
    """The documented default for an uncovered success: Ok(Response::new() + events of the sub-response + its data if present).
    Accepted spellings: builder chains, `let mut resp` + conditional `set_data`, `match data { Some(d) => r.set_data(d), None => r }`,
    with or without destructuring the sub-response first."""
    locs = {}
    crate_paths = []

    def term(e, env):
        e = A.strip_expr(e)
        if e["k"] == "call" and not e["args"] and A.path_ids(e["func"]) and A.path_ids(e["func"])[-2:] == ["Response", "new"]:
            crate_paths.append(A.expr_path_str(e["func"]))
            return {"events": None, "data": None}
        if e["k"] == "path" and len(e["path"]["segs"]) == 1 and e["path"]["segs"][0]["id"] in locs:
            return dict(locs[e["path"]["segs"][0]["id"]])
        if e["k"] == "mcall" and e["method"] == "add_events" and len(e["args"]) == 1:
            t = term(e["recv"], env)
            if t is None or t["events"] is not None:
                return None
            t["events"] = env.prov(e["args"][0])
            return t
        if e["k"] == "mcall" and e["method"] == "set_data" and len(e["args"]) == 1:
            t = term(e["recv"], env)
            if t is None or t["data"] is not None:
                return None
            a = A.strip_expr(e["args"][0])
            if a["k"] == "mcall" and a["method"] in ("unwrap", "expect"):
                t["data"] = ("unwrapped", env.prov(a["recv"]))
            else:
                t["data"] = ("value", env.prov(a))
            return t
        if e["k"] == "match":
            d = env.prov(e["expr"])
            some = none = None
            for arm in e["arms"]:
                p = arm["pat"]
                if p["k"] == "tuplestruct" and p["path"]["segs"][-1]["id"] == "Some" and p["elems"][0]["k"] == "ident":
                    env2 = Env(env)
                    env2[p["elems"][0]["name"]] = ("some-of", d)
                    some = term(arm["body"], env2)
                elif (p["k"] == "ident" and p["name"] == "None") or (p["k"] == "path" and p["path"]["segs"][-1]["id"] == "None") or p["k"] == "wild":
                    none = term(arm["body"], env)
            if some is None or none is None:
                return None
            if none["data"] is None and some["events"] == none["events"] and some["data"] == ("value", ("some-of", d)):
                return {"events": none["events"], "data": ("if-some", d)}
            return None
        return None

    for s in stmts:
        if s["k"] == "let" and s["init"] is not None:
            p = s["pat"]
            if p["k"] == "struct" and p["path"]["segs"][-1]["id"] == "SubMsgResponse" and env.prov(s["init"]) == ("ok-resp",):
                for fl in p["fields"]:
                    if fl["pat"]["k"] == "ident":
                        env[fl["pat"]["name"]] = ("field", ("ok-resp",), fl["member"])
                continue
            if p["k"] == "ident":
                t = term(s["init"], env)
                if t is None:
                    raise G.Unrecognised(f"{label}: pass-through: `let {p['name']}` is not a response term")
                locs[p["name"]] = t
                continue
            raise G.Unrecognised(f"{label}: pass-through: unrecognised let")
        if s["k"] == "expr":
            e = A.strip_expr(s["expr"])
            if e["k"] == "if" and e["else"] is None:
                c = A.strip_expr(e["cond"])
                guard = None
                env2 = env
                if c["k"] == "mcall" and c["method"] == "is_some" and not c["args"]:
                    guard = env.prov(c["recv"])
                elif c["k"] == "letexpr" and c["pat"]["k"] == "tuplestruct" and c["pat"]["path"]["segs"][-1]["id"] == "Some" and c["pat"]["elems"][0]["k"] == "ident":
                    guard = env.prov(c["expr"])
                    env2 = Env(env)
                    env2[c["pat"]["elems"][0]["name"]] = ("some-of", guard)
                st2, t2 = A.block_parts(e["then"])
                asg = A.strip_expr(st2[0]["expr"]) if len(st2) == 1 and st2[0]["k"] == "expr" and t2 is None else None
                if guard is not None and asg is not None and asg["k"] == "assign":
                    tgt = A.path_ids(A.strip_expr(asg["left"]))
                    if tgt and len(tgt) == 1 and tgt[0] in locs:
                        t = term(asg["right"], env2)
                        base = locs[tgt[0]]
                        if t is not None and base["data"] is None and t["events"] == base["events"] and t["data"] in (("unwrapped", guard), ("value", ("some-of", guard))):
                            locs[tgt[0]] = {"events": base["events"], "data": ("if-some", guard)}
                            continue
            raise G.Unrecognised(f"{label}: unrecognised statement in pass-through arm")
        raise G.Unrecognised(f"{label}: unrecognised statement in pass-through arm")
    t = A.strip_expr(tail) if tail else None
    if not (t and t["k"] == "call" and A.last_seg(t["func"]) == "Ok" and len(t["args"]) == 1):
        raise G.Unrecognised(f"{label}: pass-through does not end with Ok(..)")
    r = term(t["args"][0], env)
    if r is None:
        raise G.Unrecognised(f"{label}: pass-through result is not a response term")
    nf.update({"kind": "passthrough_ok", "events": r["events"] == RESP_EVENTS, "data": r["data"] == ("if-some", RESP_DATA), "crate_paths": crate_paths,
               "found": {"events": r["events"], "data": r["data"]}})
    return nf


# ------------------------------------------------------------------ SubMsgMethods

def analyse_submsg(g):
    """Returns dict(trait_methods{name: params}, impls{receiver: {name: nf}})"""
    tr = g.one("trait", "SubMsgMethods")
    if tr is None:
        return None
    out = {"trait": tr, "trait_methods": {}, "impls": {}}
    for f in tr["items"]:
        if f.get("k") == "fn":
            out["trait_methods"][f["name"]] = [(i["pat"].get("name"), A.type_str(i["ty"])) for i in f["inputs"] if not i.get("recv")]
    for imp in g.trait_impls("SubMsgMethods", deep=False):
        recv = imp["self_ty"]["path"]["segs"][-1]["id"] if imp["self_ty"]["k"] == "path" else A.type_str(imp["self_ty"])
        ms = {}
        for f in imp["items"]:
            if f.get("k") != "fn":
                continue
            ms[f["name"]] = analyse_builder(f, recv)
        if recv in out["impls"]:
            raise G.Unrecognised(f"two SubMsgMethods impls for {recv}")
        out["impls"][recv] = ms
    return out


def analyse_builder(f, recv):
    params = [(i["pat"].get("name"), A.type_str(i["ty"])) for i in f["inputs"] if not i.get("recv")]
    stmts, tail = A.block_parts(f["body"])
    nf = {"params": params, "fn": f}
    env = {n: ("param", n) for n, _ in params}

    def prov(e):
        e = A.strip_expr(e)
        ids = A.path_ids(e)
        if ids and len(ids) == 1:
            return env.get(ids[0], ("free", ids[0]))
        return ("expr", e["k"])

    payload = None
    for s in stmts:
        if s["k"] == "let" and s["init"] is not None and s["pat"]["k"] == "struct" and s["pat"]["path"]["segs"][-1]["id"] == "SubMsg" \
                and A.path_ids(A.strip_expr(s["init"])) == ["self"]:
            # `let SubMsg { msg, gas_limit, .. } = self;` : the bindings are the receiver's own fields (they may shadow parameters!)
            for fl in s["pat"]["fields"]:
                if fl["pat"]["k"] == "ident":
                    env[fl["pat"]["name"]] = ("self-field", fl["member"])
            continue
        if s["k"] == "let" and s["pat"]["k"] == "ident" and s["init"] is not None:
            init = A.strip_expr(s["init"])
            name = s["pat"]["name"]
            if init["k"] == "try":
                c = A.strip_expr(init["expr"])
                if c["k"] == "call" and A.last_seg(c["func"]) == "to_json_binary" and len(c["args"]) == 1:
                    a = A.strip_expr(c["args"][0])
                    if a["k"] != "ref":
                        raise G.Unrecognised(f"builder {f['name']}: to_json_binary argument not a reference")
                    v = A.strip_expr(a["expr"])
                    if v["k"] == "tuple":
                        val = {"mode": "json-tuple", "names": [A.path_ids(A.strip_expr(x))[0] if A.path_ids(A.strip_expr(x)) else None for x in v["elems"]],
                               "provs": [prov(x) for x in v["elems"]]}
                    elif v["k"] == "path":
                        val = {"mode": "json-single", "names": [A.path_ids(v)[0]], "provs": [prov(v)]}
                    else:
                        raise G.Unrecognised(f"builder {f['name']}: encoded payload expression")
                    env[name] = ("encoded", tuple(val["provs"]))
                    if name == "payload":
                        payload = val
                    else:
                        nf.setdefault("encoded_locals", {})[name] = val
                    continue
            if init["k"] == "path" and len(init["path"]["segs"]) == 1:
                env[name] = prov(init)
                if name == "payload":
                    payload = {"mode": "raw", "names": [A.path_ids(init)[0]], "provs": [prov(init)]}
                continue
        raise G.Unrecognised(f"builder {f['name']}: unexpected statement")
    t = A.strip_expr(tail) if tail else None
    if not (t and t["k"] == "call" and A.last_seg(t["func"]) == "Ok" and len(t["args"]) == 1):
        raise G.Unrecognised(f"builder {f['name']}: tail is not Ok(..)")
    lit = A.strip_expr(t["args"][0])
    if lit["k"] != "struct" or lit["path"]["segs"][-1]["id"] != "SubMsg":
        raise G.Unrecognised(f"builder {f['name']}: does not build a SubMsg literal")
    fields = {}
    for fl in lit["fields"]:
        e = A.strip_expr(fl["expr"])
        if e["k"] == "path":
            ids = A.path_ids(e)
            if len(ids) == 1 and ids[0] in env and env[ids[0]][0] == "self-field":
                fields[fl["member"]] = ("self-field", env[ids[0]][1])
            elif len(ids) == 1 and ids[0] in env and env[ids[0]][0] == "encoded" and fl["member"] == "payload":
                fields[fl["member"]] = ("path", ["payload"])
                if payload is None:
                    payload = nf.get("encoded_locals", {}).get(ids[0])
            else:
                fields[fl["member"]] = ("path", ids)
        elif e["k"] == "mcall" and e["method"] == "into" and A.path_ids(e["recv"]) == ["self"]:
            fields[fl["member"]] = ("self.into",)
        elif e["k"] == "call" and A.unconv(e)[0] and A.path_ids(A.strip_expr(A.unconv(e)[1])) == ["self"]:
            fields[fl["member"]] = ("self.into",)
        else:
            fields[fl["member"]] = ("expr", e["k"])
    nf["payload"] = payload
    nf["fields"] = fields
    nf["rest"] = A.path_ids(A.strip_expr(lit["rest"])) if lit.get("rest") is not None else None
    return nf
