"""C15 — generated message types carry exactly the generic parameters they use."""
from .. import check, witness
from . import common as C
from .common import A, G, M, KINDS, ENUM_KINDS, MSG_NAME, ACCESSOR

STATEMENT = "a generated message type is parameterised by exactly the parameters occurring in its handlers' arguments (query: and responses), each once, bounded only by user predicates over those parameters"


def user_predicates(m):
    """the user's predicates as {compact string: set(params mentioned)}"""
    names = set(m.generics)
    out = {}
    if m.kind == "contract":
        for p in m.generic_params:
            if p["k"] == "type" and p["bounds"]:
                s = p["name"] + ":" + "+".join(A.compact(b["s"]) for b in p["bounds"])
                out[A.compact(s)] = mentioned_in_pred_str(s, names)
        for w in m.where:
            out[A.compact(w["s"])] = mentioned_in_where(w, names)
    else:
        for t in m.assoc_types:
            if t["name"] == "Error" or not t["bounds"]:
                continue
            s = t["name"] + ":" + "+".join(t["bounds"])
            out[A.compact(s)] = mentioned_in_pred_str(s, names)
    return out


def mentioned_in_where(w, names):
    found = set()
    if w.get("k") == "type":
        found |= A.type_mentions(w["bounded"], names)
        for b in w["bounds"]:
            if b.get("k") == "trait":
                for s in b["path"]["segs"]:
                    A.walk_seg_args(s, lambda n: found.update(A.type_mentions(n, names)) if isinstance(n, dict) and n.get("t") else None)
    import re
    for n in names:
        if re.search(r"(?<![A-Za-z0-9_])" + re.escape(n) + r"(?![A-Za-z0-9_])", w["s"]):
            found.add(n)
    return found


def mentioned_in_pred_str(s, names):
    import re
    return {n for n in names if re.search(r"(?<![A-Za-z0-9_])" + re.escape(n) + r"(?![A-Za-z0-9_])", s)}


def generics_preds(g):
    """predicates of a generics node (inline bounds + where) as compact strings"""
    out = []
    for p in g["params"]:
        if p["k"] == "type" and p["bounds"]:
            out.append(A.compact(p["name"] + ":" + "+".join(A.compact(b["s"]) for b in p["bounds"])))
    for w in g["where"]:
        out.append(A.compact(w["s"]))
    return out


def norm_pred(s):
    # `T: A + B` written with or without spaces around '+', trailing '+'
    return A.compact(s).replace(" ", "").rstrip("+")


def check_type(ctx, m, g, kind):
    key = [m.crate_key, "::".join(m.modpath + [m.name]), kind]
    if not m.handlers[kind] and kind in ("instantiate", "migrate"):
        return
    ty = g.msg_type(kind)
    if ty is None:
        return
    used, order = M.used_params(m, kind)
    ctx.inst("C15.params", distinct=(m.key, kind))
    params = [p for p in ty["generics"]["params"]]
    names = [p["name"] for p in params if p["k"] == "type"]
    if any(p["k"] != "type" for p in params):
        ctx.violation("C15.params", key + ["non-type-param"], C.where(m, ty), "only type parameters", [(p["k"], p["name"]) for p in params], STATEMENT)
    if len(set(names)) != len(names):
        ctx.violation("C15.params", key + ["repeated"], C.where(m, ty), "each parameter once", names, STATEMENT)
    if set(names) != used:
        ctx.violation("C15.params", key + ["set"], C.where(m, ty), sorted(used), names, STATEMENT, "CheckGenerics / MsgVariants::new (used_generics)")
    if m.generics:
        if not used:
            ctx.tag(f"generic.{kind}.none-used")
        elif used == set(m.generics):
            ctx.tag(f"generic.{kind}.all-used")
        else:
            ctx.tag(f"generic.{kind}.some-used")
    # bounds on the type and on its inherent impls
    up = {norm_pred(k): v for k, v in user_predicates(m).items()}
    holders = [("type", ty["generics"])]
    for imp in g.inherent_impls(ty["name"]):
        holders.append(("impl", imp["generics"]))
        ipn = [p["name"] for p in imp["generics"]["params"] if p["k"] == "type"]
        if set(ipn) != set(names):
            ctx.violation("C15.params", key + ["impl-params"], C.where(m, imp), names, ipn, STATEMENT)
    for where_, gen in holders:
        for pred in generics_preds(gen):
            ctx.inst("C15.bounds")
            np_ = norm_pred(pred)
            if np_ not in up:
                ctx.violation("C15.bounds", key + [where_, "foreign-predicate", np_], C.where(m, ty), f"only predicates the user wrote: {sorted(up)}", pred, STATEMENT, "filter_wheres")
            elif not up[np_] <= used:
                ctx.violation("C15.bounds", key + [where_, "mentions-other-param", np_], C.where(m, ty), f"predicates over {sorted(used)} only", pred, STATEMENT, "filter_wheres")
    # dispatch carries the remaining parameters
    imp, f = G.dispatch_fn(g, ty["name"])
    if f is not None and m.generics:
        ctx.inst("C15.dispatch", distinct=(m.key, kind))
        dn = [p["name"] for p in f["generics"]["params"] if p["k"] == "type"]
        want = set(m.generics) - used
        if m.kind == "interface":
            from .c02 import contract_param
            got = set(dn) - {contract_param(f)}
        else:
            got = set(dn)
        if got != want:
            ctx.violation("C15.dispatch", key + ["unused-params"], C.where(m, f), sorted(want), sorted(got), STATEMENT, "MsgVariants::unused_generics")
    return ty, names


def check_api(ctx, m, g, per_kind):
    key = [m.crate_key, "::".join(m.modpath + [m.name]), "api"]
    if m.kind == "contract":
        imps = g.trait_impls("ContractApi", deep=False)
    else:
        imps = g.trait_impls("InterfaceMessagesApi", deep=False)
    if not imps:
        ctx.violation("C15.api", key + ["missing"], C.where(m), "Api impl", "absent", STATEMENT)
        return
    for imp in imps:
        for it in imp["items"]:
            if it.get("k") != "type":
                continue
            kind = next((k for k in KINDS if ACCESSOR[k] == it["name"]), None)
            if kind is None or kind not in per_kind:
                continue
            ty, names = per_kind[kind]
            ctx.inst("C15.api", distinct=(m.key, kind, A.type_str(imp["self_ty"])[:40]))
            t = it["ty"]
            if t["k"] != "path":
                continue
            last = t["path"]["segs"][-1]
            if last["id"] not in (MSG_NAME[kind], ty["name"]):
                if not names and last["id"] == "Empty":
                    continue
                ctx.violation("C15.api", key + [kind, "target"], C.where(m, imp), MSG_NAME[kind], A.type_str(t), STATEMENT)
                continue
            args = last["args"] if isinstance(last["args"], list) else []
            got = []
            for a in args:
                s = A.type_str(a)
                # <Contract as Iface>::X  ->  X ; plain X -> X
                got.append(s.split("::")[-1] if s.startswith("<") else s)
            if got != names:
                ctx.violation("C15.api", key + [kind, "args"], C.where(m, imp), f"{MSG_NAME[kind]}<{', '.join(names)}>", A.type_str(t), STATEMENT, "Api::emit")


def run(ctx):
    C.corpus_must_compile(ctx, "C15.compile")
    for m, g in C.pairs(ctx):
        ctx.program(m.key)
        per_kind = {}
        kinds = ENUM_KINDS + (["instantiate", "migrate"] if m.kind == "contract" else [])
        for kind in kinds:
            try:
                r = check_type(ctx, m, g, kind)
            except G.Unrecognised as e:
                ctx.unrecognised("C15.params", [m.crate_key, m.name, kind], C.where(m), str(e))
                r = None
            if r:
                per_kind[kind] = r
        check_api(ctx, m, g, per_kind)
    witness.run_for(ctx, "C15")
    for t in ("generic.exec.some-used", "generic.query.some-used", "generic.exec.none-used", "generic.instantiate.some-used"):
        if ctx.tags.get(t, 0) == 0:
            ctx.violation("TAG", [t], "corpus", f"a corpus program exercising {t}", "none", "corpus adequacy")
    C.corpus_adequacy(ctx, enforce=False)
    ctx.floor("C15.params", 300)
    return check.finish(
        ctx, "translation_validation",
        "per generated message type: parameter list (set, no repetition) vs an independent occurs-in computation over handler argument / response types; predicates on the type and its inherent impls must be user predicates mentioning only used parameters; Api aliases apply exactly the type's parameters; dispatch carries exactly the remaining ones; use-site witnesses name, build and dispatch message types with only the predicted parameters",
        "translation validation + compile-pass use-site witnesses",
        ["the *order* of a message type's parameters is not constrained (first-use order today)"])
