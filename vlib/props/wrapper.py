"""Facts about the generated contract-level wrapper messages (ContractExecMsg/…): variants, the
hand-written Deserialize skeleton, the const overlap check, From impls, schema/any_of, responses."""
from . import common as C
from .common import A, G, EP_NAME, ACCESSOR, WRAPPER_NAME


class WrapperFacts:
    pass


def payload_accessor(ty):
    """<Contract as mod::sv::InterfaceMessagesApi>::Exec  ->  dict(kind='iface', module='mod', acc='Exec', self=<type str>)
       <Contract as sylvia::types::ContractApi>::Exec      ->  dict(kind='contract', acc='Exec', ...)"""
    if ty.get("k") != "path" or not ty.get("qself"):
        return None
    segs = [s["id"] for s in ty["path"]["segs"]]
    pos = ty["qpos"]
    tr = segs[:pos]
    rest = segs[pos:]
    if len(rest) != 1:
        return None
    if tr[-1] == "InterfaceMessagesApi" and len(tr) >= 2 and tr[-2] == "sv":
        return {"kind": "iface", "module": "::".join(tr[:-2]), "acc": rest[0], "self": A.type_str(ty["qself"])}
    if tr[-1] == "ContractApi":
        return {"kind": "contract", "module": None, "acc": rest[0], "self": A.type_str(ty["qself"])}
    return None


def list_call(e):
    """&mod::sv::execute_messages()  or  &execute_messages()  ->  (module or None, fn name)"""
    e = A.strip_expr(e)
    if e["k"] == "ref":
        e = A.strip_expr(e["expr"])
    if e["k"] != "call" or e["args"] or e["func"].get("k") != "path":
        return None
    ids = A.path_ids(e["func"])
    if len(ids) == 1:
        return (None, ids[0])
    if len(ids) >= 3 and ids[-2] == "sv":
        return ("::".join(ids[:-2]), ids[-1])
    return ("::".join(ids[:-1]), ids[-1])


def analyse(m, g, kind):
    """Returns WrapperFacts or raises G.Unrecognised."""
    wf = WrapperFacts()
    w = g.wrapper_type(kind)
    if w is None:
        raise G.Unrecognised(f"{WRAPPER_NAME[kind]} not generated")
    wf.ty = w
    wf.variants = {}
    for v in w["variants"]:
        if v["style"] != "tuple" or len(v["fields"]) != 1:
            raise G.Unrecognised(f"{w['name']}::{v['name']} is not a newtype variant")
        pa = payload_accessor(v["fields"][0]["ty"])
        if pa is None:
            raise G.Unrecognised(f"{w['name']}::{v['name']}: payload type {A.type_str(v['fields'][0]['ty'])} is not an Api accessor")
        pa["ty_s"] = A.type_str(v["fields"][0]["ty"])
        wf.variants[v["name"]] = pa
    wf.serde_attrs = [A.compact(a["tokens"]) for a in w["attrs"] if a["path"] == "serde"]

    # ---- dispatch: const overlap check
    imp, f = G.dispatch_fn(g, w["name"])
    wf.dispatch = f
    wf.const_lists = None
    wf.const_in_const_ctx = False
    if f is not None:
        stmts, tail = A.block_parts(f["body"])
        for s in stmts:
            if s["k"] == "item" and s["item"].get("k") == "const":
                blk = s["item"]["expr"]
                calls = A.find_all(blk, lambda n: isinstance(n, dict) and n.get("x") and n.get("k") == "call"
                                   and A.last_seg(n["func"]) == "assert_no_intersection")
                if calls:
                    wf.const_in_const_ctx = True
                    wf.const_lists = _lists_feeding(blk, calls[0])
        # also look for calls outside const context
        allc = A.find_all(f["body"], lambda n: isinstance(n, dict) and n.get("x") and n.get("k") == "call"
                          and A.last_seg(n["func"]) == "assert_no_intersection")
        wf.assert_calls = len(allc)

    # ---- hand-written Deserialize
    des = [i for i in g.trait_impls("Deserialize", w["name"], deep=False) if not A.has_attr(i, "automatically_derived")]
    wf.de_impls = len(des)
    wf.de = None
    if len(des) == 1:
        wf.de = analyse_deserialize(des[0], w["name"])
    # ---- derived Serialize
    wf.ser = g.serde(w)["ser"] if g.trait_impls("Serialize", w["name"]) else None
    # ---- From impls
    wf.froms = []
    for i in g.trait_impls("From", w["name"], deep=False):
        targ = i["trait"]["path"]["segs"][-1]["args"]
        src_ty = A.type_str(targ[0]) if isinstance(targ, list) and targ else None
        fn = g.method(i, "from")
        built = None
        if fn is not None:
            st, tail = A.block_parts(fn["body"])
            t = A.strip_expr(tail) if tail else None
            if not st and t and t["k"] == "call" and t["func"].get("k") == "path" and len(t["args"]) == 1:
                ids = A.path_ids(t["func"])
                arg = A.path_ids(A.strip_expr(t["args"][0]))
                pname = fn["inputs"][0]["pat"].get("name") if fn["inputs"] else None
                if ids and ids[0] in ("Self", w["name"]) and arg == [pname]:
                    built = ids[-1]
        wf.froms.append({"src": src_ty, "variant": built})
    # ---- JsonSchema any_of
    wf.any_of = None
    js = [i for i in g.trait_impls("JsonSchema", w["name"], deep=False)]
    if len(js) == 1:
        fn = g.method(js[0], "json_schema")
        if fn:
            subs = A.find_all(fn["body"], lambda n: isinstance(n, dict) and n.get("x") and n.get("k") == "mcall" and n["method"] == "subschema_for")
            wf.any_of = [A.type_str(s["turbofish"][0]) if s.get("turbofish") else None for s in subs]
            anyf = A.find_all(fn["body"], lambda n: isinstance(n, dict) and n.get("x") and n.get("k") == "struct"
                              and any(fl["member"] == "any_of" for fl in n["fields"]))
            wf.any_of_field = len(anyf)
    # ---- QueryResponses
    wf.responses = None
    qr = [i for i in g.trait_impls("QueryResponses", w["name"], deep=False)]
    if qr:
        fn = g.method(qr[0], "response_schemas_impl")
        if fn:
            calls = A.find_all(fn["body"], lambda n: isinstance(n, dict) and n.get("x") and n.get("k") == "call"
                               and A.last_seg(n["func"]) == "response_schemas_impl")
            wf.responses = [_responses_callee(c["func"]) for c in calls]
            wf.responses_body = fn["body"]
    return wf


def _responses_callee(func):
    """`T::response_schemas_impl` and `<T as ..::QueryResponses>::response_schemas_impl` name the same function unless T has an
    inherent function of that name (the qualified form is the robust one); both normalise to `T::response_schemas_impl`"""
    if func.get("qself") and func.get("qpos") and func["path"]["segs"][func["qpos"] - 1]["id"] == "QueryResponses" \
            and len(func["path"]["segs"]) == func["qpos"] + 1:
        return A.type_str(func["qself"]) + "::" + func["path"]["segs"][-1]["id"]
    return A.expr_path_str(func)


def _lists_feeding(blk, call):
    """lists passed to assert_no_intersection: either inline array or a let-bound array"""
    arg = A.strip_expr(call["args"][0]) if call["args"] else None
    if arg is None:
        return None
    if arg["k"] == "path":
        name = A.path_ids(arg)[0]
        for s in blk.get("stmts", []):
            if s["k"] == "let" and s["pat"].get("k") in ("ident", "typed"):
                p = s["pat"] if s["pat"]["k"] == "ident" else s["pat"]["pat"]
                if p.get("name") == name and s["init"]:
                    arg = A.strip_expr(s["init"])
    if arg["k"] != "array":
        return None
    return [list_call(e) for e in arg["elems"]]


def analyse_deserialize(impl, wname):
    """Control-flow skeleton of the wrapper's Deserialize::deserialize. Returns dict of facts;
    raises G.Unrecognised when a step does not match the recognised forms."""
    fn = next((x for x in impl["items"] if x.get("k") == "fn" and x["name"] == "deserialize"), None)
    if fn is None:
        raise G.Unrecognised("Deserialize impl without deserialize")
    d = {"generic_value": False, "map_guard": False, "len_guard": False, "key_is_string": False,
         "attempts": [], "error_lists": None, "unwrap_sites": [], "panic_sites": [], "order_ok": True,
         "fn": fn, "helper_generic": [p["name"] for p in fn["generics"]["params"]], "lets_after": {}, "truncates": []}
    stmts, tail = A.block_parts(fn["body"])
    seen = []
    val_name = map_name = key_name = None
    for s in stmts:
        if s["k"] == "item":
            continue
        if s["k"] == "let" and s["init"] is not None:
            init = A.strip_expr(s["init"])
            pn = s["pat"].get("name") if s["pat"]["k"] == "ident" else (s["pat"]["pat"].get("name") if s["pat"]["k"] == "typed" else None)
            # let val = Value::deserialize(deserializer)?
            if init["k"] == "try":
                c = A.strip_expr(init["expr"])
                if c["k"] == "call" and A.path_ids(c["func"]) and A.path_ids(c["func"])[-2:] == ["Value", "deserialize"]:
                    d["generic_value"] = True
                    val_name = pn
                    seen.append("value")
                    continue
            # let map = match &val { Value::Map(map) => map, _ => return Err(..) }
            if init["k"] == "match":
                scr = A.strip_expr(init["expr"])
                if scr["k"] == "ref":
                    scr = scr["expr"]
                if A.path_ids(scr) == [val_name] and len(init["arms"]) == 2:
                    a0, a1 = init["arms"]
                    ok0 = a0["pat"]["k"] == "tuplestruct" and a0["pat"]["path"]["segs"][-1]["id"] == "Map"
                    ok1 = a1["pat"]["k"] == "wild" and _returns_err(a1["body"])
                    if ok0 and ok1:
                        d["map_guard"] = True
                        map_name = pn
                        seen.append("map")
                        continue
            # let recv = map.into_iter().next().unwrap()
            if init["k"] == "mcall" and init["method"] == "unwrap":
                r = A.strip_expr(init["recv"])
                if r["k"] == "mcall" and r["method"] == "next" and r["recv"]["k"] == "mcall" and r["recv"]["method"] in ("into_iter", "iter") \
                        and A.path_ids(r["recv"]["recv"]) == [map_name]:
                    d["unwrap_sites"].append({"what": "map.into_iter().next().unwrap()", "guarded": "len" in seen})
                    key_name = pn
                    seen.append("key")
                    continue
            # let msgs: [&[&str]; N] = [ ... ]
            if init["k"] == "array" and init["elems"] and all(list_call(e) for e in init["elems"]):
                d["error_lists"] = (d["error_lists"] or []) + [list_call(e) for e in init["elems"]]
                seen.append("errlists")
                d["lets_after"][pn] = init
                continue
            # let mut err_msg = msgs.into_iter().flatten().fold(format!(".. : "), |acc, m| acc + m + ", ")
            if init["k"] == "mcall" and init["method"] == "fold":
                lits = [n["v"] for n in A.find_all(init["args"][0], lambda n: isinstance(n, dict) and n.get("x") and n.get("k") == "lit" and n.get("lk") == "str")]
                macs = A.find_all(init["args"][0], lambda n: isinstance(n, dict) and n.get("k") == "macro")
                d["fold_init_literals"] = lits
                d["fold_init_macros"] = [A.tt_flat(mm["tt"]) for mm in macs]
                d["err_msg_name"] = pn
                d["lets_after"][pn] = init
                seen.append("fold")
                continue
            if "attempts" in seen:
                # free-form error construction after the routing attempts: remembered for the panic-site rule, lists collected
                d["lets_after"][pn] = init
                for arr in A.find_all(init, lambda n: isinstance(n, dict) and n.get("x") and n.get("k") == "array" and n["elems"] and all(list_call(e) for e in n["elems"])):
                    d["error_lists"] = (d["error_lists"] or []) + [list_call(e) for e in arr["elems"]]
                seen.append("free-let")
                continue
            raise G.Unrecognised(f"deserialize: unrecognised let at expanded line {s['ln']}")
        if s["k"] == "expr":
            e = A.strip_expr(s["expr"])
            # if map.len() != 1 { return Err(..) }
            if e["k"] == "if" and e["cond"]["k"] == "binary":
                c = e["cond"]
                l, r = A.strip_expr(c["left"]), A.strip_expr(c["right"])
                if c["op"] == "!=" and l["k"] == "mcall" and l["method"] == "len" and A.path_ids(l["recv"]) == [map_name] \
                        and r["k"] == "lit" and r["v"] == "1" and _returns_err(e["then"]) and e["else"] is None:
                    d["len_guard"] = True
                    seen.append("len")
                    continue
            # if let Value::String(name) = &key.0 { attempts }
            if e["k"] == "if" and e["cond"]["k"] == "letexpr":
                le = e["cond"]
                pat = le["pat"]
                src = A.strip_expr(le["expr"])
                if src["k"] == "ref":
                    src = src["expr"]
                if pat["k"] == "tuplestruct" and pat["path"]["segs"][-1]["id"] == "String" and src["k"] == "field" \
                        and A.path_ids(src["base"]) == [key_name] and src["member"] == 0:
                    d["key_is_string"] = True
                    name_binding = pat["elems"][0].get("name")
                    d["attempts"] = _attempts(e["then"], name_binding, val_name)
                    seen.append("attempts")
                    continue
            # err_msg.truncate(err_msg.len() - 2)
            if e["k"] == "mcall" and e["method"] == "truncate":
                d["truncate"] = e
                d["truncates"].append(e)
                seen.append("truncate")
                continue
            raise G.Unrecognised(f"deserialize: unrecognised statement at expanded line {s['ln']}")
        if s["k"] == "macro":
            raise G.Unrecognised("deserialize: unexpanded macro statement")
    d["seen"] = seen
    d["tail_is_err"] = tail is not None and _is_err_custom(A.strip_expr(tail))
    # generic panic-site census
    for n in A.find_all(fn["body"], lambda n: isinstance(n, dict) and n.get("x")):
        if n["k"] == "mcall" and n["method"] in ("unwrap", "expect", "unwrap_unchecked"):
            d["panic_sites"].append(("unwrap", n["ln"]))
        if n["k"] == "index":
            d["panic_sites"].append(("index", n["ln"]))
        if n["k"] == "binary" and n["op"] in ("-", "/", "%"):
            d["panic_sites"].append(("arith" + n["op"], n["ln"]))
        if n["k"] == "macro" and n["path"].split("::")[-1] in ("panic", "unreachable", "unimplemented", "todo", "assert"):
            d["panic_sites"].append(("macro", n["ln"]))
        if n["k"] == "call" and A.last_seg(n["func"]) in ("panic_fmt", "panic", "unreachable_display", "begin_panic"):
            d["panic_sites"].append(("panic", n["ln"]))
    return d


def _is_err_custom(e):
    return e is not None and e["k"] == "call" and A.last_seg(e["func"]) == "Err"


def _returns_err(e):
    e = A.strip_expr(e)
    if e["k"] == "block":
        st, tail = A.block_parts(e)
        if len(st) == 1 and tail is None and st[0]["k"] == "expr":
            e = A.strip_expr(st[0]["expr"])
        elif not st and tail is not None:
            e = A.strip_expr(tail)
    return e["k"] == "return" and e["expr"] is not None and _is_err_custom(A.strip_expr(e["expr"]))


def _attempts(block, name_binding, val_name):
    """sequence of:  let msgs = &X_messages(); if msgs.into_iter().any(|msg| msg == &name) { match val.deserialize_into() {..}; }"""
    out = []
    stmts, tail = A.block_parts(block)
    if tail is not None:
        stmts = stmts + [{"k": "expr", "expr": tail, "ln": tail.get("ln")}]
    cur_lists = {}
    for s in stmts:
        if s["k"] == "let" and s["pat"]["k"] == "ident" and s["init"] is not None:
            lc = list_call(s["init"])
            if lc is None:
                raise G.Unrecognised("attempt: let that is not a messages() list")
            cur_lists[s["pat"]["name"]] = lc
            continue
        if s["k"] == "expr":
            e = A.strip_expr(s["expr"])
            if e["k"] == "if" and e["else"] is None:
                c = A.strip_expr(e["cond"])
                # msgs.into_iter().any(|msg| msg == &name)   |  msgs.contains(&name) ...
                lst = None
                if c["k"] == "mcall" and c["method"] == "any" and c["recv"]["k"] == "mcall" and c["recv"]["method"] in ("into_iter", "iter"):
                    lst = A.path_ids(c["recv"]["recv"])
                    cl = A.strip_expr(c["args"][0])
                    okc = False
                    if cl["k"] == "closure" and len(cl["inputs"]) == 1:
                        b = A.strip_expr(cl["body"])
                        if b["k"] == "binary" and b["op"] == "==":
                            sides = []
                            for side in (b["left"], b["right"]):
                                side = A.strip_expr(side)
                                while side["k"] in ("ref",) or (side["k"] == "unary" and side["op"] == "*"):
                                    side = A.strip_expr(side["expr"])
                                sides.append(A.path_ids(side))
                            vn = cl["inputs"][0].get("name")
                            okc = sorted(map(str, sides)) == sorted(map(str, [[vn], [name_binding]]))
                    if not okc:
                        raise G.Unrecognised("attempt: membership closure is not `|msg| msg == &name`")
                elif c["k"] == "mcall" and c["method"] == "contains":
                    lst = A.path_ids(c["recv"])
                else:
                    raise G.Unrecognised("attempt: unrecognised membership test")
                if not lst or lst[0] not in cur_lists:
                    raise G.Unrecognised("attempt: membership test on an unknown list")
                # body: match val.deserialize_into() { Ok(msg) => return Ok(Self::V(msg)), Err(err) => return Err(custom(err)).map(Self::V) };
                ms = A.find_all(e["then"], lambda n: isinstance(n, dict) and n.get("x") and n.get("k") == "match")
                if len(ms) != 1:
                    raise G.Unrecognised("attempt: body without a single match")
                mm = ms[0]
                scr = A.strip_expr(mm["expr"])
                if not (scr["k"] == "mcall" and scr["method"] == "deserialize_into" and A.path_ids(scr["recv"]) == [val_name]):
                    raise G.Unrecognised("attempt: match scrutinee is not val.deserialize_into()")
                ok_v = err_v = None
                err_forwarded = False
                for arm in mm["arms"]:
                    p = arm["pat"]
                    b = A.strip_expr(arm["body"])
                    if p["k"] == "tuplestruct" and p["path"]["segs"][-1]["id"] == "Ok":
                        bn = p["elems"][0].get("name")
                        if b["k"] == "return" and b["expr"]:
                            r = A.strip_expr(b["expr"])
                            if r["k"] == "call" and A.last_seg(r["func"]) == "Ok" and len(r["args"]) == 1:
                                inner = A.strip_expr(r["args"][0])
                                if inner["k"] == "call" and len(inner["args"]) == 1 and A.path_ids(A.strip_expr(inner["args"][0])) == [bn]:
                                    ids = A.path_ids(inner["func"])
                                    if ids and len(ids) == 2 and ids[0] == "Self":
                                        ok_v = ids[1]
                    elif p["k"] == "tuplestruct" and p["path"]["segs"][-1]["id"] == "Err":
                        bn = p["elems"][0].get("name")
                        if b["k"] == "return" and b["expr"]:
                            r = A.strip_expr(b["expr"])
                            # Err(D::Error::custom(err)).map(Self::V)  or  Err(D::Error::custom(err))
                            if r["k"] == "mcall" and r["method"] == "map":
                                ids = A.path_ids(A.strip_expr(r["args"][0]))
                                if ids and len(ids) == 2:
                                    err_v = ids[1]
                                r = A.strip_expr(r["recv"])
                            if r["k"] == "call" and A.last_seg(r["func"]) == "Err":
                                inner = A.strip_expr(r["args"][0])
                                if inner["k"] == "call" and A.last_seg(inner["func"]) == "custom" and A.path_ids(A.strip_expr(inner["args"][0])) == [bn]:
                                    err_forwarded = True
                if ok_v is None or not err_forwarded:
                    raise G.Unrecognised("attempt: match arms are not `Ok(msg) => return Ok(Self::V(msg))` / `Err(err) => return Err(custom(err))`")
                out.append({"list": cur_lists[lst[0]], "variant": ok_v, "err_variant": err_v})
                continue
        raise G.Unrecognised("attempt: unrecognised statement")
    return out
