"""C14 — behaviour does not depend on the order of declarations (differential translation validation)."""
import json

from .. import check
from .. import facts as F
from . import common as C
from . import semfacts as S
from .common import A, G, M

STATEMENT = "reordering handler methods or repeatable attributes changes neither acceptance nor wire format, routing, dispatch targets, reply behaviour or the entry-point set (only numeric reply ids may differ)"


def facts_by_item(ctx, fx):
    crate_by_key = {c["key"]: c for c in fx.crates}
    out = {}
    for m in fx.items:
        c = crate_by_key[m.crate_key]
        if c.get("expect_fail") or getattr(m, "noop", False):
            continue
        exp = fx.expanded.get(m.crate_key)
        if exp is None:
            out[m.key] = ("no-expansion", None)
            continue
        g = G.GenItem(m, exp)
        if g.sv is None:
            out[m.key] = ("no-sv", None)
            continue
        out[m.key] = ("ok", S.semfacts(ctx, m, g), m)
    return out


def verdicts(fx):
    out = {}
    for c in fx.crates:
        out[c["key"] + "@" + (c["witness"]["package"] if c.get("witness") else "repo")] = bool(F.target_errors(fx, c))
    return out


def diff_paths(a, b, path=""):
    """paths at which two JSON values differ (first few)"""
    out = []
    if type(a) != type(b):
        return [path or "/"]
    if isinstance(a, dict):
        for k in sorted(set(a) | set(b)):
            if k not in a or k not in b:
                out.append(f"{path}/{k}")
            else:
                out += diff_paths(a[k], b[k], f"{path}/{k}")
    elif isinstance(a, list):
        if len(a) != len(b):
            out.append(path + "[len]")
        else:
            for i, (x, y) in enumerate(zip(a, b)):
                out += diff_paths(x, y, f"{path}[{i}]")
    elif a != b:
        out.append(path)
    return out[:12]


def n_handlers(m):
    return sum(len(v) for v in m.handlers.values())


def run(ctx):
    base = C.facts(ctx)
    variants = ["perm:rev"] if ctx.tier == "quick" else ["perm:rev", "perm:rot", f"perm:swap{ctx.seed % 5}", f"perm:swap{(ctx.seed + 2) % 5 + 1}"]
    # the witness packages computed from the generator's templates (vlib/dynwit.py) are not part of the permuted builds
    dyn = set(getattr(base, "dyn_info", {}) or {})
    dyn_crates = {c["key"] for c in base.crates if c.get("witness") and c["witness"]["package"] in dyn}
    base_items = {k: v for k, v in facts_by_item(ctx, base).items() if not any(k.startswith(c.split(".")[0] + "::") for c in dyn_crates)}
    base_verdicts = {k: v for k, v in verdicts(base).items() if k.split("@")[-1] not in dyn}
    for var in variants:
        fx = F.get_facts(ctx.tier, var)
        items = facts_by_item(ctx, fx)
        v2 = verdicts(fx)
        tag = var.split(":")[1]
        # (a) acceptance
        for k, failed in base_verdicts.items():
            ctx.inst("C14.acceptance", distinct=(k, tag))
            if k not in v2:
                ctx.violation("C14.acceptance", [tag, k, "missing"], k, "same corpus target in the permuted build", "absent", STATEMENT)
            elif v2[k] != failed:
                ctx.violation("C14.acceptance", [tag, k], k, f"{'rejected' if failed else 'accepted'} in declaration order => same after permutation `{tag}`",
                              f"{'rejected' if v2[k] else 'accepted'} after permutation", STATEMENT, "an order-dependent table in the generator (ReplyData::merge, first-wins lookups)")
        # (b) semantic facts
        for key, b in base_items.items():
            p = items.get(key)
            ctx.inst("C14.facts", distinct=(key, tag))
            if p is None:
                ctx.violation("C14.facts", [tag, key, "missing"], key, "item present in the permuted corpus", "absent", STATEMENT)
                continue
            if b[0] != "ok" or p[0] != "ok":
                if b[0] != p[0]:
                    ctx.violation("C14.facts", [tag, key, "status"], key, b[0], p[0], STATEMENT)
                continue
            m = b[2]
            if n_handlers(m) >= 2:
                ctx.program(key)
            if len(m.messages) >= 2:
                ctx.tag("perm.interfaces>=2")
            if len(m.overrides) >= 2:
                ctx.tag("perm.overrides>=2")
            if len(m.handlers["reply"]) >= 2:
                ctx.tag("perm.reply-methods>=2")
            for section in sorted(set(b[1]) | set(p[1])):
                if b[1].get(section) != p[1].get(section):
                    dp = diff_paths(b[1].get(section), p[1].get(section))
                    ctx.violation("C14.facts", [tag, key, section], f"{m.origin}::{'::'.join(m.modpath + [m.name])}",
                                  f"section `{section}` identical under permutation `{tag}`", f"differs at {dp}", STATEMENT,
                                  "an order-dependent choice in the generator")
        ctx.sample({"permutation": tag, "items_compared": len(base_items), "targets_compared": len(base_verdicts)})
    for t in ("perm.interfaces>=2", "perm.reply-methods>=2", "perm.overrides>=2"):
        if ctx.tags.get(t, 0) == 0:
            ctx.violation("TAG", [t], "corpus", f"a corpus program exercising {t}", "none", "corpus adequacy")
    ctx.floor("C14.facts", 100)
    return check.finish(
        ctx, "translation_validation",
        "the whole corpus is rebuilt with the handler methods and the repeatable attributes (sv::messages, sv::override_entry_point) of every sylvia item permuted (quick: reversed; thorough: reversed, rotated, two adjacent transpositions chosen by VERIF_SEED); (a) every target is accepted/rejected as before; (b) the semantic facts the other rules extract (wire name -> handler/fields/argument map/adapter, published lists, wrapper routing maps, reply name -> (targets, context, data, payload codec, reply_on), entry-point bodies, multitest methods, helper maps, response tables) are identical; numeric reply ids, item / arm / variant order and type-parameter order are deliberately not compared",
        "differential translation validation between declaration orders",
        ["permutations are sampled, not enumerated (n! orders); facts are keyed by names so any order dependence that changes behaviour shows in them"])
