"""Shared by the property modules: facts access and (model item, generated item) pairing."""
from .. import ast as A
from .. import facts as F
from .. import gen as G
from .. import model as M
from ..util import CheckError, ENUM_KINDS, KINDS, EP_NAME, MSG_NAME, WRAPPER_NAME, ACCESSOR, WRAPPER_ACCESSOR

_cache = {}


def facts(ctx):
    key = ctx.tier
    if key not in _cache:
        _cache[key] = F.get_facts(ctx.tier)
    return _cache[key]


FEATURE_VARIANTS = {"nomt": {"C01", "C02", "C03", "C04", "C05", "C06", "C07", "C08", "C09", "C10", "C13", "C15", "C16", "C17"},
                    "mt-nocw12": {"C12", "C06"}}


def pairs(ctx, want_kind=None, need_sv=True, include_noop=False):
    """Yield (model_item, GenItem) for every corpus item whose target type-checked and expanded. In the thorough tier the
    feature-matrix variants (sylvia built without `mt`, resp. without `cosmwasm_1_2`) are appended for the properties that
    are meaningful there."""
    yield from _pairs_of(ctx, facts(ctx), want_kind, need_sv, "", include_noop)
    if ctx.tier == "thorough":
        for variant, props in FEATURE_VARIANTS.items():
            if ctx.prop in props:
                fxv = F.get_facts("quick", "feat:" + variant)
                for m in fxv.items:
                    if not m.crate_key.startswith(variant + "/"):
                        m.crate_key_plain = m.crate_key
                        m.crate_key = variant + "/" + m.crate_key
                        m.crate = variant + "/" + m.crate
                ctx.tag("feat." + variant)
                yield from _pairs_of(ctx, fxv, want_kind, need_sv, variant + "/", include_noop)


def _pairs_of(ctx, fx, want_kind, need_sv, prefix, include_noop=False):
    crate_by_key = {prefix + c["key"]: c for c in fx.crates}
    n = 0
    broken_elsewhere = any((F.target_errors(fx, c) or c.get("expansion_error")) and not c.get("expect_fail") for c in fx.crates)
    for m in fx.items:
        if want_kind and m.kind != want_kind:
            continue
        if getattr(m, "noop", False) and not include_noop:
            continue
        c = crate_by_key[m.crate_key]
        if c.get("expect_fail"):
            continue
        exp = fx.expanded.get(getattr(m, "crate_key_plain", m.crate_key))
        errs = F.target_errors(fx, c)
        if exp is None:
            if errs or c.get("expansion_error") or broken_elsewhere:
                # the target does not compile / its expansion is not parseable: reported by the compile rule of the owning properties
                ctx.note(f"target {m.crate_key} skipped: {c.get('expansion_error') or 'no expansion (it, or a corpus crate it depends on, does not compile)'}")
                continue
            raise CheckError(f"no expansion for corpus target {m.crate_key} ({c['origin']})")
        if errs:
            # a corpus program that is meant to compile does not: surfaced by C-compile rule of the owning property
            ctx.note(f"target {m.crate_key} has {len(errs)} compile errors")
        g = G.GenItem(m, exp)
        if getattr(m, "entry_points_via_cfg", False) and "src" in g.probes:
            # cfg_attr(.., entry_points): the compiler evaluated the cfg before the first probe saw the item
            head = g.probes["src"].split(" impl", 1)[0]
            m.entry_points = "entry_points" in head
        if need_sv and g.sv is None and not getattr(m, "noop", False):
            raise CheckError(f"{m.key}: no generated `sv` module found")
        n += 1
        yield m, g
    if n == 0:
        raise CheckError("corpus is empty")


def corpus_must_compile(ctx, rule="compile"):
    """Every must-compile corpus target type-checks (T1 applies only then)."""
    all_fx = [("", facts(ctx))]
    if ctx.tier == "thorough":
        for variant, props in FEATURE_VARIANTS.items():
            if ctx.prop in props:
                all_fx.append((variant + "/", F.get_facts("quick", "feat:" + variant)))
    for prefix, fx in all_fx:
        _must_compile(ctx, rule, fx, prefix)


def _must_compile(ctx, rule, fx, prefix):
    for c in fx.crates:
        if c.get("expect_fail"):
            continue
        w = c.get("witness")
        if w is not None and (not c.get("indexed", True) or ctx.prop not in w["props"]):
            continue            # witnesses are decided by the properties that own them (witness.run_for / this rule)
        errs = F.target_errors(fx, c)
        ctx.inst(rule)
        if errs or (c.get("indexed", True) and not c["has_expansion"] and not broken_dep(fx, c)):
            e0 = errs[0] if errs else {"message": c.get("expansion_error") or "no expansion produced", "spans": []}
            sp = next((s for s in e0["spans"] if s["is_primary"]), None)
            where = f"{sp['file']}:{sp['line_start']}" if sp else c["origin"]
            ctx.violation(rule, [prefix + c["key"]], where, "corpus program type-checks", f"{e0.get('code')}: {e0['message']}",
                          statement="a valid program of the corpus is rejected (or the generated code does not compile)")


def broken_dep(fx, c):
    """no diagnostics and no expansion: cargo skipped the target because a corpus crate it depends on failed (reported there)"""
    return not F.target_errors(fx, c) and not c.get("expansion_error") and any(
        (F.target_errors(fx, o) or o.get("expansion_error")) and not o.get("expect_fail") for o in fx.crates if o is not c)


def where(m, node=None):
    ln = node.get("ln") if isinstance(node, dict) else None
    return f"{m.origin}::{'::'.join(m.modpath + [m.name])}" + (f" (expanded line {ln})" if ln else "")


def variant_of_handler(g, kind, arms):
    """handler fn name -> variant name, from analysed dispatch arms."""
    out = {}
    for a in arms:
        if a.get("phantom"):
            continue
        out.setdefault(a["handler"], []).append(a["variant"])
    return out


class EnumInfo:
    """Everything the rules need about one generated K-enum of one item."""
    pass


def enum_info(ctx, m, g, kind, rule):
    """Analyse the K-enum of item m. Reports UNRECOGNISED via ctx and returns None when it cannot."""
    key = [m.crate_key, "::".join(m.modpath + [m.name]), kind]
    try:
        ty = g.msg_type(kind)
        if ty is None:
            ctx.violation(rule, key + ["missing-type"], where(m), f"generated {MSG_NAME[kind]}", "absent")
            return None
        if ty["k"] != "enum":
            ctx.violation(rule, key + ["not-enum"], where(m, ty), f"{MSG_NAME[kind]} is an enum", ty["k"])
            return None
        imp, f = G.dispatch_fn(g, ty["name"])
        if f is None:
            ctx.violation(rule, key + ["no-dispatch"], where(m, ty), "inherent fn dispatch", "absent")
            return None
        extra, mt = G.dispatch_match(f)
        arms = [G.analyse_enum_arm(a, kind) for a in mt["arms"]]
    except G.Unrecognised as e:
        ctx.unrecognised(rule, key, where(m), str(e))
        return None
    info = EnumInfo()
    info.kind = kind
    info.ty = ty
    info.impl = imp
    info.dispatch = f
    info.arms = arms
    info.h2v = {}
    for a in arms:
        if not a.get("phantom"):
            info.h2v.setdefault(a["handler"], []).append(a["variant"])
    info.key = key
    return info


def corpus_adequacy(ctx, enforce=False):
    """Template coverage of the generator by the corpus (vlib/adequacy.py): recorded in the evidence of every property that is
    decided per corpus program; enforced (violation for an unexplained uncovered template) by the property that passes enforce=True."""
    import zlib
    from .. import adequacy
    fx = facts(ctx)
    key = ("adequacy", ctx.tier)
    if key not in _cache:
        texts = [zlib.decompress(z).decode("utf-8", "replace") for z in getattr(fx, "expanded_text_z", {}).values()]
        _cache[key] = adequacy.template_coverage(texts)
    cov = _cache[key]
    ctx.extra["generator_template_coverage"] = {"templates": cov["total"], "observed_in_corpus_expansion": cov["covered"], "unmeasurable": cov["unmeasurable"],
                                                "uncovered_explained": [f"{e['file']}::{e['fn']}#{e['index']}: {e['reason']}" for e in cov["allowlisted"]],
                                                "uncovered": [f"{e['file']}:{e['line']} {e['fn']}#{e['index']}" for e in cov["uncovered"]]}
    if enforce:
        ctx.inst("ADEQ.template-coverage", cov["total"])
        for e in cov["uncovered"]:
            ctx.violation("ADEQ.template-coverage", [e["file"], e["fn"], e["index"]], f"{e['file']}:{e['line']} fn {e['fn']}", "every measurable quote! template of the generator is observed in the expansion of some corpus program",
                          f"no corpus program takes this emission branch (literal run: `{e['sample_run']}`)", "corpus adequacy: translation validation is per corpus program, so the corpus must take every emission branch")
    return cov


def generated_statics(g):
    """names of `static` items (and thread_local!/lazy_static! invocations) anywhere inside the code generated for one corpus
    item: the `sv` module and the `entry_points` module, both emitted entirely by the macros. Generated code lives in generic
    impls: a `static` there is ONE object shared by every instantiation (and every call), so a value derived from type
    parameters that is parked in it leaks between instantiations. The generator has no business emitting one; expected: []."""
    out = []
    for items in (g.sv, g.entry_points):
        if not items:
            continue
        for n in A.find_all(items, lambda n: isinstance(n, dict) and n.get("k") == "static" and "name" in n and not n.get("x") and not n.get("t")):
            out.append(n["name"])
        for n in A.find_all(items, lambda n: isinstance(n, dict) and n.get("k") == "macro" and str(n.get("path", "")).split("::")[-1] in ("thread_local", "lazy_static")):
            out.append(n["path"] + "!")
    return out
