"""C03 — contract-level message accepts exactly the union of its parts and routes right."""
from .. import check
from . import common as C
from . import wrapper as W
from .common import A, G, ENUM_KINDS, EP_NAME, ACCESSOR, WRAPPER_NAME

STATEMENT = "the contract-level message decodes a one-key object by looking the key up in each part's published list and decoding into that part; lists equal the parts' wire names"


def parts_of(m):
    parts = [{"variant": e["variant"], "module": e["module"], "kind": "iface"} for e in m.messages]
    parts.append({"variant": m.name, "module": None, "kind": "contract"})
    return parts


def check_list_eq_wire(ctx, m, g, kind, rule="C03.d-list-eq-wire"):
    key = [m.crate_key, "::".join(m.modpath + [m.name]), kind]
    ty = g.msg_type(kind)
    if ty is None or ty["k"] != "enum":
        return
    try:
        lst = g.messages_list(kind)
        sf = g.serde(ty)
    except G.Unrecognised as e:
        ctx.unrecognised(rule, key, C.where(m), str(e))
        return
    ctx.inst(rule, distinct=(m.key, kind))
    if lst is None:
        ctx.violation(rule, key + ["missing"], C.where(m), f"fn {EP_NAME[kind]}_messages", "absent", STATEMENT, "EnumMessage::emit")
        return
    variants = sf["de"]["VARIANTS"] if sf["de"] else None
    ser_wires = sorted(v["wire"] for v in sf["ser"]["variants"].values()) if sf["ser"] else None
    if variants is None or sorted(lst) != sorted(variants) or sorted(lst) != ser_wires:
        ctx.violation(rule, key + ["mismatch"], C.where(m, g.messages_fn(kind)),
                      f"{EP_NAME[kind]}_messages() == names the {kind} message (de)serialises under: {sorted(variants or [])}", sorted(lst), STATEMENT,
                      "MsgVariants::as_names_snake_cased (convert_case) vs serde rename_all")
    if len(ctx.samples) < 4 and lst:
        ctx.sample({"program": m.key, "kind": kind, "published_list": lst, "serde_VARIANTS": variants})


def check_wrapper(ctx, m, g, kind):
    key = [m.crate_key, "::".join(m.modpath + [m.name]), "wrapper", kind]
    try:
        wf = W.analyse(m, g, kind)
    except G.Unrecognised as e:
        ctx.unrecognised("C03.b-deserialize", key, C.where(m), str(e))
        return
    parts = parts_of(m)
    n = len(parts)
    ctx.tag(f"wrap.{kind}.parts" + ("1" if n == 1 else "2" if n == 2 else "3+"))
    want_fn = EP_NAME[kind] + "_messages"
    # (a) variants
    ctx.inst("C03.a-variants", distinct=(m.key, kind))
    if sorted(wf.variants) != sorted(p["variant"] for p in parts):
        ctx.violation("C03.a-variants", key + ["set"], C.where(m, wf.ty), sorted(p["variant"] for p in parts), sorted(wf.variants), STATEMENT, "Interfaces::emit_glue_message_variants")
    for p in parts:
        v = wf.variants.get(p["variant"])
        if v is None:
            continue
        ok = v["kind"] == p["kind"] and v["acc"] == ACCESSOR[kind] and (v["module"] == p["module"]) and v["self"] == A.type_str(m.self_ty)
        if not ok:
            ctx.violation("C03.a-variants", key + [p["variant"], "payload"], C.where(m, wf.ty),
                          f"<{A.type_str(m.self_ty)} as {p['module'] + '::sv::InterfaceMessagesApi' if p['module'] else 'ContractApi'}>::{ACCESSOR[kind]}", v["ty_s"], STATEMENT,
                          "Interfaces::emit_glue_message_variants / GlueMessage::emit")
    # (b) Deserialize skeleton
    ctx.inst("C03.b-deserialize", distinct=(m.key, kind))
    if wf.de_impls != 1 or wf.de is None:
        ctx.violation("C03.b-deserialize", key + ["impl"], C.where(m, wf.ty), "one hand-written Deserialize impl", wf.de_impls, STATEMENT, "GlueMessage::emit")
        return
    d = wf.de
    for flag, what in (("generic_value", "parse into a generic value first"), ("map_guard", "reject non-objects"),
                       ("len_guard", "reject maps whose length is not 1"), ("key_is_string", "key must be a string"),
                       ("tail_is_err", "fall through to an error")):
        if not d[flag]:
            ctx.violation("C03.b-deserialize", key + [flag], C.where(m, d["fn"]), what, "missing", STATEMENT, "GlueMessage::emit (Deserialize)")
    # the guards must precede the routing attempts; what follows is the construction of the error (free form)
    want_prefix = ["value", "map", "len", "key", "attempts"]
    if [x for x in d["seen"] if x in want_prefix] != want_prefix or d["seen"][:5] != want_prefix:
        ctx.violation("C03.b-deserialize", key + ["order"], C.where(m, d["fn"]), want_prefix + ["<error construction>"], d["seen"], STATEMENT)
    att = d["attempts"]
    for p in parts:
        mine = [a for a in att if a["variant"] == p["variant"]]
        if len(mine) != 1:
            ctx.violation("C03.b-deserialize", key + [p["variant"], "attempt-count"], C.where(m, d["fn"]), "exactly one decoding attempt for this part", len(mine), STATEMENT, "Interfaces::emit_deserialization_attempts")
            continue
        a = mine[0]
        if a["list"] != (p["module"], want_fn):
            ctx.violation("C03.b-deserialize", key + [p["variant"], "list"], C.where(m, d["fn"]),
                          f"membership test in {(p['module'] + '::sv::') if p['module'] else ''}{want_fn}()", f"{a['list'][0]}::{a['list'][1]}", STATEMENT,
                          "Interfaces::emit_deserialization_attempts")
        if a["err_variant"] not in (None, p["variant"]):
            ctx.violation("C03.b-deserialize", key + [p["variant"], "err-variant"], C.where(m, d["fn"]), p["variant"], a["err_variant"], STATEMENT)
    extra = [a for a in att if a["variant"] not in [p["variant"] for p in parts]]
    if extra:
        ctx.violation("C03.b-deserialize", key + ["extra-attempts"], C.where(m, d["fn"]), "attempts only for declared parts", [a["variant"] for a in extra], STATEMENT)
    want_lists = sorted((p["module"] or "", want_fn) for p in parts)
    got_lists = sorted((l[0] or "", l[1]) for l in (d["error_lists"] or []))
    if got_lists != want_lists:
        ctx.violation("C03.b-deserialize", key + ["error-lists"], C.where(m, d["fn"]), want_lists, got_lists, STATEMENT, "GlueMessage::emit (messages_call)")
    # (c) serialize transparent + From impls
    ctx.inst("C03.c-serialize", distinct=(m.key, kind))
    if not any("untagged" in a.split(",") for a in wf.serde_attrs):
        ctx.violation("C03.c-serialize", key + ["untagged"], C.where(m, wf.ty), "#[serde(untagged)]", wf.serde_attrs, STATEMENT, "GlueMessage::emit")
    if wf.ser is None or sorted(wf.ser["untagged_variants"]) != sorted(wf.variants):
        ctx.violation("C03.c-serialize", key + ["transparent"], C.where(m, wf.ty), "every variant serialises as its payload", wf.ser and sorted(wf.ser["untagged_variants"]), STATEMENT)
    for vn, v in wf.variants.items():
        fr = [f for f in wf.froms if f["src"] == v["ty_s"]]
        if len(fr) != 1 or fr[0]["variant"] != vn:
            ctx.violation("C03.c-serialize", key + [vn, "from"], C.where(m, wf.ty), f"From<{v['ty_s']}> builds {vn}", fr, STATEMENT, "GlueMessage::emit (From impls)")
    # (e) no panic
    ctx.inst("C03.e-no-panic", distinct=(m.key, kind))
    unwraps = [s for s in d["panic_sites"] if s[0] == "unwrap"]
    if len(unwraps) != len(d["unwrap_sites"]) or any(not u["guarded"] for u in d["unwrap_sites"]):
        ctx.violation("C03.e-no-panic", key + ["unwrap"], C.where(m, d["fn"]), "only `.next().unwrap()` after the len()==1 guard", d["unwrap_sites"] + unwraps, STATEMENT)
    others = [s for s in d["panic_sites"] if s[0] not in ("unwrap", "arith-")]
    if others:
        ctx.violation("C03.e-no-panic", key + ["other-sites"], C.where(m, d["fn"]), "no index / division / panic macro", others, STATEMENT)
    subs = [s for s in d["panic_sites"] if s[0] == "arith-"]
    if subs:
        import re
        sub_nodes = A.find_all(d["fn"]["body"], lambda n: isinstance(n, dict) and n.get("x") and n.get("k") == "binary" and n["op"] == "-")
        for sn in sub_nodes:
            left = A.strip_expr(sn["left"])
            right = A.strip_expr(sn["right"])
            ok = False
            why = "not of the form <string>.len() - <literal>"
            if left["k"] == "mcall" and left["method"] == "len" and right.get("v") is not None and A.path_ids(left["recv"]):
                k = int(right["v"])
                var = A.path_ids(left["recv"])[0]
                init = d["lets_after"].get(var)
                why = f"`{var}` is not built by a fold whose initial value ends in a literal of >= {k} bytes, so `{var}.len() - {k}` can underflow (panic) when every part's name list is empty"
                if init is not None and init["k"] == "mcall" and init["method"] == "fold" and init["args"]:
                    macs = [A.tt_flat(mm["tt"]) for mm in A.find_all(init["args"][0], lambda n: isinstance(n, dict) and n.get("k") == "macro")]
                    for mtxt in macs:
                        mm = re.match(r'\s*"((?:[^"\\]|\\.)*)"', mtxt)
                        if mm and len(mm.group(1).rsplit("}", 1)[-1]) >= k:
                            ok = True
                    lits = [n["v"] for n in A.find_all(init["args"][0], lambda n: isinstance(n, dict) and n.get("x") and n.get("k") == "lit" and n.get("lk") == "str")]
                    if not macs and lits and len(lits[-1]) >= k:
                        ok = True
            if not ok:
                ctx.violation("C03.e-no-panic", key + ["subtraction"], C.where(m, d["fn"]), "length arithmetic only where it cannot underflow", why, STATEMENT,
                              "GlueMessage::emit (error text of the unknown-name path)")


def run(ctx):
    from . import c05
    C.corpus_must_compile(ctx, "C03.compile")
    for m, g in C.pairs(ctx):
        ctx.program(m.key)
        for kind in ENUM_KINDS:
            check_list_eq_wire(ctx, m, g, kind)
            # the wrapper routes by membership in the parts' lists; that exactly one part can claim a name rests on the compile-time
            # overlap scan (C05), whose merge walk is only sound over sorted lists: a necessary condition of "exactly one part accepts"
            c05.check_sorted(ctx, m, g, kind, rule="C03.f-sorted")
            if m.kind == "contract":
                check_wrapper(ctx, m, g, kind)
    C.corpus_adequacy(ctx, enforce=False)
    ctx.floor("C03.b-deserialize", 90)
    ctx.floor("C03.d-list-eq-wire", 150)
    ctx.floor("C03.f-sorted", 150)
    return check.finish(
        ctx, "translation_validation",
        "per contract-level wrapper: variants vs declared parts (payload accessor, module, kind), control-flow skeleton of the hand-written Deserialize (generic value -> map -> len==1 -> string key -> one membership test + deserialize_into + variant per part -> error built from all lists), untagged Serialize + From impls, panic-site census; per item and kind: published list == serde VARIANTS == Serialize wire names",
        "translation validation of expanded wrapper code against the model; serde_cw_value / deserialize_into are trusted (T2)",
        ["behaviour of serde_cw_value::Value / deserialize_into (T2)", "interfaces referenced by a contract are themselves corpus items, so list==wire-names is decided where the list is generated"])
