"""C02 — dispatch runs exactly the annotated handler with the sent arguments."""
import os

from .. import check, util
from . import common as C
from .common import A, G, M, ENUM_KINDS, MSG_NAME, WRAPPER_NAME
from .c01 import NAME_SHAPE

STATEMENT = "the dispatch arm of a message calls exactly the handler it was generated from, fields to same-named parameters, whole ctx converted, result adapted per kind"

CTX_ARITY = {"instantiate": 3, "exec": 3, "query": 2, "sudo": 2, "migrate": 2, "reply": 2}
DEPS = {"instantiate": "DepsMut", "exec": "DepsMut", "query": "Deps", "sudo": "DepsMut", "migrate": "DepsMut", "reply": "DepsMut"}


def last_id(t):
    return t["path"]["segs"][-1]["id"] if t and t.get("k") == "path" else None


def first_garg(t):
    a = t["path"]["segs"][-1]["args"]
    return a[0] if isinstance(a, list) and a else None


def contract_param(f):
    """name of the type parameter standing for the implementing contract in an interface's `dispatch(self, contract: &X, ctx)`
    (whatever the generator calls it: the property does not fix the names of helper parameters)"""
    ins = f["inputs"]
    if len(ins) >= 2 and ins[1]["ty"]["k"] == "ref" and ins[1]["ty"]["elem"]["k"] == "path":
        segs = ins[1]["ty"]["elem"]["path"]["segs"]
        if len(segs) == 1 and not segs[0]["args"]:
            return segs[0]["id"]
    return None


def model_custom(m, which, cname="?"):
    """Model type string (suffix-compared) for the custom msg/query type of an item."""
    if m.custom[which]:
        return m.custom[which]
    if m.kind == "interface":
        assoc = "ExecC" if which == "msg" else "QueryC"
        if any(t["name"] == assoc for t in m.assoc_types):
            return f"<{cname} as {m.name}>::{assoc}"
    return "Empty"


def ty_matches(found_s, want):
    if want == "Empty":
        return found_s.endswith("::Empty") or found_s == "Empty"
    return A.compact(found_s) == A.compact(want)


def check_signature(ctx, m, key, kind, f, node, rule="C02.signature"):
    ctx.inst(rule, distinct=(m.key, kind, node["name"]))
    ins = f["inputs"]
    if len(ins) != 3 or not ins[0].get("recv") or ins[0].get("ref"):
        ctx.violation(rule, key + ["inputs"], C.where(m, f), "(self, contract, ctx)", [A.compact(i.get("s", "")) or i["pat"].get("name") for i in ins], STATEMENT)
        return
    cty = ins[1]["ty"]
    if cty["k"] != "ref" or cty["mut"]:
        ctx.violation(rule, key + ["contract-ref"], C.where(m, f), "&Contract", A.type_str(cty), STATEMENT)
    elif m.kind == "contract":
        want = A.type_str(m.self_ty)
        if A.type_str(cty["elem"]) != want:
            ctx.violation(rule, key + ["contract-type"], C.where(m, f), want, A.type_str(cty["elem"]), STATEMENT)
    t = ins[2]["ty"]
    if ins[2]["pat"].get("name") != "ctx" or t["k"] != "tuple" or len(t["elems"]) != CTX_ARITY[kind]:
        ctx.violation(rule, key + ["ctx-tuple"], C.where(m, f), f"ctx: {CTX_ARITY[kind]}-tuple", A.type_str(t), STATEMENT, "MsgType::emit_ctx_type")
        return
    want_names = [DEPS[kind], "Env"] + (["MessageInfo"] if CTX_ARITY[kind] == 3 else [])
    got = [last_id(e) for e in t["elems"]]
    if got != want_names:
        ctx.violation(rule, key + ["ctx-types"], C.where(m, f), want_names, got, STATEMENT, "MsgType::emit_ctx_type")
    else:
        q = first_garg(t["elems"][0])
        wq = model_custom(m, "query", contract_param(f))
        if q is None or not ty_matches(A.type_str(q), wq):
            ctx.violation(rule, key + ["ctx-query-type"], C.where(m, f), wq, q and A.type_str(q), STATEMENT)
    out = f["output"]
    ok = out and out["k"] == "path" and last_id(out) == "Result" and isinstance(out["path"]["segs"][-1]["args"], list) \
        and len(out["path"]["segs"][-1]["args"]) == 2
    if not ok:
        ctx.violation(rule, key + ["result"], C.where(m, f), "Result<_, Error>", out and A.type_str(out), STATEMENT)
        return
    okty, errty = out["path"]["segs"][-1]["args"]
    if kind == "query":
        if last_id(okty) != "Binary":
            ctx.violation(rule, key + ["result-ok"], C.where(m, f), "Binary", A.type_str(okty), STATEMENT, "MsgType::emit_result_type")
    else:
        if last_id(okty) != "Response":
            ctx.violation(rule, key + ["result-ok"], C.where(m, f), "Response<CustomMsg>", A.type_str(okty), STATEMENT, "MsgType::emit_result_type")
        else:
            cm = first_garg(okty)
            wm = model_custom(m, "msg", contract_param(f))
            if cm is None or not ty_matches(A.type_str(cm), wm):
                ctx.violation(rule, key + ["result-custom-msg"], C.where(m, f), wm, cm and A.type_str(cm), STATEMENT)
    if m.kind == "contract":
        we = m.error or "StdError"
        es = A.type_str(errty)
        if not (A.compact(es) == A.compact(we) or (m.error is None and es.endswith("::StdError"))):
            ctx.violation(rule, key + ["error-type"], C.where(m, f), we, es, STATEMENT)
    else:
        cname = contract_param(f)
        declared = [p["name"] for p in f["generics"]["params"] if p["k"] == "type"]
        if cname is None or cname not in declared:
            ctx.violation(rule, key + ["contract-param"], C.where(m, f), "contract: &X with X a type parameter of dispatch", A.type_str(ins[1]["ty"]), STATEMENT)
        elif A.type_str(errty) != f"{cname}::Error":
            ctx.violation(rule, key + ["error-type"], C.where(m, f), f"{cname}::Error", A.type_str(errty), STATEMENT)


def check_enum(ctx, m, g, kind):
    info = C.enum_info(ctx, m, g, kind, "C02.arm")
    if info is None:
        return
    key = info.key
    check_signature(ctx, m, key, kind, info.dispatch, info.ty)
    try:
        sf = g.serde(info.ty)
        ser = sf["ser"]["variants"] if sf["ser"] else {}
    except G.Unrecognised as e:
        ctx.unrecognised("C02.arm", key, C.where(m), str(e))
        return
    wire_to_variant = {v["wire"]: vn for vn, v in ser.items()}
    nonphantom = [a for a in info.arms if not a.get("phantom")]
    variants = [v["name"] for v in info.ty["variants"] if v["name"] != "_Phantom"]
    if sorted(a["variant"] for a in nonphantom) != sorted(variants):
        ctx.violation("C02.arm", key + ["arm-per-variant"], C.where(m, info.dispatch), sorted(variants), sorted(a["variant"] for a in nonphantom), STATEMENT)
    for a in info.arms:
        if a.get("phantom"):
            # the phantom arm must not call anything on the contract
            ctx.inst("C02.phantom-arm")
            if G.contract_calls(a["body"]):
                ctx.violation("C02.phantom-arm", key + ["calls"], C.where(m, info.dispatch), "no handler call in the _Phantom arm", "call on contract", STATEMENT)
            errs = A.find_all(a["body"], lambda n: isinstance(n, dict) and n.get("x") and n.get("k") == "call" and A.last_seg(n["func"]) == "Err")
            if not errs:
                ctx.violation("C02.phantom-arm", key + ["not-err"], C.where(m, info.dispatch), "Err(..)", "no Err", STATEMENT)
    for h in m.handlers[kind]:
        ctx.inst("C02.arm", distinct=(m.key, kind, h.fn))
        # the variant a client reaches with this method's name
        from .c01 import forwarded_rename
        rn = forwarded_rename([t for t, _ in h.variant_attrs])
        vn = wire_to_variant.get(rn if rn is not None else h.fn) if (NAME_SHAPE.match(h.fn) or rn is not None) else None
        if vn is None:
            vs = info.h2v.get(h.fn, [])
            vn = vs[0] if len(vs) == 1 else None
        arm = next((a for a in nonphantom if a["variant"] == vn), None)
        if arm is None:
            ctx.violation("C02.arm", key + [h.fn, "no-arm"], C.where(m, info.dispatch), f"an arm for the variant of {h.fn}", vn, STATEMENT, "MsgVariant::emit_dispatch_leg")
            continue
        if arm["handler"] != h.fn:
            ctx.violation("C02.arm", key + [h.fn, "target"], C.where(m, info.dispatch) + f" arm {vn}", f"contract.{h.fn}(..)", f"contract.{arm['handler']}(..)", STATEMENT, "MsgVariant::emit_dispatch_leg")
            continue
        if not arm["ctx_ok"]:
            ctx.violation("C02.arm", key + [h.fn, "ctx"], C.where(m, info.dispatch) + f" arm {vn}", "first argument conv(ctx) (whole ctx)", "something else", STATEMENT, "MsgType::emit_dispatch_leg")
        want = [p["name"] for p in h.params]
        got = [arm["binds"].get(b) if b is not None else None for b in arm["args"]]
        if got != want:
            ctx.violation("C02.arm", key + [h.fn, "args"], C.where(m, info.dispatch) + f" arm {vn}", f"fields in parameter order {want}", got, STATEMENT, "MsgVariant::emit_dispatch_leg (field{{n}} zip)")
        if len(set(arm["args"])) != len(arm["args"]):
            ctx.violation("C02.arm", key + [h.fn, "arg-reuse"], C.where(m, info.dispatch) + f" arm {vn}", "each field used once", arm["args"], STATEMENT)
        ad = arm["adapter"]
        if kind == "query":
            if not (ad["to_json_binary"] and ad["try_inside"] and ad["err_into"]):
                ctx.violation("C02.adapter", key + [h.fn], C.where(m, info.dispatch) + f" arm {vn}", "to_json_binary(&h(..)?).map_err(Into::into)", ad, STATEMENT, "MsgType::emit_dispatch_leg")
        else:
            if ad["to_json_binary"] or not ad["err_into"]:
                ctx.violation("C02.adapter", key + [h.fn], C.where(m, info.dispatch) + f" arm {vn}", "h(..).map_err(Into::into)", ad, STATEMENT, "MsgType::emit_dispatch_leg")
        ctx.inst("C02.adapter")
        ctx.tag(f"arm.{kind}")
        if len(h.params) >= 2 and len(set(p["ty_s"] for p in h.params)) < len(h.params):
            ctx.tag("arm.same-typed-params")
        ctx.sample({"program": m.key, "kind": kind, "variant": vn, "handler": arm["handler"], "args": got, "adapter": ad})


def check_struct(ctx, m, g, kind):
    hs = m.handlers[kind]
    if not hs:
        return
    h = hs[0]
    key = [m.crate_key, "::".join(m.modpath + [m.name]), kind]
    ty = g.msg_type(kind)
    if ty is None:
        ctx.violation("C02.struct", key + ["missing"], C.where(m), MSG_NAME[kind], "absent", STATEMENT)
        return
    imp, f = G.dispatch_fn(g, ty["name"])
    ctx.inst("C02.struct", distinct=(m.key, kind))
    if f is None:
        ctx.violation("C02.struct", key + ["no-dispatch"], C.where(m, ty), "fn dispatch", "absent", STATEMENT, "StructMessage::emit")
        return
    check_signature(ctx, m, key, kind, f, ty)
    stmts, tail = A.block_parts(f["body"])
    binds = {}
    ok = True
    for s in stmts:
        if s["k"] == "let" and s["pat"]["k"] == "struct" and s["pat"]["path"]["segs"][-1]["id"] in ("Self", ty["name"]) \
                and s["init"] and A.path_ids(s["init"]) == ["self"] and not s["pat"]["rest"]:
            for fl in s["pat"]["fields"]:
                if fl["pat"]["k"] != "ident":
                    ok = False
                else:
                    binds[fl["pat"]["name"]] = fl["member"]
        else:
            ok = False
    if not ok or tail is None:
        ctx.unrecognised("C02.struct", key, C.where(m, f), "struct dispatch body is not `let Self{..} = self; call`")
        return
    had_err, inner = A.peel_err_into(tail)
    calls = G.contract_calls(f["body"])
    if len(calls) != 1 or A.strip_expr(inner) is not calls[0]:
        ctx.unrecognised("C02.struct", key, C.where(m, f), f"{len(calls)} calls on contract / unrecognised adapter")
        return
    call = calls[0]
    if call["method"] != h.fn:
        ctx.violation("C02.struct", key + ["target"], C.where(m, f), h.fn, call["method"], STATEMENT, "StructMessage::emit")
    conv, ce = A.unconv(call["args"][0]) if call["args"] else (False, None)
    if not (conv and A.path_ids(ce) == ["ctx"]):
        ctx.violation("C02.struct", key + ["ctx"], C.where(m, f), "conv(ctx)", "other", STATEMENT)
    got = []
    for a in call["args"][1:]:
        a = A.strip_expr(a)
        ids = A.path_ids(a)
        if a["k"] == "field" and A.path_ids(a["base"]) == ["self"]:
            got.append(a["member"])
        else:
            got.append(binds.get(ids[0]) if ids and len(ids) == 1 else None)
    want = [p["name"] for p in h.params]
    if got != want:
        ctx.violation("C02.struct", key + ["args"], C.where(m, f), want, got, STATEMENT, "StructMessage::emit")
    if not had_err:
        ctx.violation("C02.struct", key + ["adapter"], C.where(m, f), ".map_err(Into::into)", "missing", STATEMENT)
    ctx.tag(f"struct.{kind}")


def classify_wrapper_arm(body):
    """Normal form of a wrapper dispatch arm. Returns dict(into_response, err_into, ctx: 'plain'|'conv'|'empty-N', target_ok)"""
    had_err, inner = A.peel_err_into(body)
    inner = A.strip_expr(inner)
    into_resp = False
    if inner["k"] == "call" and A.last_seg(inner["func"]) == "into_response" and len(inner["args"]) == 1:
        into_resp = True
        a = A.strip_expr(inner["args"][0])
        if a["k"] != "try":
            raise G.Unrecognised("into_response argument without `?`")
        inner = A.strip_expr(a["expr"])
    elif inner["k"] == "mcall" and inner["method"] == "into_response":
        into_resp = True
        a = A.strip_expr(inner["recv"])
        if a["k"] != "try":
            raise G.Unrecognised("into_response receiver without `?`")
        inner = A.strip_expr(a["expr"])
    if inner["k"] != "mcall" or inner["method"] != "dispatch" or A.path_ids(inner["recv"]) != ["msg"] or len(inner["args"]) != 2:
        raise G.Unrecognised("wrapper arm is not msg.dispatch(contract, ctx)")
    if A.path_ids(A.strip_expr(inner["args"][0])) != ["contract"]:
        raise G.Unrecognised("wrapper arm: first dispatch argument is not `contract`")
    c = A.strip_expr(inner["args"][1])
    conv, ce = A.unconv(c)
    ce = A.strip_expr(ce)
    if ce["k"] == "path" and A.path_ids(ce) == ["ctx"]:
        shape = "conv" if conv else "plain"
    elif ce["k"] == "tuple":
        # (ctx.0.into_empty(), ctx.1 [, ctx.2])
        elems = ce["elems"]
        ok = True
        e0 = A.strip_expr(elems[0])
        if not (e0["k"] == "mcall" and e0["method"] == "into_empty" and e0["recv"]["k"] == "field"
                and A.path_ids(e0["recv"]["base"]) == ["ctx"] and e0["recv"]["member"] == 0):
            ok = False
        for i, e in enumerate(elems[1:], 1):
            e = A.strip_expr(e)
            if not (e["k"] == "field" and A.path_ids(e["base"]) == ["ctx"] and e["member"] == i):
                ok = False
        if not ok:
            raise G.Unrecognised("wrapper arm: ctx tuple is not (ctx.0.into_empty(), ctx.1, ..)")
        shape = f"empty-{len(elems)}"
    else:
        raise G.Unrecognised("wrapper arm: unrecognised ctx expression")
    return {"into_response": into_resp, "err_into": had_err, "ctx": shape}


def wrapper_parts(m):
    """model: the parts of the contract-level message: interfaces in any order + the contract itself"""
    parts = [{"variant": e["variant"], "iface": e} for e in m.messages]
    parts.append({"variant": m.name, "iface": None})
    return parts


def check_wrapper(ctx, m, g, kind):
    key = [m.crate_key, "::".join(m.modpath + [m.name]), "wrapper", kind]
    w = g.wrapper_type(kind)
    if w is None:
        ctx.violation("C02.wrapper-arm", key + ["missing"], C.where(m), WRAPPER_NAME[kind], "absent", STATEMENT, "GlueMessage::emit")
        return
    imp, f = G.dispatch_fn(g, w["name"])
    if f is None:
        ctx.violation("C02.wrapper-arm", key + ["no-dispatch"], C.where(m, w), "fn dispatch", "absent", STATEMENT)
        return
    check_signature(ctx, m, key, kind, f, w)
    try:
        extra, mt = G.dispatch_match(f)
    except G.Unrecognised as e:
        ctx.unrecognised("C02.wrapper-arm", key, C.where(m, f), str(e))
        return
    arms = {}
    for a in mt["arms"]:
        p = a["pat"]
        if p["k"] != "tuplestruct" or len(p["elems"]) != 1 or p["elems"][0].get("name") != "msg":
            ctx.unrecognised("C02.wrapper-arm", key, C.where(m, f), "arm pattern is not Variant(msg)")
            return
        arms[p["path"]["segs"][-1]["id"]] = a
    parts = wrapper_parts(m)
    if sorted(arms) != sorted(p["variant"] for p in parts):
        ctx.violation("C02.wrapper-arm", key + ["arms"], C.where(m, f), sorted(p["variant"] for p in parts), sorted(arms), STATEMENT, "Interfaces::emit_dispatch_arms")
    for p in parts:
        a = arms.get(p["variant"])
        if a is None:
            continue
        ctx.inst("C02.wrapper-arm", distinct=(m.key, kind, p["variant"]))
        try:
            nf = classify_wrapper_arm(a["body"])
        except G.Unrecognised as e:
            ctx.unrecognised("C02.wrapper-arm", key + [p["variant"]], C.where(m, f), str(e))
            continue
        if p["iface"] is None:
            want = {"into_response": False, "err_into": False, "ctx": "plain"}
            ok = (nf["ctx"] == "plain" and not nf["into_response"])
        else:
            e = p["iface"]
            wctx = f"empty-{CTX_ARITY[kind]}" if e["has_query"] else "conv"
            wir = e["has_msg"] and kind in ("exec", "sudo")
            want = {"into_response": wir, "ctx": wctx}
            ok = nf["ctx"] == wctx and nf["into_response"] == wir and (nf["err_into"] or not wir)
            ctx.tag(f"iface.{'custom' if e['has_query'] else 'native'}-query.{kind}")
            ctx.tag(f"iface.{'custom' if e['has_msg'] else 'native'}-msg.{kind}")
        if not ok:
            ctx.violation("C02.wrapper-arm", key + [p["variant"], "shape"], C.where(m, f) + f" arm {p['variant']}", want, nf, STATEMENT,
                          "Interfaces::emit_dispatch_arms / MsgType::emit_ctx_dispatch_values")


def check_r1(ctx):
    """R1: every From<(..)> for *Ctx moves tuple element i into the field of the same name and type."""
    for rel in ("sylvia/src/ctx.rs", "sylvia/src/types.rs"):
        path = os.path.join(util.REPO, rel)
        ast = util.syn_ast(path)
        structs = {it["name"]: it for it in ast["items"] if it["k"] == "struct" and it["name"].endswith("Ctx")}
        n = 0
        for it in ast["items"]:
            if it["k"] != "impl" or not it.get("trait") or it["trait"]["path"]["segs"][-1]["id"] != "From":
                continue
            sname = last_id(it["self_ty"])
            if sname not in structs:
                continue
            n += 1
            ctx.inst("R1.ctx-from", distinct=(rel, sname))
            key = [rel, sname]
            sdef = structs[sname]
            f = next((x for x in it["items"] if x["k"] == "fn" and x["name"] == "from"), None)
            if f is None or len(f["inputs"]) != 1:
                ctx.unrecognised("R1.ctx-from", key, rel, "no fn from(single param)")
                continue
            p = f["inputs"][0]
            if p["pat"]["k"] != "tuple" or p["ty"]["k"] != "tuple" or any(e["k"] != "ident" for e in p["pat"]["elems"]):
                ctx.unrecognised("R1.ctx-from", key, f"{rel}:{f['ln']}", "parameter is not a tuple pattern of identifiers")
                continue
            names = [e["name"] for e in p["pat"]["elems"]]
            tys = [A.type_str(t) for t in p["ty"]["elems"]]
            fields = {fl["name"]: A.type_str(fl["ty"]) for fl in sdef["fields"]}
            stmts, tail = A.block_parts(f["body"])
            tail = A.strip_expr(tail) if tail else None
            if stmts or tail is None or tail["k"] != "struct" or tail.get("rest") is not None:
                ctx.unrecognised("R1.ctx-from", key, f"{rel}:{f['ln']}", "body is not a plain struct literal")
                continue
            assigned = {}
            for fl in tail["fields"]:
                ids = A.path_ids(A.strip_expr(fl["expr"]))
                assigned[fl["member"]] = ids[0] if ids and len(ids) == 1 else None
            if set(assigned) != set(fields):
                ctx.violation("R1.ctx-from", key + ["field-set"], f"{rel}:{f['ln']}", sorted(fields), sorted(assigned), "every field of the context struct is set")
            for fname, fty in fields.items():
                src = assigned.get(fname)
                if src != fname:
                    ctx.violation("R1.ctx-from", key + [fname, "source"], f"{rel}:{f['ln']}", f"{fname} <- tuple element named {fname}", src, "context field receives its own tuple element")
                    continue
                if src in names:
                    ety = tys[names.index(src)]
                    if A.compact(ety) != A.compact(fty):
                        ctx.violation("R1.ctx-from", key + [fname, "type"], f"{rel}:{f['ln']}", fty, ety, "tuple element type equals field type")
            if len(set(names)) != len(names):
                ctx.violation("R1.ctx-from", key + ["dup-binding"], f"{rel}:{f['ln']}", "distinct bindings", names)
        if rel.endswith("ctx.rs") and n < 6:
            ctx.violation("R1.ctx-from", [rel, "count"], rel, "6 From impls for context structs", n, "anchor: context conversions exist")


def run(ctx):
    C.corpus_must_compile(ctx, "C02.compile")
    for m, g in C.pairs(ctx):
        ctx.program(m.key)
        for kind in ENUM_KINDS:
            check_enum(ctx, m, g, kind)
        if m.kind == "contract":
            for kind in ("instantiate", "migrate"):
                check_struct(ctx, m, g, kind)
            for kind in ENUM_KINDS:
                check_wrapper(ctx, m, g, kind)
    check_r1(ctx)
    from .. import witness
    witness.run_for(ctx, "C02")
    C.corpus_adequacy(ctx, enforce=False)
    ctx.floor("C02.arm", 150)
    ctx.floor("C02.struct", 30)
    ctx.floor("C02.wrapper-arm", 100)
    ctx.floor("R1.ctx-from", 12)
    return check.finish(
        ctx, "translation_validation",
        "every dispatch arm of every generated message type (enum arms, struct dispatch, contract-level wrapper arms) is reduced to a normal form (handler called, ctx expression, argument bindings resolved through the arm's pattern, result adapter) and compared with the model; R1 checks the From<tuple> impls of the context structs in sylvia/src field by field",
        "translation validation of expanded dispatch code + field-provenance rule over sylvia/src/ctx.rs; handler bodies are not analysed",
        ["what handlers do; that `Into` between error types is the user's `From` impl"])
