"""C08 — sub-message builders and reply dispatch agree on id, trigger and payload."""
from .. import check, witness, util
from . import common as C
from . import reply as R
from .common import A, G, M
from .c07 import name_to_const, payload_count

STATEMENT = "distinct names get distinct ids; the builder of a name stamps that id, the reply_on derived from the covered outcomes, keeps msg/gas_limit, and encodes the payload the way dispatch decodes it"

_submsg_fields = {}


def submsg_fields():
    """field set of cosmwasm_std::SubMsg, parsed from the dependency source cargo resolves for /repo (T3, not frozen)."""
    if "f" in _submsg_fields:
        return _submsg_fields["f"]
    import glob, os
    cands = sorted(glob.glob(os.path.expanduser("~/.cargo/registry/src/*/cosmwasm-std-*/src/results/submessages.rs")))
    import tomllib
    with open(os.path.join(util.REPO, "Cargo.lock"), "rb") as f:
        lock = tomllib.load(f)
    ver = [p["version"] for p in lock["package"] if p["name"] == "cosmwasm-std"]
    cands = [c for c in cands if any(f"cosmwasm-std-{v}/" in c for v in ver)]
    if not cands:
        raise util.CheckError("cosmwasm-std source not found in the cargo registry")
    ast = util.syn_ast(cands[-1])
    for it in ast["items"]:
        if it.get("k") == "struct" and it["name"] == "SubMsg":
            _submsg_fields["f"] = [f["name"] for f in it["fields"]]
            return _submsg_fields["f"]
    raise util.CheckError("struct SubMsg not found in cosmwasm-std source")


def check_item(ctx, m, g):
    key0 = [m.crate_key, "::".join(m.modpath + [m.name])]
    table, order, _ = M.reply_table(m)
    try:
        sub = R.analyse_submsg(g)
        dr = R.analyse_dispatch_reply(g, m.name)
    except G.Unrecognised as e:
        ctx.unrecognised("C08.builder", key0, C.where(m), str(e))
        return
    if sub is None or dr is None:
        ctx.violation("C08.builder", key0 + ["missing"], C.where(m), "SubMsgMethods + dispatch_reply", "absent", STATEMENT)
        return
    consts = R.reply_consts(g)
    # (a) ids
    ctx.inst("C08.a-ids", distinct=m.key)
    vals = list(consts.values())
    if None in vals or len(set(vals)) != len(vals):
        ctx.violation("C08.a-ids", key0 + ["distinct-values"], C.where(m), "pairwise distinct literal ids", consts, STATEMENT, "Reply::emit_reply_ids")
    if len(consts) != len(table):
        ctx.violation("C08.a-ids", key0 + ["one-per-name"], C.where(m), f"{len(table)} id constants for names {sorted(table)}", sorted(consts), STATEMENT,
                      "AsReplyId::as_reply_id (UPPER_SNAKE is not injective)")
    n2c = name_to_const(sub)
    used = [next(iter(v)) for v in n2c.values() if len(v) == 1]
    if len(set(used)) != len(used):
        ctx.violation("C08.a-ids", key0 + ["injective"], C.where(m), "distinct names -> distinct id constants", {k: sorted(v) for k, v in n2c.items()}, STATEMENT)
    if sorted(sub["trait_methods"]) != sorted(table):
        ctx.violation("C08.a-ids", key0 + ["builders"], C.where(m, sub["trait"]), f"one builder per handler name {sorted(table)}", sorted(sub["trait_methods"]), STATEMENT, "Reply::emit_sub_msg_trait")
    fields = submsg_fields()
    want_recv = {"SubMsg", "WasmMsg", "CosmosMsg"}
    if set(sub["impls"]) != want_recv:
        ctx.violation("C08.builder", key0 + ["receivers"], C.where(m), sorted(want_recv), sorted(sub["impls"]), STATEMENT)
    for name in order:
        ent = table[name]
        want_on = M.expected_reply_on(ent)
        first = ent["methods"][0]
        role = "always" if ent["always"] else first.reply_on
        # payload parameters of the name: those of any method (they must agree); take the first declared
        h = first
        n_pay = payload_count(h, h.reply_on)
        pay_params = h.params[len(h.params) - n_pay:]
        raw = any(a["path"] == "sv::payload" for p in pay_params for a in p["sv_attrs"])
        want_types = [p["ty_s"] for p in pay_params]
        cs = n2c.get(name) or set()
        const = next(iter(cs)) if len(cs) == 1 else None
        for recv, ms in sub["impls"].items():
            key = key0 + [name, recv]
            nf = ms.get(name)
            ctx.inst("C08.builder", distinct=(m.key, name, recv))
            if nf is None:
                ctx.violation("C08.builder", key + ["missing"], C.where(m), f"builder {name} for {recv}", "absent", STATEMENT)
                continue
            f = nf["fields"]
            where = C.where(m, nf["fn"])
            # all fields accounted for
            given = set(f)
            if recv == "SubMsg":
                if nf["rest"] == ["self"]:
                    if given != {"reply_on", "id", "payload"}:
                        ctx.violation("C08.builder", key + ["fields"], where, ["id", "payload", "reply_on"], sorted(given), STATEMENT, "ReplyData::emit_submsg_setter")
                else:
                    # every field spelled out: msg and gas_limit must be the receiver's own
                    if nf["rest"] is not None or given != set(fields):
                        ctx.violation("C08.builder", key + ["rest"], where, "..self, or every field spelled out", {"rest": nf["rest"], "given": sorted(given)}, STATEMENT, "ReplyData::emit_submsg_setter")
                    for keep in ("msg", "gas_limit"):
                        if f.get(keep) != ("self-field", keep):
                            ctx.violation("C08.builder", key + [keep], where, f"{keep} <- the receiver's own {keep}", f.get(keep), STATEMENT, "ReplyData::emit_submsg_setter")
            else:
                if nf["rest"] is not None or given != set(fields):
                    ctx.violation("C08.builder", key + ["fields"], where, sorted(fields), sorted(given), STATEMENT, "ReplyData::emit_submsg_converter")
                if f.get("msg") != ("self.into",):
                    ctx.violation("C08.builder", key + ["msg"], where, "msg: self.into()", f.get("msg"), STATEMENT)
                if f.get("gas_limit") != ("path", ["None"]):
                    ctx.violation("C08.builder", key + ["gas_limit"], where, "gas_limit: None", f.get("gas_limit"), STATEMENT)
            ro = f.get("reply_on")
            if not ro or ro[0] != "path" or ro[1][-2:] != ["ReplyOn", want_on]:
                ctx.violation("C08.builder", key + ["reply_on"], where, f"ReplyOn::{want_on}", ro, STATEMENT, "ReplyData::emit_cw_reply_on")
            idf = f.get("id")
            if not idf or idf[0] != "path" or idf[1][-1] != const:
                ctx.violation("C08.builder", key + ["id"], where, const, idf, STATEMENT)
            if f.get("payload") != ("path", ["payload"]):
                ctx.violation("C08.builder", key + ["payload-field"], where, "payload: payload", f.get("payload"), STATEMENT)
            # (c) codec symmetry
            ctx.inst("C08.c-codec", distinct=(m.key, name, recv))
            ptypes = [t for _, t in nf["params"]]
            if ptypes != want_types:
                ctx.violation("C08.c-codec", key + ["params"], where, want_types, ptypes, STATEMENT)
            pnames = [n for n, _ in nf["params"]]
            enc = nf["payload"]
            if enc is None or enc["names"] != pnames or enc.get("provs") != [("param", n) for n in pnames]:
                ctx.violation("C08.c-codec", key + ["encodes-params"], where, f"payload built from the PARAMETERS {pnames} in order (not from a shadowing binding)",
                              {"names": enc and enc["names"], "provenance": enc and enc.get("provs")}, STATEMENT, "PayloadFields::emit_payload_serialization")
                continue
            if raw != (enc["mode"] == "raw"):
                ctx.violation("C08.c-codec", key + ["raw-marker"], where, "raw marker <=> payload passed through byte for byte", enc["mode"], STATEMENT)
            ctx.tag("payload." + ("raw" if enc["mode"] == "raw" else "one" if len(pnames) == 1 else "many"))
            # dispatch side decoding of the same name
            arms = dr["arms"].get(const) if const else None
            if arms:
                for which in ("ok", "err"):
                    a = arms[which]
                    if a["kind"] != "handler":
                        continue
                    dec = a["payload"]
                    if dec is None:
                        ctx.violation("C08.c-codec", key + [which, "no-decode"], where, "payload decoded before the handler call", None, STATEMENT)
                        continue
                    same = (enc["mode"] == dec["mode"]) or ({enc["mode"], dec["mode"]} <= {"json-single", "json-tuple"} and len(enc["names"]) == 1 and len(dec["names"]) == 1)
                    if not same or len(enc["names"]) != len(dec["names"]):
                        ctx.violation("C08.c-codec", key + [which, "asymmetric"], where, f"decode mirrors encode ({enc['mode']}, {len(enc['names'])} values)", dec, STATEMENT,
                                      "PayloadFields::emit_payload_(de)serialization")
        ctx.tag(f"reply.on.{want_on.lower()}" + (".both" if ent["success"] and ent["error"] else ""))
        ctx.sample({"program": m.key, "name": name, "id_const": const, "reply_on": want_on, "payload_types": want_types, "raw": raw})


def run(ctx):
    C.corpus_must_compile(ctx, "C08.compile")
    for m, g in C.pairs(ctx, want_kind="contract"):
        if not m.replies_feature:
            continue
        ctx.program(m.key)
        check_item(ctx, m, g)
    witness.run_for(ctx, "C08")
    for t in ("payload.raw", "payload.one", "payload.many", "reply.on.always", "reply.on.success", "reply.on.error", "reply.on.always.both"):
        if ctx.tags.get(t, 0) == 0:
            ctx.violation("TAG", [t], "corpus", f"a corpus program exercising {t}", "none", "corpus adequacy")
    C.corpus_adequacy(ctx, enforce=False)
    ctx.floor("C08.builder", 100)
    ctx.extra["SubMsg_fields_parsed_from_dependency"] = submsg_fields()
    return check.finish(
        ctx, "translation_validation",
        "id constants (distinct, one per handler name, builder->id injective); per name and receiver (SubMsg / WasmMsg / CosmosMsg) the SubMsg literal: reply_on vs model, id, payload, `..self` resp. msg: self.into() + gas_limit: None, full field set from the cosmwasm-std source; payload codec symmetry between builder and dispatch_reply",
        "translation validation; SubMsg field set parsed from the resolved cosmwasm-std source on every run",
        ["JSON round trip of payload values is serde's (T2)"])
