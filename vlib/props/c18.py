"""C18 — programs violating the documented constraints are rejected with a located diagnostic."""
from .. import check, witness
from . import common as C

RULES_COVERED = None


def run(ctx):
    fx = C.facts(ctx)
    n = witness.run_for(ctx, "C18")
    kinds = set()
    for c in fx.crates:
        w = c.get("witness")
        if w and "C18" in w["props"]:
            kinds.add(w.get("what", c["name"]).split(":")[0][:60] if w["package"] != "repo-ui" else "ui:" + c["name"])
            ctx.distinct.add(("offence", c["name"]))
    ui = [c for c in fx.crates if c.get("witness") and c["witness"]["package"] == "repo-ui"]
    ctx.inst("C18.repo-ui-files", len(ui))
    if len(ui) < 17:
        ctx.violation("FLOOR", ["repo-ui"], "sylvia/tests/ui", ">= 17 repository UI files", len(ui), "the repository's own negative tests disappeared")
    for c in ui:
        if not c["witness"].get("has_stderr") or not c["witness"]["markers"]:
            ctx.violation("C18.repo-ui-expectation", [c["name"]], c["origin"], "a committed .stderr with at least one located error", c["witness"]["markers"], "expectation missing")
    # adequacy of the witness set: which error diagnostics of the generator does some must-fail witness trigger?
    from .. import adequacy
    from .. import facts as F
    observed = []
    for c in fx.crates:
        if c.get("expect_fail"):
            observed += [e["message"] for e in F.target_errors(fx, c)]
    cov = adequacy.diagnostic_coverage(observed)
    ctx.inst("ADEQ.diagnostic-sites", cov["sites"])
    ctx.extra["generator_diagnostic_sites"] = {"sites": cov["sites"], "triggered_by_a_witness": cov["covered"],
                                               "explained": [f"{e['file']}:{e['line']} {e['message'][:60]}: {e['reason']}" for e in cov["allowlisted"]],
                                               "not_triggered": [f"{e['file']}:{e['line']} {e['fn']}: {e['message'][:80]}" for e in cov["uncovered"]]}
    for e in cov["uncovered"]:
        ctx.violation("ADEQ.diagnostic-sites", [e["file"], e["fn"], e["message"][:50]], f"{e['file']}:{e['line']} fn {e['fn']}",
                      "every error diagnostic the generator can emit is triggered by at least one must-fail witness", f"no witness triggers `{e['message'][:100]}`",
                      "adequacy of the fault enumeration: a validation nobody exercises can be deleted unnoticed")
    ctx.floor("C18.w-repo-ui", 17)
    ctx.floor("C18.w-w-invalid", 30)
    if ctx.tier == "thorough":
        ctx.floor("C18.w-w-reply-tables-fail", 50)
    ctx.exhaustive = False
    return check.finish(
        ctx, "fault_enumeration",
        "one must-fail-here witness per documented rule (each with a compiling twin differing only in the offending construct): rustc + the macros must reject it with an error whose primary span is on the marked line; the repository's 17 trybuild UI files are re-used with the locations of their committed .stderr files; only locations are compared, never message text. distinct = distinct witness programs",
        "fault enumeration by compile-fail witnesses: each witness is one rule-breaking edit of a valid program",
        ["message wording is not checked", "the reply-table family (thorough tier) decides accept/reject for every table with <= 2 names and <= 3 methods"])
