"""Normal forms of generated entry points and of the multitest `Contract` impl methods."""
from . import common as C
from . import wrapper as W
from .common import A, G


def ctor_call(e):
    """Contract::<..>::new()  /  Contract::new()  ->  dict(type_ids, turbofish_s) or None"""
    e = A.strip_expr(e)
    if e["k"] == "call" and not e["args"] and e["func"].get("k") == "path":
        segs = e["func"]["path"]["segs"]
        if segs[-1]["id"] == "new" and len(segs) >= 2:
            gen = segs[-2]["args"]
            return {"type": "::".join(s["id"] for s in segs[:-1]),
                    "generics": [A.garg_str(a) for a in gen] if isinstance(gen, list) else []}
    return None


def tuple_of_params(e):
    e = A.strip_expr(e)
    if e["k"] == "tuple":
        out = []
        for x in e["elems"]:
            ids = A.path_ids(A.strip_expr(x))
            out.append(ids[0] if ids and len(ids) == 1 else None)
        return out
    return None


def analyse_entry_fn(f):
    """Returns dict(name, params[(name, last type id)], msg_acc (payload accessor dict or 'Reply' or None),
    body: dict(form, ...)) or raises Unrecognised."""
    params = []
    msg_acc = None
    for i in f["inputs"]:
        n = i["pat"].get("name")
        t = i["ty"]
        last = t["path"]["segs"][-1]["id"] if t["k"] == "path" else A.type_str(t)
        params.append((n, last))
        if n == "msg":
            pa = W.payload_accessor(t)
            msg_acc = pa if pa else {"kind": "plain", "acc": last, "ty_s": A.type_str(t)}
    out = {"name": f["name"], "params": params, "msg": msg_acc, "ret": f["output"]}
    stmts, tail = A.block_parts(f["body"])
    if tail is None:
        raise G.Unrecognised(f"entry point {f['name']}: no tail expression")
    had_err, inner = A.peel_err_into(tail)
    inner = A.strip_expr(inner)
    lets = {}
    for s in stmts:
        if s["k"] == "let" and s["pat"]["k"] == "ident" and s["init"] is not None:
            lets[s["pat"]["name"]] = s["init"]
        else:
            raise G.Unrecognised(f"entry point {f['name']}: unexpected statement")
    body = {"err_into": had_err}
    calls = A.find_all(f["body"], lambda n: isinstance(n, dict) and n.get("x") and n.get("k") in ("call", "mcall"))
    body["n_calls"] = len(calls)
    if inner["k"] == "mcall" and inner["method"] == "dispatch" and A.path_ids(inner["recv"]) == ["msg"] and len(inner["args"]) == 2:
        c = A.resolve(inner["args"][0], lets)
        if c["k"] != "ref":
            raise G.Unrecognised(f"entry point {f['name']}: contract not passed by reference")
        cc = ctor_call(A.resolve(c["expr"], lets))
        if cc is None:
            raise G.Unrecognised(f"entry point {f['name']}: contract is not built with ::new()")
        body.update({"form": "dispatch", "ctor": cc, "ctx": tuple_of_params(A.resolve(inner["args"][1], lets))})
    elif inner["k"] == "call" and A.path_ids(inner["func"]) and A.path_ids(inner["func"])[-1] == "dispatch_reply":
        args = []
        for a in inner["args"]:
            a = A.strip_expr(a)
            ids = A.path_ids(a)
            if ids and len(ids) == 1 and ids[0] in lets:
                cc = ctor_call(lets[ids[0]])
                args.append(("ctor", cc) if cc else ("other", None))
            elif ids and len(ids) == 1:
                args.append(("param", ids[0]))
            else:
                cc = ctor_call(a)
                args.append(("ctor", cc) if cc else ("other", None))
        body.update({"form": "dispatch_reply", "args": args, "path": A.path_ids(inner["func"])})
    elif inner["k"] == "mcall" and ctor_call(inner["recv"]) is not None:
        # Contract::new().<reply_fn>((deps, env).into(), msg)
        cc = ctor_call(inner["recv"])
        a0 = A.unconv(inner["args"][0]) if inner["args"] else (False, None)
        body.update({"form": "legacy_reply", "ctor": cc, "method": inner["method"],
                     "ctx_conv": a0[0], "ctx": tuple_of_params(a0[1]) if a0[1] else None,
                     "rest": [A.path_ids(A.strip_expr(a)) for a in inner["args"][1:]]})
    elif inner["k"] == "call" and inner["func"].get("k") == "path":
        # override path called from the multitest impl: path((deps, env, info).into(), from_json::<T>(&msg)?)
        body.update({"form": "call_path", "path": "::".join(A.path_ids(inner["func"])), "args": inner["args"]})
    else:
        raise G.Unrecognised(f"entry point {f['name']}: body not in a recognised form")
    out["body"] = body
    return out


def analyse_mt_contract_method(f):
    """Normal form of one method of `impl cw_multi_test::Contract for C`:
       from_json::<T>(&msg)?.dispatch(self, (deps, env[, info])).map_err(Into::into)
       path((deps, env[, info]).into(), from_json::<T>(&msg)?).map_err(Into::into)       (override)
       bail!(..)                                                                           (absent kind)
       reply: self.<fn>((deps, env).into(), msg) / sv::dispatch_reply(deps, env, msg, self)
    """
    out = {"name": f["name"], "params": [(i["pat"].get("name") if not i.get("recv") else "self") for i in f["inputs"]]}
    stmts, tail = A.block_parts(f["body"])
    e = tail
    if e is None and len(stmts) == 1 and stmts[0]["k"] == "expr":
        e = stmts[0]["expr"]
        stmts = []
    if e is None:
        raise G.Unrecognised(f"mt {f['name']}: empty body")
    e = A.strip_expr(e)
    if e["k"] == "return":
        # bail!  ->  return Err(anyhow!(..))
        r = A.strip_expr(e["expr"]) if e["expr"] else None
        if r and r["k"] == "call" and A.last_seg(r["func"]) == "Err":
            out["form"] = "bail"
            lits = A.find_all(r, lambda n: isinstance(n, dict) and n.get("k") == "macro")
            out["text"] = " ".join(A.tt_flat(m["tt"]) for m in lits)
            return out
        raise G.Unrecognised(f"mt {f['name']}: return of something else than Err")
    had_err, inner = A.peel_err_into(e)
    inner = A.strip_expr(inner)
    out["err_into"] = had_err
    fj = A.find_all(f["body"], lambda n: isinstance(n, dict) and n.get("x") and n.get("k") == "call" and A.last_seg(n["func"]) == "from_json")
    out["from_json"] = []
    for c in fj:
        seg = c["func"]["path"]["segs"][-1]
        t = seg["args"][0] if isinstance(seg["args"], list) and seg["args"] else None
        arg = A.strip_expr(c["args"][0]) if c["args"] else None
        src = None
        if arg is not None and arg["k"] == "ref":
            src = A.path_ids(A.strip_expr(arg["expr"]))
        out["from_json"].append({"ty": t, "ty_s": A.type_str(t) if t else None, "acc": W.payload_accessor(t) if t else None, "src": src})
    if inner["k"] == "mcall" and inner["method"] == "dispatch" and len(inner["args"]) == 2:
        r = A.strip_expr(inner["recv"])
        if r["k"] != "try" or A.strip_expr(r["expr"])["k"] != "call" or A.last_seg(A.strip_expr(r["expr"])["func"]) != "from_json":
            raise G.Unrecognised(f"mt {f['name']}: dispatch receiver is not from_json(..)?")
        out["form"] = "dispatch"
        out["contract_arg"] = A.path_ids(A.strip_expr(inner["args"][0]))
        out["ctx"] = tuple_of_params(inner["args"][1])
        return out
    if inner["k"] == "call" and inner["func"].get("k") == "path":
        ids = A.path_ids(inner["func"])
        if ids[-1] == "dispatch_reply":
            out["form"] = "dispatch_reply"
            out["args"] = [A.path_ids(A.strip_expr(a)) for a in inner["args"]]
            return out
        out["form"] = "override"
        out["path"] = "::".join(ids)
        args = []
        for a in inner["args"]:
            conv, a2 = A.unconv(a)
            a2 = A.strip_expr(a2)
            if a2["k"] == "try":
                c = A.strip_expr(a2["expr"])
                if c["k"] == "call" and A.last_seg(c["func"]) == "from_json":
                    args.append("from_json")
                    continue
            ids2 = A.path_ids(a2)
            args.append(ids2[0] if ids2 and len(ids2) == 1 else None)
        out["args"] = args
        return out
    if inner["k"] == "mcall" and A.path_ids(inner["recv"]) == ["self"]:
        out["form"] = "legacy_reply"
        out["method"] = inner["method"]
        a0 = A.unconv(inner["args"][0]) if inner["args"] else (False, None)
        out["ctx_conv"] = a0[0]
        out["ctx"] = tuple_of_params(a0[1]) if a0[1] is not None else None
        out["rest"] = [A.path_ids(A.strip_expr(a)) for a in inner["args"][1:]]
        return out
    raise G.Unrecognised(f"mt {f['name']}: body not in a recognised form")


def mt_contract_impl(g):
    """the `impl cw_multi_test::Contract<..> for C` inside sv::mt"""
    mt = g.one("mod", "mt")
    if mt is None:
        return None, None
    imps = [i for i in mt["items"] if i.get("k") == "impl" and i.get("trait") and i["trait"]["path"]["segs"][-1]["id"] == "Contract"]
    if len(imps) != 1:
        return mt, None
    return mt, imps[0]
