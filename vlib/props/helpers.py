"""Generated helper methods (Executor / Querier traits, multitest proxies): normal forms. Filled in with C10/C12."""


def check_helper_kinds(ctx):
    ctx.note("C04.e (helpers construct messages of their own kind) is decided by the C10/C12 helper rules")
