"""Generated helper methods (Executor / Querier traits, InstantiateBuilder, multitest proxies): normal forms."""
from . import common as C
from . import wrapper as W
from .common import A, G, M, ENUM_KINDS, ACCESSOR, MSG_NAME


def api_ctor_calls(body):
    """calls of the form  <X as ..Api>::Acc::ctor(args)  (also `Acc::<..>::ctor`) inside a body"""
    out = []
    for c in A.find_all(body, lambda n: isinstance(n, dict) and n.get("x") and n.get("k") == "call" and n["func"].get("k") == "path"):
        f = c["func"]
        segs = [s["id"] for s in f["path"]["segs"]]
        if f.get("qself") is not None and f.get("qpos") is not None and len(segs) == f["qpos"] + 2:
            tr = segs[:f["qpos"]]
            acc = segs[f["qpos"]]
            ctor = segs[f["qpos"] + 1]
            api = "iface" if tr and tr[-1] == "InterfaceMessagesApi" else "contract" if tr and tr[-1] == "ContractApi" else None
            if api is None:
                continue
            args = []
            for a in c["args"]:
                ids = A.path_ids(A.strip_expr(a))
                args.append(ids[0] if ids and len(ids) == 1 else None)
            out.append({"api": api, "acc": acc, "ctor": ctor, "args": args, "self_ty": A.type_str(f["qself"]), "node": c})
    return out


def ctor_to_variant(g, ty):
    """constructor fn name -> variant it builds (from the inherent impl of a K-enum); 'new' -> None for structs"""
    out = {}
    for imp in g.inherent_impls(ty["name"]):
        for f in imp["items"]:
            if f.get("k") != "fn" or f["name"] == "dispatch":
                continue
            st, tail = A.block_parts(f["body"])
            t = A.strip_expr(tail) if tail else None
            if t and t["k"] == "struct":
                ids = [s["id"] for s in t["path"]["segs"]]
                out[f["name"]] = ids[-1] if len(ids) == 2 else None
    return out


def self_call(e, method):
    """`self.<method>()` possibly followed by identity methods (to_owned / clone ...)"""
    e = A.strip_expr(e)
    while e["k"] == "mcall" and e["method"] in ("to_owned", "clone", "to_string", "into", "to_vec") and not e["args"]:
        e = A.strip_expr(e["recv"])
    if e["k"] == "ref":
        return self_call(e["expr"], method)
    if e["k"] == "mcall" and e["method"] == method and not e["args"] and A.path_ids(e["recv"]) == ["self"]:
        return True
    # fully qualified form of the same accessor call: `<..>::ExecutorBuilder::<method>(&self)` / `BoundQuerier::<method>(self)`
    if e["k"] == "call" and e["func"].get("k") == "path" and not e["func"].get("qself") and len(e["args"]) == 1:
        ids = A.path_ids(e["func"])
        a = A.strip_expr(e["args"][0])
        if a["k"] == "ref":
            a = A.strip_expr(a["expr"])
        if len(ids) >= 2 and ids[-1] == method and ids[-2] in ("ExecutorBuilder", "BoundQuerier", "Remote", "Self") and A.path_ids(a) == ["self"]:
            return True
    return False


def self_field_expr(e, field):
    e = A.strip_expr(e)
    while (e["k"] == "mcall" and e["method"] in ("to_owned", "clone", "to_string", "into") and not e["args"]) or e["k"] == "ref" \
            or (e["k"] == "unary" and e["op"] == "*"):
        e = A.strip_expr(e["recv"] if e["k"] == "mcall" else e["expr"])
    return e["k"] == "field" and e["member"] == field and A.path_ids(e["base"]) == ["self"]


def classify_helper(f):
    """Normal form of one helper method body: which message it builds and which operation consumes it."""
    nf = {"name": f["name"], "params": [(i["pat"].get("name"), A.type_str(i["ty"])) for i in f["inputs"] if not i.get("recv")],
          "ret": A.type_str(f["output"]) if f["output"] else None, "fn": f}
    ctors = api_ctor_calls(f["body"])
    if len(ctors) != 1:
        raise G.Unrecognised(f"helper {f['name']}: {len(ctors)} message constructor calls")
    nf["msg"] = ctors[0]
    ctor_node = ctors[0]["node"]
    env = {}
    stmts, tail = A.block_parts(f["body"])
    for s in stmts:
        if s["k"] == "let" and s["pat"]["k"] == "ident" and s["init"] is not None:
            env[s["pat"]["name"]] = A.strip_expr(s["init"])
        else:
            raise G.Unrecognised(f"helper {f['name']}: unexpected statement")

    def is_msg(e):
        e = A.strip_expr(e)
        if e["k"] == "ref":
            e = A.strip_expr(e["expr"])
        if e is ctor_node:
            return True
        ids = A.path_ids(e)
        return bool(ids) and len(ids) == 1 and env.get(ids[0]) is ctor_node

    t = A.strip_expr(tail) if tail else None
    if t is None:
        raise G.Unrecognised(f"helper {f['name']}: no tail")
    had_err, inner = A.peel_err_into(t)
    inner = A.strip_expr(inner)
    if inner["k"] == "mcall" and inner["method"] == "map_err":
        nf["err_map"] = True
        inner = A.strip_expr(inner["recv"])
    nf["err_into"] = had_err
    # Ok(ExecutorBuilder::<Ready>::new(contract, funds, to_json_binary(&msg)?))
    if inner["k"] == "call" and A.last_seg(inner["func"]) == "Ok" and len(inner["args"]) == 1:
        b = A.strip_expr(inner["args"][0])
        b = A.resolve(b, env)
        if b["k"] == "call" and A.path_ids(b["func"])[-2:] == ["ExecutorBuilder", "new"] and len(b["args"]) == 3:
            seg = b["func"]["path"]["segs"][-2]
            state = A.garg_str(seg["args"][0]).split("::")[-1] if isinstance(seg["args"], list) and seg["args"] else None
            a2 = A.resolve(b["args"][2], env)
            enc_ok = False
            if a2["k"] == "try":
                c = A.strip_expr(a2["expr"])
                if c["k"] == "call" and A.last_seg(c["func"]) == "to_json_binary" and len(c["args"]) == 1 and is_msg(c["args"][0]):
                    enc_ok = True
            nf["op"] = {"kind": "executor_builder", "state": state, "contract": self_call(A.resolve(b["args"][0], env), "contract"),
                        "funds": self_call(A.resolve(b["args"][1], env), "funds"), "encodes_msg": enc_ok}
            return nf
    if inner["k"] == "mcall" and inner["method"] == "query_wasm_smart" and len(inner["args"]) == 2:
        r = A.strip_expr(inner["recv"])
        via = None
        if self_call(r, "querier"):
            via = "self.querier()"
        elif r["k"] == "mcall" and r["method"] == "querier" and self_field_expr(r["recv"], "app"):
            via = "self.app.querier()"
        addr = "self.contract()" if self_call(inner["args"][0], "contract") else "self.contract_addr" if self_field_expr(inner["args"][0], "contract_addr") else None
        nf["op"] = {"kind": "query_wasm_smart", "via": via, "addr": addr, "msg": is_msg(inner["args"][1])}
        return nf
    if inner["k"] == "mcall" and inner["method"] == "wasm_sudo" and len(inner["args"]) == 2:
        r = A.strip_expr(inner["recv"])
        via = "self.app.app_mut()" if r["k"] == "mcall" and r["method"] == "app_mut" and self_field_expr(r["recv"], "app") else None
        addr = "self.contract_addr" if self_field_expr(inner["args"][0], "contract_addr") else None
        nf["op"] = {"kind": "wasm_sudo", "via": via, "addr": addr, "msg": is_msg(inner["args"][1])}
        return nf
    if inner["k"] == "call" and A.path_ids(inner["func"]) and A.path_ids(inner["func"])[-1] == "new" and A.path_ids(inner["func"])[-2] in ("ExecProxy", "MigrateProxy") and len(inner["args"]) == 3:
        nf["op"] = {"kind": A.path_ids(inner["func"])[-2], "addr": "self.contract_addr" if self_field_expr(inner["args"][0], "contract_addr") else None,
                    "msg": is_msg(inner["args"][1]), "app": self_field_expr(inner["args"][2], "app")}
        return nf
    raise G.Unrecognised(f"helper {f['name']}: operation not recognised")


OP_OF_KIND = {"exec": {"executor_builder", "ExecProxy"}, "query": {"query_wasm_smart"}, "sudo": {"wasm_sudo"}, "migrate": {"MigrateProxy"}}


def expected_api_self(m):
    if m.kind == "contract":
        return A.type_str(m.self_ty)
    return None   # interface: `dyn Iface<Error = (), A = Self::A, ..>`; checked by prefix


def check_helper_impl(ctx, rule, m, g, imp, label, allowed_kinds, remote):
    """Every handler of the allowed kinds has exactly one helper method in `imp` that builds its variant with the
    parameters in order and hands it to the operation of its kind."""
    key0 = [m.crate_key, "::".join(m.modpath + [m.name]), label]
    c2v = {}
    types = {}
    for kind in allowed_kinds:
        try:
            ty = g.msg_type(kind)
        except G.Unrecognised:
            ty = None
        if ty is not None:
            types[kind] = ty
            c2v[kind] = ctor_to_variant(g, ty)
    infos = {}
    for kind in allowed_kinds:
        if kind in ENUM_KINDS and kind in types:
            infos[kind] = C.enum_info(ctx, m, g, kind, rule)
    methods = {}
    for f in imp["items"]:
        if f.get("k") != "fn":
            continue
        try:
            methods[f["name"]] = classify_helper(f)
        except G.Unrecognised as e:
            ctx.unrecognised(rule, key0 + [f["name"]], C.where(m, f), str(e))
    used = set()
    for kind in allowed_kinds:
        for h in m.handlers[kind]:
            key = key0 + [kind, h.fn]
            ctx.inst(rule, distinct=(m.key, label, kind, h.fn))
            if kind in ENUM_KINDS:
                info = infos.get(kind)
                if info is None:
                    continue
                vs = info.h2v.get(h.fn, [])
                vn = vs[0] if len(vs) == 1 else None
            else:
                vn = None
            cands = [nf for nf in methods.values() if nf["msg"]["acc"] == ACCESSOR[kind] and c2v.get(kind, {}).get(nf["msg"]["ctor"], "?") == vn
                     and nf["msg"]["ctor"] in c2v.get(kind, {})]
            if len(cands) != 1:
                ctx.violation(rule, key + ["count"], C.where(m, imp), f"exactly one helper building the message of {kind} handler {h.fn}", [c["name"] for c in cands],
                              "helper methods correspond one-to-one to handlers", "EmitMethods / Executor / Querier emitters")
                continue
            nf = cands[0]
            used.add(nf["name"])
            where = C.where(m, nf["fn"])
            if nf["msg"]["args"] != [p["name"] for p in h.params]:
                ctx.violation(rule, key + ["args"], where, [p["name"] for p in h.params], nf["msg"]["args"], "helper passes its parameters to the message constructor in order")
            if [n for n, _ in nf["params"]] != [p["name"] for p in h.params]:
                ctx.violation(rule, key + ["params"], where, [p["name"] for p in h.params], [n for n, _ in nf["params"]], "helper takes the handler's parameters")
            else:
                got_t = [A.compact(t) for _, t in nf["params"]]
                want_t = [A.compact(p["ty_raw_s"]) for p in h.params]
                want_t2 = [A.compact(p["ty_s"]) for p in h.params]
                if got_t != want_t and got_t != want_t2:
                    ctx.violation(rule, key + ["param-types"], where, want_t, got_t, "helper takes the handler's parameter types")
            op = nf["op"]
            if op["kind"] not in OP_OF_KIND[kind]:
                ctx.violation(rule, key + ["operation"], where, sorted(OP_OF_KIND[kind]), op["kind"], "helper of kind K performs the K operation", "kind mix-up between helper emitters")
            if remote:
                if op["kind"] == "executor_builder" and not (op["contract"] and op["funds"] and op["encodes_msg"] and op["state"] == "ReadyExecutorBuilderState"):
                    ctx.violation(rule, key + ["builder"], where, "Ready builder from self.contract(), self.funds(), to_json_binary(&msg)?", op, "remote executor carries address, funds and the encoded message")
                if op["kind"] == "query_wasm_smart" and not (op["via"] == "self.querier()" and op["addr"] == "self.contract()" and op["msg"]):
                    ctx.violation(rule, key + ["query"], where, "self.querier().query_wasm_smart(self.contract(), &query)", op, "remote querier targets the handle's address with the built query")
            else:
                okop = op.get("msg") and op.get("addr") == "self.contract_addr"
                if op["kind"] in ("ExecProxy", "MigrateProxy"):
                    okop = okop and op.get("app")
                if op["kind"] == "query_wasm_smart":
                    okop = okop and op.get("via") == "self.app.querier()"
                if op["kind"] == "wasm_sudo":
                    okop = okop and op.get("via") == "self.app.app_mut()"
                if not okop:
                    ctx.violation(rule, key + ["proxy-op"], where, "operation on the proxy's own address / app with the built message", op, "proxy call = raw JSON to the same chain operation")
            # api self type
            st = nf["msg"]["self_ty"]
            if m.kind == "contract":
                if nf["msg"]["api"] != "contract" or st != A.type_str(m.self_ty):
                    ctx.violation(rule, key + ["api"], where, f"<{A.type_str(m.self_ty)} as ContractApi>", f"<{st} as {nf['msg']['api']}>", "helper uses this contract's own message types")
            else:
                if nf["msg"]["api"] != "iface" or not st.startswith("dyn " + m.name):
                    ctx.violation(rule, key + ["api"], where, f"<dyn {m.name}<..> as InterfaceMessagesApi>", f"<{st}>", "helper uses this interface's own message types")
            if kind == "query":
                rt = nf["ret"] or ""
                want_r = h.resp_ty_s if m.kind == "contract" else None
                if m.kind == "contract" and not (A.compact(rt).startswith("Result<" + A.compact(h.resp_ty_s or "") + ",")):
                    ctx.violation(rule, key + ["query-ret"], where, f"Result<{h.resp_ty_s}, _>", rt, "query helper returns the declared response type")
    extra = set(methods) - used
    if extra:
        ctx.violation(rule, key0 + ["extra-methods"], C.where(m, imp), "helpers only for declared handlers", sorted(extra), "helper methods correspond one-to-one to handlers")


def check_helper_kinds(ctx):
    ctx.note("C04.e (helpers construct messages of their own kind and call their own kind's operation) is decided by C10.executor/querier and C12.proxy (rule `operation`)")
