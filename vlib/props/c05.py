"""C05 — name collisions between a contract and its interfaces are rejected at build time; lists sorted and exact."""
from .. import check
from . import common as C
from . import wrapper as W
from .c03 import check_list_eq_wire, parts_of
from .common import A, G, ENUM_KINDS, EP_NAME

STATEMENT = "every contract-level message evaluates the overlap check at compile time over all its parts' sorted, exact name lists"


def check_const(ctx, m, g, kind):
    key = [m.crate_key, "::".join(m.modpath + [m.name]), "wrapper", kind]
    try:
        wf = W.analyse(m, g, kind)
    except G.Unrecognised as e:
        ctx.unrecognised("C05.a-const-check", key, C.where(m), str(e))
        return
    ctx.inst("C05.a-const-check", distinct=(m.key, kind))
    parts = parts_of(m)
    fn = EP_NAME[kind] + "_messages"
    if not wf.const_in_const_ctx or wf.const_lists is None:
        ctx.violation("C05.a-const-check", key + ["const-context"], C.where(m, wf.dispatch or wf.ty), "a `const` item in dispatch calling assert_no_intersection",
                      f"calls found: {getattr(wf, 'assert_calls', 0)}, in const item: {wf.const_in_const_ctx}", STATEMENT, "GlueMessage::emit (dispatch)")
        return
    want = sorted((p["module"] or "", fn) for p in parts)
    got = sorted(((l[0] or ""), l[1]) if l else ("?", "?") for l in wf.const_lists)
    if want != got:
        ctx.violation("C05.a-const-check", key + ["lists"], C.where(m, wf.dispatch), want, got, STATEMENT, "GlueMessage::emit (messages_call)")
    ctx.tag(f"parts.{len(parts)}")


def check_sorted(ctx, m, g, kind, rule="C05.b-sorted"):
    key = [m.crate_key, "::".join(m.modpath + [m.name]), kind]
    try:
        lst = g.messages_list(kind)
    except G.Unrecognised as e:
        ctx.unrecognised(rule, key, C.where(m), str(e))
        return
    if lst is None:
        return
    ctx.inst(rule, distinct=(m.key, kind))
    b = [x.encode() for x in lst]
    if any(not (b[i] < b[i + 1]) for i in range(len(b) - 1)):
        ctx.violation(rule, key + ["order"], C.where(m, g.messages_fn(kind)), "strictly increasing (byte order), duplicate-free", lst, STATEMENT,
                      "EnumMessage::emit (msgs.sort())")
    f = g.messages_fn(kind)
    if not f.get("const"):
        ctx.violation(rule, key + ["const-fn"], C.where(m, f), "pub const fn (usable in the const overlap check)", "non-const fn", STATEMENT)
    if len(lst) >= 2:
        ctx.tag("list.len>=2")
        if lst != [h.fn for h in m.handlers[kind]]:
            ctx.tag("list.order-differs-from-declaration")


def run(ctx):
    C.corpus_must_compile(ctx, "C05.compile")
    for m, g in C.pairs(ctx):
        ctx.program(m.key)
        for kind in ENUM_KINDS:
            check_sorted(ctx, m, g, kind)
            check_list_eq_wire(ctx, m, g, kind, rule="C05.c-list-eq-wire")
            if m.kind == "contract":
                check_const(ctx, m, g, kind)
    from . import c05w
    c05w.run_witnesses(ctx)
    C.corpus_adequacy(ctx, enforce=False)
    ctx.floor("C05.a-const-check", 90)
    ctx.floor("C05.b-sorted", 150)
    ctx.floor("C05.c-list-eq-wire", 150)
    return check.finish(
        ctx, "translation_validation",
        "per wrapper: a const item in dispatch calls assert_no_intersection over exactly one list per part; per item/kind: published list strictly increasing and equal to the serde wire names; compile witnesses: colliding parts rejected (E0080) / renamed twin accepted; const-eval matrix of small list tuples for the merge scan",
        "translation validation + compile-time (const-eval) witnesses decided by rustc, nothing executed at run time",
        ["the merge scan is not proved for all tuples: the const matrix is a finite witness set (bounds in coverage.matrix)"])
