"""C01 — generated messages have the JSON shape named by the method signature."""
import re

from .. import check
from . import common as C
from .common import A, G, M, ENUM_KINDS, MSG_NAME

NAME_SHAPE = re.compile(r"^[a-z]+[0-9]*(_[a-z]+[0-9]*)*$")
STATEMENT = "generated message type = one struct variant per handler, wire name = method name, fields = parameters"


def serde_container_attrs(ty):
    out = []
    for a in ty["attrs"]:
        if a["path"] == "serde":
            out.append(A.compact(a["tokens"]))
    return out


def forwarded_serde_attrs(m, kind):
    out = []
    for k, s, tt in m.msg_attrs:
        if k == kind and s.startswith("serde("):
            out.append(A.compact(s[len("serde("):-1]))
    return out


def check_container(ctx, m, g, kind, ty, key):
    rule = "C01.b-container"
    ctx.inst(rule, distinct=(m.key, kind))
    attrs = serde_container_attrs(ty)
    fwd = forwarded_serde_attrs(m, kind)
    want = 'rename_all="snake_case"'
    if want not in attrs:
        ctx.violation(rule, key + ["rename_all"], C.where(m, ty), f"#[serde({want})] on {ty['name']}", attrs, STATEMENT,
                      "MsgType::emit_derive_call / enum_msg.rs / struct_msg.rs")
    for a in attrs:
        if a == want or a.startswith("crate="):
            continue
        if a in fwd:
            continue
        ctx.violation(rule, key + ["extra-serde-attr", a], C.where(m, ty), "no serde container attribute besides crate/rename_all/forwarded", a, STATEMENT)
    try:
        sf = g.serde(ty)
    except G.Unrecognised as e:
        ctx.unrecognised(rule, key, C.where(m, ty), str(e))
        return None
    if sf["ser_impls"] != 1 or sf["de_impls"] != 1 or not sf["ser_auto"] or not sf["de_auto"]:
        ctx.violation(rule, key + ["derives"], C.where(m, ty), "exactly one derived Serialize and one derived Deserialize",
                      f"ser={sf['ser_impls']} (derived={sf['ser_auto']}) de={sf['de_impls']} (derived={sf['de_auto']})", STATEMENT)
        return None
    return sf


def forwarded_rename(attrs_tokens):
    """serde(rename = "x") among forwarded attribute token strings -> x"""
    for s_ in attrs_tokens:
        mm = re.match(r'^serde\(rename="([^"]*)"\)$', A.compact(s_))
        if mm:
            return mm.group(1)
    return None


def param_key(p):
    r = forwarded_rename([a["path"] + "(" + a["tokens"] + ")" for a in p["attrs"]])
    return r if r is not None else p["name"]


def check_fields(ctx, rule, m, key, h, fields, ser_fields, de_fields, node, pub_required=False, skips=()):
    """fields of a variant/struct == parameters of h (names, Self-stripped types, serde keys)"""
    want = {p["name"]: p["ty_s"] for p in h.params}
    have = {f["name"]: A.type_str(f["ty"]) for f in fields}
    if want != have:
        ctx.violation(rule, key + [h.fn, "fields"], C.where(m, node), want, have, STATEMENT, "MsgField::emit / process_fields")
    if ser_fields is not None:
        sk = sorted((k, src) for k, src in ser_fields)
        wk = sorted((param_key(p), p["name"]) for p in h.params)
        if sk != wk:
            ctx.violation(rule, key + [h.fn, "ser-keys"], C.where(m, node), wk, sk, STATEMENT)
    # one entry per argument for EVERY value: an entry serialised conditionally (serde's skip_serializing_if) is only legitimate
    # when the user asked for it with an attribute on that very parameter (forwarded attributes are C17's subject)
    for k in skips:
        asked = any("skip_serializing" in A.compact(a.get("tokens", "")) for p in h.params if param_key(p) == k for a in p["attrs"])
        if not asked:
            ctx.violation(rule, key + [h.fn, "conditional-entry", k], C.where(m, node), f"entry `{k}` present for every value of the argument", "serialised conditionally (skip_field)", STATEMENT,
                          "MsgField::emit / emit_pub")
    if de_fields is not None:
        wkeys = sorted(param_key(p) for p in h.params)
        if sorted(de_fields) != wkeys:
            ctx.violation(rule, key + [h.fn, "de-keys"], C.where(m, node), wkeys, sorted(de_fields), STATEMENT)


def check_ctor(ctx, m, g, key, impl, ctor_name, h, target_variant, node, rule="C01.f-constructor"):
    """fn ctor(params in handler order) -> Self { Self::V { a, b } } / Self { a, b }"""
    ctx.inst(rule, distinct=(m.key, h.fn))
    f = g.method(impl, ctor_name) if impl else None
    if f is None:
        ctx.violation(rule, key + [h.fn, "missing"], C.where(m, node), f"constructor fn {ctor_name}", "absent", STATEMENT,
                      "MsgVariant::emit_variants_constructors / StructMessage::emit")
        return
    params = [(i["pat"].get("name"), A.type_str(i["ty"])) for i in f["inputs"] if not i.get("recv")]
    want = [(p["name"], p["ty_s"]) for p in h.params]
    if params != want:
        ctx.violation(rule, key + [h.fn, "params"], C.where(m, f), want, params, STATEMENT)
    stmts, tail = A.block_parts(f["body"])
    tail = A.strip_expr(tail) if tail else None
    if stmts or tail is None or tail["k"] != "struct":
        ctx.unrecognised(rule, key + [h.fn], C.where(m, f), "constructor body is not a single struct literal")
        return
    ids = [s["id"] for s in tail["path"]["segs"]]
    ok_path = (ids == ["Self", target_variant]) if target_variant else (ids == ["Self"])
    if not ok_path and target_variant and len(ids) == 2 and ids[1] == target_variant and ids[0] == node["name"]:
        ok_path = True
    if not ok_path:
        ctx.violation(rule, key + [h.fn, "target"], C.where(m, f), f"Self::{target_variant}" if target_variant else "Self", "::".join(ids), STATEMENT)
    if tail.get("rest") is not None or tail.get("dotdot"):
        ctx.violation(rule, key + [h.fn, "rest"], C.where(m, f), "all fields given explicitly", "..base", STATEMENT)
    for fl in tail["fields"]:
        e = A.strip_expr(fl["expr"])
        src = A.path_ids(e)
        if src != [fl["member"]]:
            ctx.violation(rule, key + [h.fn, "field", str(fl["member"])], C.where(m, f), f"{fl['member']}: {fl['member']}",
                          f"{fl['member']}: {A.expr_path_str(e) or e['k']}", STATEMENT)
    got = sorted(str(fl["member"]) for fl in tail["fields"])
    if got != sorted(p["name"] for p in h.params):
        ctx.violation(rule, key + [h.fn, "field-set"], C.where(m, f), sorted(p["name"] for p in h.params), got, STATEMENT)


def check_enum(ctx, m, g, kind):
    info = C.enum_info(ctx, m, g, kind, "C01.a-variants")
    if info is None:
        return
    key = info.key
    ty = info.ty
    handlers = m.handlers[kind]
    ctx.inst("C01.a-variants", distinct=(m.key, kind))
    ctx.tag(f"enum.{kind}." + ("empty" if not handlers else "one" if len(handlers) == 1 else "many"))
    variants = {v["name"]: v for v in ty["variants"]}
    # (a) bijection handlers <-> struct variants via dispatch arms
    for h in handlers:
        vs = info.h2v.get(h.fn, [])
        if len(vs) != 1:
            ctx.violation("C01.a-variants", key + [h.fn, "arms"], C.where(m, ty), "exactly one variant whose arm calls this handler", vs, STATEMENT,
                          "MsgVariants::new / MsgVariant::emit_dispatch_leg")
    called = set(info.h2v)
    extra = called - set(h.fn for h in handlers)
    if extra:
        ctx.violation("C01.a-variants", key + ["foreign-handlers"], C.where(m, ty), f"only {kind} handlers", sorted(extra), STATEMENT, "MsgVariants::new (kind filter)")
    arm_variants = [a["variant"] for a in info.arms if not a.get("phantom")]
    nonphantom = [v for v in variants if v != "_Phantom"]
    if sorted(arm_variants) != sorted(nonphantom):
        ctx.violation("C01.a-variants", key + ["variants-vs-arms"], C.where(m, ty), sorted(nonphantom), sorted(arm_variants), STATEMENT)
    if len(nonphantom) != len(handlers):
        ctx.violation("C01.a-variants", key + ["count"], C.where(m, ty), f"{len(handlers)} variants", f"{len(nonphantom)}: {nonphantom}", STATEMENT)
    for vn, v in variants.items():
        if vn == "_Phantom":
            ctx.tag(f"enum.{kind}.phantom")
            if not A.has_attr(v, "serde", "skip"):
                ctx.violation("C01.a-variants", key + ["phantom-skip"], C.where(m, v), "#[serde(skip)] on _Phantom", [a["tokens"] for a in v["attrs"]], STATEMENT,
                              "MsgVariants::emit_phantom_variant")
        elif v["style"] != "named":
            ctx.violation("C01.a-variants", key + [vn, "style"], C.where(m, v), "struct variant", v["style"], STATEMENT)
    # (b)
    sf = check_container(ctx, m, g, kind, ty, key)
    if sf is None:
        return
    ser, de = sf["ser"], sf["de"]
    # (c) wire names
    wire_names = []
    for h in handlers:
        vs = info.h2v.get(h.fn, [])
        if len(vs) != 1:
            continue
        vn = vs[0]
        ctx.inst("C01.c-wire-name", distinct=(m.key, kind, h.fn))
        sv = ser["variants"].get(vn)
        if sv is None:
            ctx.violation("C01.c-wire-name", key + [h.fn, "ser-missing"], C.where(m, ty), f"Serialize arm for {vn}", "absent", STATEMENT)
            continue
        wire = sv["wire"]
        wire_names.append(wire)
        renamed = forwarded_rename([t for t, _ in h.variant_attrs])
        if renamed is not None:
            ctx.tag("name.forwarded-rename")
            if wire != renamed:
                ctx.violation("C01.c-wire-name", key + [h.fn, "wire"], C.where(m, ty), renamed, wire, STATEMENT, "forwarded serde(rename) on the variant")
        elif NAME_SHAPE.match(h.fn):
            ctx.tag("name.in-shape")
            if wire != h.fn:
                ctx.violation("C01.c-wire-name", key + [h.fn, "wire"], C.where(m, ty), h.fn, wire, STATEMENT,
                              "MsgVariant::new (UpperCamel) + serde rename_all")
        else:
            ctx.tag("name.out-of-shape")
        dv = de["variant_of_wire"].get(wire)
        if dv != vn:
            ctx.violation("C01.c-wire-name", key + [h.fn, "de-maps"], C.where(m, ty), f'"{wire}" decodes to {vn}', dv, STATEMENT)
        # (d) fields
        ctx.inst("C01.d-fields", distinct=(m.key, kind, h.fn))
        ctx.tag("fields." + ("0" if not h.params else "n"))
        dfields = (de["fields_of_variant"].get(vn) or {}).get("FIELDS")
        check_fields(ctx, "C01.d-fields", m, key, h, variants[vn]["fields"], sv["fields"], dfields, variants[vn], skips=sv.get("skips", ()))
        # (f) constructor: named after the variant in snake case == the handler name for in-shape names
        ctor = None
        for f in info.impl["items"]:
            if f.get("k") == "fn" and f["name"] != "dispatch":
                st, tail = A.block_parts(f["body"])
                t = A.strip_expr(tail) if tail else None
                if t and t["k"] == "struct" and t["path"]["segs"][-1]["id"] == vn:
                    ctor = f["name"]
        if ctor is None:
            ctx.violation("C01.f-constructor", key + [h.fn, "none"], C.where(m, ty), f"a constructor building {vn}", "none", STATEMENT)
        else:
            # the constructor's *name* is not part of the property (convert_case turns `interface1_x` into
            # `interface_1_x`); it is identified by the variant it builds.
            check_ctor(ctx, m, g, key, info.impl, ctor, h, vn, ty)
    # VARIANTS == wire names, no further entry
    ctx.inst("C01.c-variants-const", distinct=(m.key, kind))
    if de["VARIANTS"] is None or sorted(de["VARIANTS"]) != sorted(wire_names):
        ctx.violation("C01.c-variants-const", key + ["VARIANTS"], C.where(m, ty), sorted(wire_names), de["VARIANTS"], STATEMENT)
    if len(set(wire_names)) != len(wire_names):
        ctx.violation("C01.c-variants-const", key + ["dup-wire"], C.where(m, ty), "distinct wire names", wire_names, STATEMENT)
    if set(de["variant_of_wire"]) != set(wire_names):
        ctx.violation("C01.c-variants-const", key + ["accepted-names"], C.where(m, ty), sorted(wire_names), sorted(de["variant_of_wire"]), STATEMENT)
    if len(ctx.samples) < 6 and handlers:
        ctx.sample({"program": m.key, "kind": kind, "type": ty["name"],
                    "wire_names": wire_names, "fields": {h.fn: [p["name"] + ":" + p["ty_s"] for p in h.params] for h in handlers}})


def check_struct(ctx, m, g, kind):
    key = [m.crate_key, "::".join(m.modpath + [m.name]), kind]
    hs = m.handlers[kind]
    ty = g.msg_type(kind)
    if not hs:
        if kind == "migrate":
            ctx.tag("migrate.none")
            if ty is not None:
                ctx.violation("C01.e-struct", key + ["unexpected"], C.where(m, ty), "no MigrateMsg without a migrate handler", "present", STATEMENT)
        return
    ctx.inst("C01.e-struct", distinct=(m.key, kind))
    ctx.tag(f"{kind}.one")
    h = hs[0]
    if ty is None or ty["k"] != "struct" or ty["style"] != "named":
        ctx.violation("C01.e-struct", key + ["shape"], C.where(m), f"struct {MSG_NAME[kind]} with named fields", ty and ty["k"], STATEMENT, "StructMessage::emit")
        return
    sf = check_container(ctx, m, g, kind, ty, key)
    if sf is None:
        return
    ser_fields = sf["ser"]["struct_fields"]
    check_fields(ctx, "C01.e-struct", m, key, h, ty["fields"], ser_fields, sf["de"]["FIELDS"], ty, skips=sf["ser"].get("struct_skips", ()))
    for f in ty["fields"]:
        if f["vis"] != "pub":
            ctx.violation("C01.e-struct", key + [f["name"], "vis"], C.where(m, ty), "pub field", f["vis"], STATEMENT)
    imps = g.inherent_impls(ty["name"])
    impl = next((i for i in imps if g.method(i, "new")), None)
    check_ctor(ctx, m, g, key, impl, "new", h, None, ty)
    ctx.sample({"program": m.key, "kind": kind, "type": ty["name"], "fields": [p["name"] + ":" + p["ty_s"] for p in h.params]})


def run(ctx):
    C.corpus_must_compile(ctx, "C01.compile")
    for m, g in C.pairs(ctx):
        ctx.program(m.key)
        for kind in ENUM_KINDS:
            check_enum(ctx, m, g, kind)
        if m.kind == "contract":
            for kind in ("instantiate", "migrate"):
                check_struct(ctx, m, g, kind)
    from .. import witness
    witness.run_for(ctx, "C01")
    C.corpus_adequacy(ctx, enforce=True)
    ctx.floor("C01.a-variants", 100)
    ctx.floor("C01.c-wire-name", 100)
    ctx.floor("C01.e-struct", 25)
    return check.finish(
        ctx, "translation_validation",
        "every generated K-enum / struct message of every corpus item is compared with the reference model: variants<->handlers (via dispatch arms), serde container attributes and derived impls, wire-name literals in serde_derive's own expansion (Serialize arm, Deserialize visitor, VARIANTS), field names/types/keys, constructors",
        "translation validation of the macro expansion (rustc -Zunpretty=expanded) of the corpus against an independent reference model; nothing is executed",
        ["values / argument types' own serde impls are outside sylvia (T2)", "programs outside the corpus are not covered by this rule"])
