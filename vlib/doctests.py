"""Extraction of the repository's documentation examples (```rust blocks in doc comments) as extra corpus programs.
They are valid user programs written by the maintainers (13 in sylvia-derive/src/lib.rs, 7 in sylvia/src) and exercise
shapes the integration tests do not (e.g. generic contracts with a single used parameter)."""
import os
import re


def extract(path):
    """[(start_line, code)] for every ```rust / ``` block in `///` or `//!` doc comments that is meant to compile"""
    out = []
    cur = None
    start = 0
    with open(path) as f:
        for i, line in enumerate(f, 1):
            m = re.match(r"\s*//[/!] ?(.*)$", line.rstrip("\n"))
            if not m:
                cur = None
                continue
            body = m.group(1)
            fence = re.match(r"\s*```(.*)$", body)
            if fence:
                if cur is None:
                    info = fence.group(1).strip()
                    if info in ("", "rust", "rust,no_run", "no_run"):
                        cur = []
                        start = i
                    else:
                        cur = False     # a block not meant to compile (text, ignore, compile_fail, ...)
                else:
                    if cur is not False:
                        out.append((start, "\n".join(cur) + "\n"))
                    cur = None
                continue
            if cur is None or cur is False:
                continue
            # rustdoc hidden lines: `# code`, `#` ; `##` escapes a literal # (both after optional indentation)
            stripped = body.lstrip()
            indent = body[:len(body) - len(stripped)]
            if stripped.startswith("##"):
                body = indent + stripped[1:]
            elif stripped == "#":
                body = ""
            elif stripped.startswith("# "):
                body = indent + stripped[2:]
            cur.append(body)
    return out


def doc_programs(repo):
    progs = []
    for rel in ("sylvia-derive/src/lib.rs", "sylvia/src/types.rs", "sylvia/src/multitest.rs", "sylvia/src/utils.rs"):
        p = os.path.join(repo, rel)
        if not os.path.exists(p):
            continue
        for start, code in extract(p):
            if "fn main" not in code:
                # rustdoc would wrap the block in a function; sylvia items inside a function body are outside the corpus model
                if re.search(r"#\[\s*(sylvia\s*::\s*)?(contract|interface|entry_points)", code):
                    continue
                code = "fn main() {\n" + code + "\n}\n"
            name = "doc_" + re.sub(r"[^a-z0-9]+", "_", rel.lower().replace("/src/", "_").replace(".rs", "")) + f"_{start}"
            progs.append((name, rel, start, code))
    return progs
