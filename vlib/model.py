"""Reference model: what the documentation says the macros must generate, computed from the
annotated source item alone (independent of sylvia-derive's implementation)."""
from . import ast as A
from .util import CheckError, KINDS

SV_KNOWN = {"custom", "error", "messages", "msg", "override_entry_point", "attr", "msg_attr", "payload",
            "data", "features"}


def is_sv_attr(a):
    p = a["path"].split("::")
    return len(p) == 2 and p[0] == "sv" and p[1] in SV_KNOWN


def ident_of(t):
    return t["s"] if t["t"] == "ident" else None


def parse_path_tokens(ts):
    """tokens of a path (idents, ::, generic args) -> ('a::b', remaining tokens, had_generics)"""
    segs = []
    i = 0
    n = len(ts)
    while i < n:
        if ts[i]["t"] == "ident":
            segs.append(ts[i]["s"])
            i += 1
            # generic args  < ... >
            if i < n and ts[i]["t"] == "punct" and ts[i]["s"] == "<":
                depth = 0
                while i < n:
                    if ts[i]["t"] == "punct" and ts[i]["s"] == "<":
                        depth += 1
                    elif ts[i]["t"] == "punct" and ts[i]["s"] == ">":
                        depth -= 1
                        if depth == 0:
                            i += 1
                            break
                    i += 1
            if i + 1 < n and ts[i]["t"] == "punct" and ts[i]["s"] == ":" and ts[i + 1]["t"] == "punct" and ts[i + 1]["s"] == ":":
                i += 2
                continue
            break
        elif ts[i]["t"] == "punct" and ts[i]["s"] == ":" and i + 1 < n and ts[i + 1]["s"] == ":" and not segs:
            i += 2
            continue
        else:
            break
    return "::".join(segs), ts[i:]


def upper_camel_doc(name):
    """Documented deduction of the interface variant name: UpperCamel of the last path segment."""
    parts = [p for p in name.split("_") if p]
    return "".join(p[:1].upper() + p[1:] for p in parts)


class Handler:
    def __init__(self):
        self.fn = None
        self.kind = None
        self.params = []        # [{name, ty (AST), ty_s (Self-stripped str), attrs:[attr], sv_attrs:[attr]}]
        self.resp = None        # explicit resp= ident
        self.ret = None         # return type AST
        self.resp_ty_s = None   # model response type (query)
        self.variant_attrs = [] # sv::attr token strings
        self.reply_handlers = []
        self.reply_on = None
        self.ln = None
        self.ctx_ty = None
        self.has_body = None


class Item:
    def __init__(self):
        self.kind = None
        self.name = None
        self.crate = None
        self.modpath = []
        self.file = None
        self.ln = None
        self.probe = None
        self.noop = False
        self.generics = []      # type parameter names (contract) / associated type names w/o Error (interface)
        self.lifetimes = []
        self.generic_params = []
        self.where = []
        self.self_ty = None
        self.error = None       # type str or None (default)
        self.custom = {"msg": None, "query": None}
        self.messages = []      # [{module, variant, has_msg, has_query, as_given}]
        self.overrides = []     # [{kind_word, path, msg}]
        self.msg_attrs = []     # [(kind, tokens_str)]
        self.replies_feature = False
        self.handlers = {k: [] for k in KINDS}
        self.assoc_types = []   # interface: [{name, bounds_s}]
        self.entry_points = False
        self.ep_generics = []
        self.ep_args_s = None
        self.other_methods = []
        self.ast = None

    @property
    def key(self):
        return self.crate + "::" + "::".join(self.modpath + [self.name])

    def handler_names(self, kind):
        return [h.fn for h in self.handlers[kind]]


def parse_msg_attr(a):
    tt = a.get("tt") or []
    parts = A.tt_split(tt, ",")
    if not parts or len(parts[0]) != 1 or parts[0][0]["t"] != "ident":
        return None
    kind = parts[0][0]["s"]
    out = {"kind": kind, "resp": None, "handlers": [], "reply_on": None}
    # re-scan sequentially because handlers=[a,b] contains commas inside a group (kept as one token)
    for p in parts[1:]:
        if not p:
            continue
        if len(p) >= 3 and p[0]["t"] == "ident" and p[1]["s"] == "=":
            key = p[0]["s"]
            if key == "resp":
                out["resp"] = A.tt_flat(p[2:])
            elif key == "handlers" and p[2]["t"] == "group":
                out["handlers"] = [t["s"] for t in p[2]["c"] if t["t"] == "ident"]
            elif key == "reply_on":
                out["reply_on"] = p[2]["s"]
    return out


def build_item(found, crate):
    """found: dict from corpus.find_sylvia_items (with 'item', 'macros', 'kind', ...)."""
    it = found["item"]
    m = Item()
    m.kind = found["kind"]
    m.crate = crate.name
    m.crate_suffix = getattr(crate, "suffix", "")
    m.modpath = found["modpath"]
    m.file = found.get("src_file")
    m.ln = it["ln"]
    m.probe = found.get("probe")
    m.ast = it
    m.entry_points = found["entry_points"]
    m.entry_points_via_cfg = any(mac[0] == "entry_points" and mac[2] for a, mac in found["macros"])
    for a, mac in found["macros"]:
        if mac[0] == "entry_points" and mac[1]:
            m.ep_args_s = A.tt_flat(mac[1])
            # generics< A, B >
            ts = mac[1]
            if ts and ts[0]["t"] == "ident" and ts[0]["s"] == "generics":
                depth = 0
                cur = []
                args = []
                for t in ts[1:]:
                    if t["t"] == "punct" and t["s"] == "<":
                        depth += 1
                        if depth == 1:
                            continue
                    if t["t"] == "punct" and t["s"] == ">":
                        depth -= 1
                        if depth == 0:
                            if cur:
                                args.append(A.compact(A.tt_flat(cur)))
                            break
                    if depth == 1 and t["t"] == "punct" and t["s"] == ",":
                        args.append(A.compact(A.tt_flat(cur)))
                        cur = []
                        continue
                    cur.append(t)
                m.ep_generics = args
        if mac[0] in ("contract", "interface"):
            m.macro_args = A.tt_flat(mac[1]) if mac[1] else ""
            # `#[contract(<anything>)]` (the pre-1.0 `module=...` form, see MIGRATING.md) generates nothing: the impl is only
            # re-emitted stripped (lib.rs contract_impl). Such items take part in the pass-through rule (C13) only.
            m.noop = mac[0] == "contract" and bool(m.macro_args.strip())

    if m.kind == "contract":
        m.self_ty = it["self_ty"]
        m.name = it["self_ty"]["path"]["segs"][-1]["id"] if it["self_ty"]["k"] == "path" else A.type_str(it["self_ty"])
        m.trait_impl = it.get("trait") is not None
    else:
        m.name = it["name"]
    g = it["generics"]
    m.generic_params = g["params"]
    m.generics = [p["name"] for p in g["params"] if p["k"] == "type"]
    m.lifetimes = [p["name"] for p in g["params"] if p["k"] == "lifetime"]
    m.where = g["where"]

    for a in it["attrs"]:
        if not is_sv_attr(a):
            continue
        nm = a["path"].split("::")[1]
        tt = a.get("tt") or []
        if nm == "error":
            m.error = A.compact(a["tokens"])
        elif nm == "custom":
            for p in A.tt_split(tt, ","):
                if len(p) >= 3 and p[0]["t"] == "ident" and p[1]["s"] == "=":
                    if p[0]["s"] in ("msg", "query"):
                        m.custom[p[0]["s"]] = A.compact(A.tt_flat(p[2:]))
        elif nm == "messages":
            module, rest = parse_path_tokens(tt)
            ent = {"module": module, "variant": None, "has_msg": False, "has_query": False, "as_given": False}
            if rest and rest[0]["t"] == "ident" and rest[0]["s"] == "as":
                ent["variant"] = rest[1]["s"]
                ent["as_given"] = True
                rest = rest[2:]
            else:
                ent["variant"] = upper_camel_doc(module.split("::")[-1])
            if rest and rest[0]["t"] == "punct" and rest[0]["s"] == ":":
                if len(rest) >= 3 and rest[1]["s"] == "custom" and rest[2]["t"] == "group":
                    for t in rest[2]["c"]:
                        if t["t"] == "ident" and t["s"] == "msg":
                            ent["has_msg"] = True
                        if t["t"] == "ident" and t["s"] == "query":
                            ent["has_query"] = True
            m.messages.append(ent)
        elif nm == "override_entry_point":
            if len(tt) >= 3 and tt[0]["t"] == "ident" and tt[1]["s"] == "=":
                path, rest = parse_path_tokens(tt[2:])
                msg = A.compact(A.tt_flat(rest[0]["c"])) if rest and rest[0]["t"] == "group" else None
                m.overrides.append({"kind": tt[0]["s"], "path": path, "msg": msg})
        elif nm == "msg_attr":
            parts = A.tt_split(tt, ",")
            if parts and len(parts[0]) == 1:
                k = parts[0][0]["s"]
                # tokens after the first comma
                idx = next(i for i, t in enumerate(tt) if t["t"] == "punct" and t["s"] == ",")
                m.msg_attrs.append((k, A.compact(A.tt_flat(tt[idx + 1:])), tt[idx + 1:]))
        elif nm == "features":
            for t in tt:
                if t["t"] == "ident" and t["s"] == "replies":
                    m.replies_feature = True

    names_for_occurs = None
    for sub in it["items"]:
        if sub["k"] == "type" and m.kind == "interface":
            m.assoc_types.append({"name": sub["name"], "bounds": [A.compact(b["s"]) for b in sub.get("bounds", [])],
                                  "bounds_ast": sub.get("bounds", [])})
        if sub["k"] != "fn":
            continue
        msg_attrs = [a for a in sub["attrs"] if a["path"] == "sv::msg"]
        if not msg_attrs:
            m.other_methods.append(sub["name"])
            continue
        pa = parse_msg_attr(msg_attrs[0])
        if pa is None or pa["kind"] not in KINDS:
            m.other_methods.append(sub["name"])
            continue
        h = Handler()
        h.fn = sub["name"]
        h.kind = pa["kind"]
        h.resp = pa["resp"]
        h.reply_handlers = pa["handlers"] or ([h.fn] if h.kind == "reply" else [])
        h.reply_on = pa["reply_on"] or ("always" if h.kind == "reply" else None)
        h.ret = sub["output"]
        h.ln = sub["ln"]
        h.ast = sub
        h.has_body = sub.get("body") is not None
        h.variant_attrs = [(A.compact(a["tokens"]), a.get("tt")) for a in sub["attrs"] if a["path"] == "sv::attr"]
        inputs = sub["inputs"]
        if len(inputs) >= 2 and not inputs[1].get("recv"):
            h.ctx_ty = A.type_str(inputs[1]["ty"])
        for p in inputs[2:]:
            if p.get("recv"):
                continue
            nmv = p["pat"]["name"] if p["pat"]["k"] == "ident" else None
            h.params.append({"name": nmv, "ty": p["ty"], "ty_s": A.type_str(p["ty"], strip_self=True),
                             "ty_raw_s": A.type_str(p["ty"]),
                             "attrs": [a for a in p["attrs"] if not is_sv_attr(a)],
                             "sv_attrs": [a for a in p["attrs"] if is_sv_attr(a)]})
        if h.kind == "query":
            if h.resp:
                h.resp_ty_s = A.compact(h.resp)
                h.resp_ty = None
            else:
                r = h.ret
                if r and r["k"] == "path" and isinstance(r["path"]["segs"][0]["args"], list) and r["path"]["segs"][0]["args"]:
                    h.resp_ty = r["path"]["segs"][0]["args"][0]
                    h.resp_ty_s = A.type_str(h.resp_ty, strip_self=True)
        m.handlers[h.kind].append(h)
    if m.kind == "interface":
        m.generics = [t["name"] for t in m.assoc_types if t["name"] != "Error"]
    return m


# ------------------------------------------------------------------ derived tables

def used_params(item, kind):
    """Set of the item's type parameters / associated types that occur in kind's handler argument
    types (and, for query, response types). Independent `occurs in`."""
    names = set(item.generics)
    used = set()
    order = []
    for h in item.handlers[kind]:
        for p in h.params:
            for n in A.type_mentions_ordered(p["ty"], names):
                if n not in used:
                    used.add(n)
                    order.append(n)
        if kind == "query":
            if h.resp:
                if A.compact(h.resp) in names and A.compact(h.resp) not in used:
                    used.add(A.compact(h.resp))
                    order.append(A.compact(h.resp))
            elif getattr(h, "resp_ty", None) is not None:
                for n in A.type_mentions_ordered(h.resp_ty, names):
                    if n not in used:
                        used.add(n)
                        order.append(n)
    return used, order


def reply_table(item):
    """name -> {'success': handler|None, 'error': handler|None} with 'always' filling both.
    Returns (table, order_of_names, conflicts)."""
    table = {}
    order = []
    conflicts = []
    for h in item.handlers["reply"]:
        for name in h.reply_handlers:
            ent = table.get(name)
            if ent is None:
                ent = {"success": None, "error": None, "always": None, "methods": []}
                table[name] = ent
                order.append(name)
            on = h.reply_on
            if on == "always":
                if ent["methods"]:
                    conflicts.append((name, h.fn, "always with other"))
                ent["always"] = h
            else:
                if ent["always"] is not None or ent[on] is not None:
                    conflicts.append((name, h.fn, f"duplicate {on}"))
                ent[on] = h
            ent["methods"].append(h)
    return table, order, conflicts


def expected_reply_on(ent):
    if ent["always"] is not None or (ent["success"] is not None and ent["error"] is not None):
        return "Always"
    if ent["success"] is not None:
        return "Success"
    if ent["error"] is not None:
        return "Error"
    return None


def data_mode(h):
    """Documented data mode of a success reply method: first param after ctx carrying #[sv::data(..)].
    Returns None (no marker) or dict(raw, opt, instantiate)."""
    if not h.params:
        return None
    p = h.params[0]
    for a in p["sv_attrs"]:
        if a["path"] == "sv::data":
            toks = [t["s"] for t in (a.get("tt") or []) if t["t"] == "ident"]
            return {"raw": "raw" in toks, "opt": "opt" in toks, "instantiate": "instantiate" in toks}
    return None


def payload_params(h):
    """Parameters of a reply method that carry payload: all after ctx, minus the leading data / result param."""
    ps = list(h.params)
    return ps


def entry_point_set(item):
    """Documented set of generated entry points."""
    s = {"instantiate", "exec", "query", "sudo"}
    if item.handlers["migrate"]:
        s.add("migrate")
    if item.handlers["reply"]:
        s.add("reply")
    for o in item.overrides:
        s.discard(o["kind"])
    return s
