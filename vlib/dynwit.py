"""Witness programs that are *computed from the generator's current source* (not committed): hygiene of handler argument names.

Handler argument names end up next to the generator's own local names: in the bodies of the generated message constructors,
dispatch arms, executor / querier helpers, multitest proxies, sub-message builders and reply dispatch. quote! identifiers are not
hygienic, so a generated `let contract = ..` (or closure / fn parameter, or a bare call of a function) captures a user argument of
the same name. Which names are dangerous depends on the templates of the day, so the witness is regenerated on every facts build:

  names(/repo) = every lower-case identifier that occurs in a quote!/parse_quote! template of sylvia-derive in a position where it
                 can be a value name (not an interpolation, not a path segment, not a field/method after `.`, not a macro name)
                 + the identifiers the generator builds from string literals (format_ident!("field{}"), Ident::new("..")) with
                 small indices; minus the `sv_` prefixed names, the generator's reserved namespace.

For every such name the witness declares handlers of every kind (contract and interface) taking an argument of exactly that name.
The package must type-check (rule `<prop>.w-w-argnames` of the owning properties): a captured argument shows up as a type error
inside the expansion because all witness arguments are `String`/`Binary` while generator locals are never of those types where it
matters (and a swapped pair of Strings is excluded by translation validation of the same programs: they are indexed corpus items).
"""
import os
import re

from . import grules
from . import ast as A

KW = set("as break const continue crate else enum extern false fn for if impl in let loop match mod move mut pub ref return self Self "
         "static struct super trait true type unsafe use where while async await dyn abstract become box do final macro override priv "
         "typeof unsized virtual yield try union gen".split())
CHUNK = 16
CTX = "witness_ctx_param"


def candidate_names():
    names = set()
    for rel, qn, mac, tt, ln in grules.templates():
        toks = grules.flat_tokens(tt)
        for i, t in enumerate(toks):
            if t["t"] != "ident":
                continue
            s = t["s"]
            if s in KW or s == "_" or not re.match(r"^[a-z_][a-z0-9_]*$", s):
                continue
            prev = toks[i - 1] if i > 0 else None
            nxt = toks[i + 1] if i + 1 < len(toks) else None
            if prev and prev["t"] == "punct" and prev["s"] in ("#", ".", "'"):
                continue
            if nxt and nxt["t"] == "punct" and nxt["s"] == "!":
                continue
            if nxt and nxt["t"] == "punct" and nxt["s"] == ":" and i + 2 < len(toks) and toks[i + 2]["t"] == "punct" and toks[i + 2]["s"] == ":" and nxt.get("j"):
                continue
            if prev and prev["t"] == "punct" and prev["s"] == ":" and i >= 2 and toks[i - 2]["t"] == "punct" and toks[i - 2]["s"] == ":" and toks[i - 2].get("j"):
                continue
            names.add(s)
    # identifiers built from string literals: format_ident!("field{}", n), Ident::new("name", span)
    for rel, ast in grules.derive_asts().items():
        for n in A.find_all(ast, lambda n: isinstance(n, dict) and n.get("k") == "macro" and str(n.get("path", "")).split("::")[-1] == "format_ident"):
            lits = [t["s"] for t in grules.flat_tokens(n["tt"]) if t["t"] == "lit" and t["s"].startswith('"')]
            if lits:
                _from_pattern(lits[0].strip('"'), names)
        for n in A.find_all(ast, lambda n: isinstance(n, dict) and n.get("x") and n.get("k") == "call" and A.path_ids(n["func"]) and A.path_ids(n["func"])[-2:] == ["Ident", "new"]):
            if n["args"]:
                a = A.strip_expr(n["args"][0])
                if a.get("k") == "lit" and a.get("lk") == "str":
                    _from_pattern(a["v"], names)
    excl = set(os.environ.get("VERIF_DYN_EXCLUDE", "").split(","))      # exploration aid only (never set by registered commands)
    # `sv_`-prefixed names are the generator's reserved namespace (sv_payload_N, sv_code_id, 'sv_admins_lifetime; the module `sv`)
    return sorted(n for n in names if n not in excl and not n.startswith("sv_"))


def _from_pattern(pat, names):
    for idx in ("0", "1", "2"):
        s = re.sub(r"\{[^}]*\}", idx, pat)
        if re.match(r"^[a-z_][a-z0-9_]*$", s) and s not in KW and s != "_":
            names.add(s)
        if "{" not in pat:
            break


def handler_names():
    """method names that meet the generator's own item names: functions the templates define (`fn dispatch`, `fn new`, ..), public
    functions of the runtime crate that generated impls call on `self` (`contract`, `funds`, `querier`, ..), and the snake_case
    of every UpperCamel identifier a template uses in value / pattern position (`Into::into`, `Ok(..)`, `Err(..)`: a handler
    `into` becomes the variant `Into`)."""
    import glob
    names = set()
    for rel, qn, mac, tt, ln in grules.templates():
        toks = grules.flat_tokens(tt)
        for i, t in enumerate(toks):
            if t["t"] != "ident":
                continue
            s = t["s"]
            prev = toks[i - 1] if i > 0 else None
            if prev is not None and prev["t"] == "ident" and prev["s"] == "fn" and re.match(r"^[a-z_][a-z0-9_]*$", s):
                names.add(s)
            # methods the generated code calls with method-call syntax (`x.to_owned()`, `.into()`, `.unwrap()`): a handler of that
            # name becomes a method of a generated trait that may be implemented for the receiver
            if prev is not None and prev["t"] == "punct" and prev["s"] == "." and re.match(r"^[a-z_][a-z0-9_]*$", s):
                names.add(s)
            if re.match(r"^[A-Z][A-Za-z0-9]*$", s) and not (prev is not None and prev["t"] == "punct" and prev["s"] in ("#", "'")):
                snake = re.sub(r"(?<!^)([A-Z])", r"_\1", s).lower()
                if re.match(r"^[a-z][a-z0-9_]*$", snake):
                    names.add(snake)
    from . import util
    for f in sorted(glob.glob(os.path.join(util.REPO, "sylvia", "src", "**", "*.rs"), recursive=True)):
        with open(f) as fh:
            for m in re.finditer(r"\bpub\s+(?:const\s+)?fn\s+([a-z_][a-z0-9_]*)", fh.read()):
                names.add(m.group(1))
    # `new` is the constructor every contract must have; `dispatch` is the known finding D18 (witness corpus/w-handler-dispatch)
    return sorted(n for n in names if n not in KW and n != "_" and not n.startswith("sv_") and n not in ("new", "dispatch"))


def handler_program(names):
    kinds = (("exec", "ExecCtx", "Response", "Ok(Response::new())"), ("query", "QueryCtx", "Resp", "Ok(Resp {})"), ("sudo", "SudoCtx", "Response", "Ok(Response::new())"))
    out = ["//@ props: C01 C02 C10 C12 C08\n//@ expect: pass\n"
           f"//@ what: handlers (contract and interface, every enum kind) named like the generator's own functions, the runtime's public functions and the snake_case of every UpperCamel identifier used in templates ({len(names)} names computed on this run): generated items must not collide with, or be captured by, a handler's name\n"
           "#![allow(dead_code, unused_variables, unused_imports, deprecated, clippy::new_without_default, clippy::should_implement_trait, clippy::wrong_self_convention)]\n"
           "use sylvia::ctx::{ExecCtx, InstantiateCtx, QueryCtx, SudoCtx};\n"
           "use sylvia::cw_std::{Response, StdError, StdResult};\n"
           "use sylvia::{contract, entry_points, interface};\n\n"
           "#[sylvia::cw_schema::cw_serde]\npub struct Resp {}\n\n"]
    for kind, ctx, ret, body in kinds:
        out.append(f"pub mod c_{kind} {{\n    use super::*;\n    pub struct Contract;\n\n    #[entry_points]\n    #[contract]\n    impl Contract {{\n        pub fn new() -> Self {{\n            Self\n        }}\n"
                   "        #[sv::msg(instantiate)]\n        fn witness_instantiate(&self, _ctx: InstantiateCtx) -> StdResult<Response> { Ok(Response::new()) }\n")
        for n in names:
            out.append(f"        #[sv::msg({kind})]\n        fn {n}(&self, _ctx: {ctx}, a: u32) -> StdResult<{ret}> {{ {body} }}\n")
        out.append("    }\n}\n\n")
        out.append(f"pub mod i_{kind} {{\n    use super::*;\n\n    #[interface]\n    #[sv::custom(msg = sylvia::cw_std::Empty, query = sylvia::cw_std::Empty)]\n    pub trait Named {{\n        type Error: From<StdError>;\n")
        for n in names + ["new"]:
            out.append(f"        #[sv::msg({kind})]\n        fn {n}(&self, ctx: {ctx}, a: u32) -> Result<{ret}, Self::Error>;\n")
        out.append("    }\n}\n\n")
    # reply handler NAMES (`handlers=[name]`): they become methods of the SubMsgMethods trait (implemented for SubMsg, WasmMsg and
    # CosmosMsg) and `<NAME>_REPLY_ID` constants
    out.append("pub mod c_reply {\n    use super::*;\n    use sylvia::ctx::ReplyCtx;\n    use sylvia::cw_std::{Binary, SubMsgResult};\n    pub struct Contract;\n\n"
               "    #[entry_points]\n    #[contract]\n    #[sv::features(replies)]\n    impl Contract {\n        pub fn new() -> Self {\n            Self\n        }\n"
               "        #[sv::msg(instantiate)]\n        fn witness_instantiate(&self, _ctx: InstantiateCtx) -> StdResult<Response> { Ok(Response::new()) }\n")
    for n in names + ["new"]:
        out.append(f"        #[sv::msg(reply, handlers=[{n}], reply_on=always)]\n        fn witness_reply_{n}(&self, _ctx: ReplyCtx, witness_result: SubMsgResult, #[sv::payload(raw)] witness_payload: Binary) -> StdResult<Response> {{ Ok(Response::new()) }}\n")
    out.append("    }\n}\n")
    return "".join(out)


def helper_generic_names():
    """type parameter names the generator's templates declare themselves (`impl<SvBankT, .., #(#generics,)*>`): a user
    parameter / associated type of the same name collides (E0403). `Sv`-prefixed names are the reserved namespace; `Error` is
    the mandatory associated type of every interface."""
    names = set()
    for rel, qn, mac, tt, ln in grules.templates():
        for kind, params in grules.generics_lists(tt):
            for p in params:
                rest, _ = grules.strip_interpolations(p)
                if rest and rest[0]["t"] == "ident" and re.match(r"^[A-Z][A-Za-z0-9]*$", rest[0]["s"]):
                    names.add(rest[0]["s"])
    return sorted(n for n in names if not n.startswith("Sv") and n != "Error")


def _args(names, ty="String"):
    return "".join(f", {n}: {ty}" for n in names)


def _echo(names):
    """every argument is used by name in the body, so a swap inside generated code cannot hide behind unused arguments"""
    return "let _witness_used: Vec<&String> = vec![" + ", ".join("&" + n for n in names) + "];"


def program(names):
    chunks = [names[i:i + CHUNK] for i in range(0, len(names), CHUNK)]
    out = ["//@ props: C02 C10 C12 C08\n//@ expect: pass\n"
           f"//@ what: handler arguments named like every identifier the generator's templates use in value position ({len(names)} names computed from sylvia-derive on this run): no generated local may capture a user argument\n"
           "#![allow(dead_code, unused_variables, unused_imports, non_snake_case, deprecated, clippy::new_without_default, clippy::too_many_arguments, clippy::useless_vec)]\n"
           "use sylvia::ctx::{ExecCtx, InstantiateCtx, MigrateCtx, QueryCtx, ReplyCtx, SudoCtx};\n"
           "use sylvia::cw_std::{Binary, Response, StdError, StdResult, SubMsgResult};\n"
           "use sylvia::{contract, entry_points, interface};\n\n"
           "#[sylvia::cw_schema::cw_serde]\npub struct Resp {}\n\n"]
    # ---- interface
    out.append("pub mod iface_args {\n    use super::*;\n\n    #[interface]\n    #[sv::custom(msg = sylvia::cw_std::Empty, query = sylvia::cw_std::Empty)]\n    pub trait ArgNames {\n        type Error: From<StdError>;\n")
    for i, ch in enumerate(chunks):
        out.append(f"        #[sv::msg(exec)]\n        fn ie{i}(&self, {CTX}: ExecCtx{_args(ch)}) -> Result<Response, Self::Error>;\n")
        out.append(f"        #[sv::msg(query)]\n        fn iq{i}(&self, {CTX}: QueryCtx{_args(ch)}) -> Result<Resp, Self::Error>;\n")
        out.append(f"        #[sv::msg(sudo)]\n        fn is{i}(&self, {CTX}: SudoCtx{_args(ch)}) -> Result<Response, Self::Error>;\n")
    out.append("    }\n}\n\n")
    # ---- contract implementing the interface
    out.append("pub mod contract_args {\n    use super::*;\n\n    pub struct Contract;\n\n")
    out.append("    impl iface_args::ArgNames for Contract {\n        type Error = StdError;\n")
    for i, ch in enumerate(chunks):
        out.append(f"        fn ie{i}(&self, {CTX}: ExecCtx{_args(ch)}) -> StdResult<Response> {{ {_echo(ch)} Ok(Response::new()) }}\n")
        out.append(f"        fn iq{i}(&self, {CTX}: QueryCtx{_args(ch)}) -> StdResult<Resp> {{ {_echo(ch)} Ok(Resp {{}}) }}\n")
        out.append(f"        fn is{i}(&self, {CTX}: SudoCtx{_args(ch)}) -> StdResult<Response> {{ {_echo(ch)} Ok(Response::new()) }}\n")
    out.append("    }\n\n")
    out.append("    #[entry_points]\n    #[contract]\n    #[sv::features(replies)]\n    #[sv::messages(iface_args)]\n    impl Contract {\n        pub fn new() -> Self {\n            Self\n        }\n")
    out.append(f"        #[sv::msg(instantiate)]\n        fn instantiate(&self, {CTX}: InstantiateCtx{_args(names)}) -> StdResult<Response> {{ {_echo(names)} Ok(Response::new()) }}\n")
    out.append(f"        #[sv::msg(migrate)]\n        fn migrate(&self, {CTX}: MigrateCtx{_args(names)}) -> StdResult<Response> {{ {_echo(names)} Ok(Response::new()) }}\n")
    for i, ch in enumerate(chunks):
        out.append(f"        #[sv::msg(exec)]\n        fn e{i}(&self, {CTX}: ExecCtx{_args(ch)}) -> StdResult<Response> {{ {_echo(ch)} Ok(Response::new()) }}\n")
        out.append(f"        #[sv::msg(query)]\n        fn q{i}(&self, {CTX}: QueryCtx{_args(ch)}) -> StdResult<Resp> {{ {_echo(ch)} Ok(Resp {{}}) }}\n")
        out.append(f"        #[sv::msg(sudo)]\n        fn s{i}(&self, {CTX}: SudoCtx{_args(ch)}) -> StdResult<Response> {{ {_echo(ch)} Ok(Response::new()) }}\n")
        # typed payload of several values, both outcomes
        out.append(f"        #[sv::msg(reply, handlers=[typed{i}], reply_on=success)]\n        fn typed{i}_ok(&self, {CTX}: ReplyCtx{_args(ch)}) -> StdResult<Response> {{ {_echo(ch)} Ok(Response::new()) }}\n")
        out.append(f"        #[sv::msg(reply, handlers=[typed{i}], reply_on=error)]\n        fn typed{i}_err(&self, {CTX}: ReplyCtx, witness_error_text: String{_args(ch)}) -> StdResult<Response> {{ {_echo(ch)} Ok(Response::new()) }}\n")
    for n in names:
        # the name as: data parameter, error parameter, result parameter, raw payload parameter
        out.append(f"        #[sv::msg(reply, handlers=[d_{n}], reply_on=success)]\n        fn d_{n}_ok(&self, {CTX}: ReplyCtx, #[sv::data(raw, opt)] {n}: Option<Binary>, #[sv::payload(raw)] witness_payload: Binary) -> StdResult<Response> {{ let _: (&Option<Binary>, &Binary) = (&{n}, &witness_payload); Ok(Response::new()) }}\n")
        out.append(f"        #[sv::msg(reply, handlers=[d_{n}], reply_on=error)]\n        fn d_{n}_err(&self, {CTX}: ReplyCtx, {n}: String, #[sv::payload(raw)] witness_payload: Binary) -> StdResult<Response> {{ let _: (&String, &Binary) = (&{n}, &witness_payload); Ok(Response::new()) }}\n")
        out.append(f"        #[sv::msg(reply, handlers=[r_{n}], reply_on=always)]\n        fn r_{n}(&self, {CTX}: ReplyCtx, {n}: SubMsgResult, #[sv::payload(raw)] witness_payload: Binary) -> StdResult<Response> {{ let _: (&SubMsgResult, &Binary) = (&{n}, &witness_payload); Ok(Response::new()) }}\n")
        out.append(f"        #[sv::msg(reply, handlers=[p_{n}], reply_on=always)]\n        fn p_{n}(&self, {CTX}: ReplyCtx, witness_result: SubMsgResult, #[sv::payload(raw)] {n}: Binary) -> StdResult<Response> {{ let _: (&SubMsgResult, &Binary) = (&witness_result, &{n}); Ok(Response::new()) }}\n")
    out.append("    }\n}\n")
    return "".join(out)


MANIFEST = """[package]
name = "w-argnames"
version = "0.0.0"
edition = "2021"

[lib]
test = false
doctest = false

[dependencies]
@SYLVIA_DEP@
@VPROBE_DEP@
@SERDE_DEP@
@DEP:cosmwasm-std@
@DEP:cosmwasm-schema@
@DEP:schemars@
"""


def generate(dest_root):
    """writes the dynamic witness package(s) under dest_root and returns their directories (same layout as /verif/corpus/<pkg>)"""
    names = candidate_names()
    if len(names) < 40:
        from .util import CheckError
        raise CheckError(f"dynamic witness: only {len(names)} candidate names found in the generator templates (expected >= 40): template extraction broke")
    d = os.path.join(dest_root, "w-argnames")
    os.makedirs(os.path.join(d, "src"), exist_ok=True)
    with open(os.path.join(d, "Cargo.toml.in"), "w") as f:
        f.write(MANIFEST)
    with open(os.path.join(d, "src", "lib.rs"), "w") as f:
        f.write(program(names))
    hn = handler_names()
    if len(hn) < 40:
        from .util import CheckError
        raise CheckError(f"dynamic witness: only {len(hn)} handler-name candidates (expected >= 40): extraction broke")
    d2 = os.path.join(dest_root, "w-handlernames")
    os.makedirs(os.path.join(d2, "src"), exist_ok=True)
    with open(os.path.join(d2, "Cargo.toml.in"), "w") as f:
        f.write(MANIFEST.replace("w-argnames", "w-handlernames"))
    with open(os.path.join(d2, "src", "lib.rs"), "w") as f:
        f.write(handler_program(hn))
    # ---- helper type-parameter names as user parameters / associated types (C19)
    import sys
    from . import util
    sys.path.insert(0, os.path.join(util.VERIF, "tools", "gen"))
    import gen_hygiene
    tn = helper_generic_names()
    d3 = os.path.join(dest_root, "w-typarams")
    os.makedirs(os.path.join(d3, "src", "bin"), exist_ok=True)
    with open(os.path.join(d3, "Cargo.toml.in"), "w") as f:
        f.write(MANIFEST.replace("w-argnames", "w-typarams").replace("[lib]\ntest = false\ndoctest = false\n\n", ""))
    # a fixed control program keeps the package non-empty when the generator declares no unprefixed helper parameter
    progs = [("control", gen_hygiene.contract_prog("control: a generic contract over `ControlT`", ["ControlT"]))]
    for n in tn:
        progs.append((f"c_{n.lower()}", gen_hygiene.contract_prog(f"generic contract whose type parameter is named like the generator's own helper parameter `{n}`", [n])))
        progs.append((f"i_{n.lower()}", gen_hygiene.iface_prog(f"interface whose associated type is named like the generator's own helper parameter `{n}`", [n])))
    for name, text in progs:
        with open(os.path.join(d3, "src", "bin", name + ".rs"), "w") as f:
            f.write(text)
    return [d, d2, d3], {"w-argnames": {"names": names}, "w-handlernames": {"names": hn}, "w-typarams": {"names": tn}}
