"""The table MANIFEST.json is generated from."""
TV_NOTE = "trusted: rustc expansion = compiled program (T1); literals in serde/schemars/cosmwasm-schema derive output are the wire names (T2); summaries of cosmwasm-std / cw-multi-test callees (T3); per-corpus-program guarantee, generator-wide only where a G-rule is named"

CHECKS = [
    {"id": "C01", "engine": "E-X", "level": "translation_validation",
     "text": "every generated message type of every corpus program is compared, variant by variant and field by field, with a reference model computed from the annotated source; wire names are read out of serde_derive's own expansion. Decides the shape for the corpus programs (all repo tests/examples + witnesses), not for all programs.",
     "design_ref": "DESIGN.md §5 C01", "note": TV_NOTE,
     "technique": "static translation validation: syn AST rules over rustc -Zunpretty=expanded output vs reference model"},
]

PENDING = "check under construction in this session (DESIGN.md §5 describes the planned rule); not claimed until its rule is armed"
NOT_APPLICABLE = [{"property_id": f"C{n:02d}", "reason": PENDING} for n in range(2, 21)]
