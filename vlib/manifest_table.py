"""The table MANIFEST.json is generated from."""
TV_NOTE = "trusted: rustc expansion = compiled program (T1); literals in serde/schemars/cosmwasm-schema derive output are the wire names (T2); summaries of cosmwasm-std / cw-multi-test callees (T3); per-corpus-program guarantee, generator-wide only where a G-rule is named"

CHECKS = [
    {"id": "C01", "engine": "E-X", "level": "translation_validation",
     "text": "every generated message type of every corpus program is compared, variant by variant and field by field, with a reference model computed from the annotated source; wire names are read out of serde_derive's own expansion. Decides the shape for the corpus programs (all repo tests/examples + witnesses), not for all programs.",
     "design_ref": "DESIGN.md §5 C01", "note": TV_NOTE,
     "technique": "static translation validation: syn AST rules over rustc -Zunpretty=expanded output vs reference model"},
    {"id": "C02", "engine": "E-X", "level": "translation_validation",
     "text": "every dispatch arm (K-enums, struct messages, contract-level wrappers) of every corpus program is reduced to a normal form (handler, ctx expression, argument bindings resolved through the arm pattern, result adapter) and compared with the model; the From<tuple> impls of the context structs in sylvia/src are checked field by field (R1). Handler bodies are not analysed.",
     "design_ref": "DESIGN.md §5 C02, §3.2 R1", "note": TV_NOTE,
     "technique": "static translation validation of expanded dispatch code + field-provenance rule over sylvia/src/ctx.rs"},
    {"id": "C03", "engine": "E-X", "level": "translation_validation",
     "text": "control-flow skeleton of the hand-written Deserialize of each contract-level message, its variants, untagged Serialize, From impls and panic sites are validated against the declared parts; for every item and kind the published name list must equal the names serde_derive (de)serialises under.",
     "design_ref": "DESIGN.md §5 C03", "note": TV_NOTE,
     "technique": "static translation validation: skeleton matching over expanded AST; list-vs-serde-literal comparison"},
    {"id": "C04", "engine": "E-X + E-G", "level": "translation_validation",
     "text": "kind partition of handlers over generated types, K-typed-only mentions inside each K wrapper, entry points and multitest Contract methods decoding only their own kind's wrapper; for all inputs: the generator's keyword tables (G4) and name tables (G5) cannot merge kinds.",
     "design_ref": "DESIGN.md §5 C04, §3.1 G4/G5", "note": TV_NOTE,
     "technique": "static translation validation + closed-table rules over the generator's syn AST"},
    {"id": "C05", "engine": "E-X + E-W", "level": "translation_validation",
     "text": "each wrapper evaluates assert_no_intersection in a const item over one list per part; lists strictly increasing and equal to the wire names; compile witnesses: colliding programs rejected by rustc (E0080 at the contract), twins accepted; const-eval matrix (798 list tuples) decided by rustc's const evaluator, rejected set must equal the intersecting set.",
     "design_ref": "DESIGN.md §5 C05", "note": TV_NOTE + "; the merge scan is witnessed on a finite matrix, not proved",
     "technique": "static translation validation + compile-fail/compile-pass witnesses (const evaluation by rustc, no run-time execution)"},
    {"id": "C06", "engine": "E-X + E-W + E-G", "level": "translation_validation",
     "text": "set of generated entry points equals the documented set for every corpus contract; every entry point body and every multitest Contract method is reduced to a normal form and compared with the model (new() with the entry_points generics, dispatch with deps/env/info, override path and message type); override-subset witness libraries must type-check (quick: singles, pairs, all, none x migrate/reply x replies; thorough: all 64 subsets x 4); G4 for all inputs.",
     "design_ref": "DESIGN.md §5 C06", "note": TV_NOTE,
     "technique": "static translation validation + compile-pass witnesses + keyword-table rule over the generator"},
    {"id": "C07", "engine": "E-X", "level": "translation_validation",
     "text": "dispatch_reply of every replies-enabled corpus contract: per (handler name, outcome) the arm's normal form (method, context provenance, leading argument, payload values) or the documented pass-through, default arm an error; name->id pairing is read from the builders, not guessed. Witness family: all coverings, both declaration orders, data on/off (thorough: every accepted table with <=2 names, <=3 methods).",
     "design_ref": "DESIGN.md §5 C07", "note": TV_NOTE,
     "technique": "static translation validation with provenance tracking through let-bindings and patterns"},
    {"id": "C08", "engine": "E-X + E-W", "level": "translation_validation",
     "text": "id constants distinct and one per handler name; for each name and receiver the SubMsg literal (reply_on vs covered outcomes, id, payload, ..self resp. msg: self.into() + gas_limit: None; field set parsed from cosmwasm-std source) and payload codec symmetry with dispatch_reply; must-fail witness for names with colliding id identifiers.",
     "design_ref": "DESIGN.md §5 C08", "note": TV_NOTE,
     "technique": "static translation validation + compile-fail witness"},
    {"id": "C09", "engine": "E-X", "level": "translation_validation",
     "text": "the data-extraction statements of every success arm are classified (envelope decoder, inner JSON, on-absent, wrap) and compared with the documented table of the six modes + no marker; failure edges precede the handler call.",
     "design_ref": "DESIGN.md §5 C09", "note": TV_NOTE,
     "technique": "static translation validation: statement classification over expanded AST"},
]

PENDING = "check under construction in this session (DESIGN.md §5 describes the planned rule); not claimed until its rule is armed"
NOT_APPLICABLE = [{"property_id": f"C{n:02d}", "reason": PENDING} for n in range(10, 21)]
