"""E-X build: expand the corpus with the compiler, collect diagnostics, turn into JSON facts (memoised)."""
import fcntl
import glob
import json
import os
import pickle
import shutil
import subprocess
import time

from . import corpus, util
from .util import CheckError, log


def nightly_sysroot():
    r = util.run(["rustc", "+nightly", "--print", "sysroot"])
    if r.returncode != 0:
        raise CheckError("nightly toolchain not available: " + r.stderr)
    return r.stdout.strip()


def cargo_env(expand_out=None, expand_filter=None, target_dir=None):
    env = dict(os.environ)
    env["CARGO_NET_OFFLINE"] = "true"
    env["CARGO_TARGET_DIR"] = target_dir or util.TARGET_DIR
    env["CARGO_TERM_COLOR"] = "never"
    env.pop("RUSTC_WORKSPACE_WRAPPER", None)
    if expand_out:
        env["RUSTC_WRAPPER"] = os.path.join(util.VERIF, "tools", "rustc-wrap.sh")
        env["VP_EXPAND_OUT"] = expand_out
        env["VP_EXPAND_FILTER"] = expand_filter or ".*"
    else:
        env.pop("RUSTC_WRAPPER", None)
    return env


def invalidate_fingerprints(target_dir, names):
    """Force cargo to re-run rustc for the named packages (cargo's freshness cache would otherwise
    skip the wrapper and serve stale artefacts)."""
    for prof in ("debug",):
        fp = os.path.join(target_dir, prof, ".fingerprint")
        if not os.path.isdir(fp):
            continue
        for d in os.listdir(fp):
            base = d.rsplit("-", 1)[0]
            if base in names:
                shutil.rmtree(os.path.join(fp, d), ignore_errors=True)


def parse_diagnostics(stdout):
    """cargo --message-format=json -> per target list of error diagnostics, and build success flags."""
    errors = {}   # (package_name, target_name, target_kind) -> [ {message, code, spans:[{file,line_start,line_end,is_primary}]} ]
    artifacts = set()
    for line in stdout.splitlines():
        if not line.startswith("{"):
            continue
        try:
            m = json.loads(line)
        except ValueError:
            continue
        if m.get("reason") == "compiler-message":
            msg = m["message"]
            if msg.get("level") not in ("error", "error: internal compiler error"):
                continue
            t = m["target"]
            pkg = m["package_id"]
            key = (pkg_name(pkg), t["name"], ",".join(t["kind"]))
            spans = []

            def add_spans(sp_list):
                for sp in sp_list:
                    spans.append({"file": sp["file_name"], "line_start": sp["line_start"], "line_end": sp["line_end"],
                                  "is_primary": sp["is_primary"], "col": sp["column_start"]})
                    e = sp.get("expansion")
                    while e:
                        s2 = e["span"]
                        spans.append({"file": s2["file_name"], "line_start": s2["line_start"], "line_end": s2["line_end"],
                                      "is_primary": sp["is_primary"], "col": s2["column_start"], "via_expansion": True,
                                      "macro": e.get("macro_decl_name")})
                        e = s2.get("expansion")
            add_spans(msg.get("spans", []))
            errors.setdefault(key, []).append({"message": msg["message"], "code": (msg.get("code") or {}).get("code"),
                                               "spans": spans, "rendered": msg.get("rendered", "")[:2000]})
        elif m.get("reason") == "compiler-artifact":
            t = m["target"]
            artifacts.add((pkg_name(m["package_id"]), t["name"], ",".join(t["kind"])))
    return errors, artifacts


def pkg_name(pkg_id):
    # "path+file:///tmp/vp-work/corpus/repo-tests#0.0.0" or "...#name@0.1.0" or "name 0.1.0 (path+file://...)"
    if " " in pkg_id and "(" in pkg_id:
        return pkg_id.split(" ")[0]
    frag = pkg_id.rsplit("#", 1)
    if len(frag) == 2:
        f = frag[1]
        if "@" in f:
            return f.split("@")[0]
        return os.path.basename(frag[0].rstrip("/"))
    return pkg_id


def cargo_check(wsdir, extra_args, expand_out=None, expand_filter=None, target_dir=None, timeout=3000):
    env = cargo_env(expand_out, expand_filter, target_dir)
    cmd = ["cargo", "+nightly", "check", "--offline", "--keep-going", "--message-format=json"] + extra_args
    t0 = time.time()
    r = subprocess.run(cmd, cwd=wsdir, env=env, stdout=subprocess.PIPE, stderr=subprocess.PIPE, text=True, timeout=timeout)
    errors, artifacts = parse_diagnostics(r.stdout)
    return {"rc": r.returncode, "errors": errors, "artifacts": artifacts, "stderr": r.stderr, "wall": time.time() - t0}


class Lock:
    def __init__(self, name="build"):
        os.makedirs(util.CACHE, exist_ok=True)
        self.p = os.path.join(util.CACHE, name + ".lock")

    def __enter__(self):
        self.f = open(self.p, "w")
        fcntl.flock(self.f, fcntl.LOCK_EX)
        return self

    def __exit__(self, *a):
        fcntl.flock(self.f, fcntl.LOCK_UN)
        self.f.close()


def input_hash(extra=""):
    """Hash of every byte that can influence the facts."""
    files = []
    for sub in ("sylvia", "sylvia-derive", "examples"):
        files += util.walk_files(os.path.join(util.REPO, sub))
    files += [os.path.join(util.REPO, "Cargo.toml"), os.path.join(util.REPO, "Cargo.lock")]
    files += util.walk_files(os.path.join(util.VERIF, "corpus"))
    files += [os.path.join(util.VERIF, "vlib", f) for f in ("corpus.py", "build.py", "facts.py", "model.py", "ast.py", "util.py", "doctests.py", "dynwit.py", "grules.py")]
    files += util.walk_files(os.path.join(util.VERIF, "tools"), skip_dirs=("target", ".git", ".cargo"))
    h = util.sha256_files(files)
    tv = util.run(["rustc", "+nightly", "-vV"]).stdout
    import hashlib
    return hashlib.sha256((h + tv + extra + util.REPO).encode()).hexdigest()[:24]
