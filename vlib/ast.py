"""Helpers over the syn2json AST: canonical type strings, walkers, expression normal forms."""
import re

from .util import CheckError


# ------------------------------------------------------------------ token trees

def tt_flat(tt):
    out = []
    for t in tt:
        if t["t"] == "group":
            close = {"(": ")", "[": "]", "{": "}", "": ""}[t["d"]]
            out.append(t["d"])
            out.append(tt_flat(t["c"]))
            out.append(close)
        else:
            out.append(t["s"])
    return " ".join(x for x in out if x != "")


def tt_tokens(tt):
    """Flatten a token tree into a list of atomic token strings (delimiters included)."""
    out = []
    for t in tt:
        if t["t"] == "group":
            close = {"(": ")", "[": "]", "{": "}", "": ""}[t["d"]]
            if t["d"]:
                out.append(t["d"])
            out.extend(tt_tokens(t["c"]))
            if close:
                out.append(close)
        else:
            out.append(t["s"])
    return out


def tt_split(tt, sep=","):
    parts, cur = [], []
    for t in tt:
        if t["t"] == "punct" and t["s"] == sep:
            parts.append(cur)
            cur = []
        else:
            cur.append(t)
    if cur or parts:
        parts.append(cur)
    return [p for p in parts]


def compact(s):
    """Whitespace-insensitive canonical form of a token string."""
    s = re.sub(r"\s+", " ", s.strip())
    # remove spaces unless between two identifier characters
    out = []
    for i, ch in enumerate(s):
        if ch == " ":
            a = s[i - 1] if i > 0 else ""
            b = s[i + 1] if i + 1 < len(s) else ""
            if (a.isalnum() or a == "_" or a == "'") and (b.isalnum() or b == "_" or b == "'"):
                out.append(" ")
            continue
        out.append(ch)
    return "".join(out)


# ------------------------------------------------------------------ types

def path_str(p, strip_self=False, strip_args=False):
    segs = p["segs"]
    if strip_self:
        segs = [s for s in segs if s["id"] != "Self"]
    parts = []
    for s in segs:
        x = s["id"]
        if s["args"] and not strip_args:
            if isinstance(s["args"], list):
                x += "<" + ",".join(garg_str(a, strip_self) for a in s["args"]) + ">"
            else:
                x += "(" + ",".join(type_str(a, strip_self) for a in s["args"]["inputs"]) + ")"
                if s["args"]["output"]:
                    x += "->" + type_str(s["args"]["output"], strip_self)
        parts.append(x)
    return ("::" if p.get("global") else "") + "::".join(parts)


def garg_str(a, strip_self=False):
    k = a.get("k")
    if k == "lifetime":
        return a["name"]
    if k == "assoc":
        return a["name"] + "=" + type_str(a["ty"], strip_self)
    if k in ("constarg", "other"):
        return compact(a["s"])
    return type_str(a, strip_self)


def type_str(t, strip_self=False):
    if t is None:
        return "()"
    k = t["k"]
    if k == "path":
        if t.get("qself"):
            q = type_str(t["qself"], strip_self)
            segs = t["path"]["segs"]
            pos = t["qpos"]
            tr = "::".join(s["id"] + ("<" + ",".join(garg_str(a, strip_self) for a in s["args"]) + ">" if isinstance(s["args"], list) and s["args"] else "") for s in segs[:pos])
            rest = "::".join(s["id"] + ("<" + ",".join(garg_str(a, strip_self) for a in s["args"]) + ">" if isinstance(s["args"], list) and s["args"] else "") for s in segs[pos:])
            return f"<{q} as {tr}>::{rest}" if pos else f"<{q}>::{rest}"
        return path_str(t["path"], strip_self)
    if k == "ref":
        return "&" + ((t["lt"] + " ") if t.get("lt") else "") + ("mut " if t["mut"] else "") + type_str(t["elem"], strip_self)
    if k == "tuple":
        return "(" + ",".join(type_str(e, strip_self) for e in t["elems"]) + ("," if len(t["elems"]) == 1 else "") + ")"
    if k == "slice":
        return "[" + type_str(t["elem"], strip_self) + "]"
    if k == "array":
        return "[" + type_str(t["elem"], strip_self) + ";" + compact(t["len"]) + "]"
    if k in ("dyn", "impl"):
        return k + " " + "+".join(compact(b["s"]) for b in t["bounds"])
    return compact(t["s"])


def walk_type(t, fn):
    """Call fn on every type node (pre-order)."""
    if t is None or not isinstance(t, dict):
        return
    fn(t)
    k = t.get("k")
    if k == "path":
        if t.get("qself"):
            walk_type(t["qself"], fn)
        for s in t["path"]["segs"]:
            walk_seg_args(s, fn)
    elif k in ("ref", "slice", "array", "ptr"):
        walk_type(t["elem"], fn)
    elif k == "tuple":
        for e in t["elems"]:
            walk_type(e, fn)
    elif k in ("dyn", "impl"):
        for b in t["bounds"]:
            if b.get("k") == "trait":
                for s in b["path"]["segs"]:
                    walk_seg_args(s, fn)
    elif k == "assoc":
        walk_type(t["ty"], fn)


def walk_seg_args(s, fn):
    a = s.get("args")
    if isinstance(a, list):
        for x in a:
            if x.get("k") == "assoc":
                walk_type(x["ty"], fn)
            elif x.get("k") in ("lifetime", "constarg", "other"):
                continue
            else:
                walk_type(x, fn)
    elif isinstance(a, dict):
        for x in a["inputs"]:
            walk_type(x, fn)
        walk_type(a["output"], fn)


def type_mentions(t, names, strip_self=True):
    """Set of `names` that occur in t as a bare single-segment path (after optional Self-stripping)."""
    found = set()

    def f(n):
        if n.get("k") == "path" and not n.get("qself"):
            segs = n["path"]["segs"]
            if strip_self:
                segs = [s for s in segs if s["id"] != "Self"]
            if len(segs) == 1 and not segs[0]["args"] and segs[0]["id"] in names:
                found.add(segs[0]["id"])
    walk_type(t, f)
    return found


def type_mentions_ordered(t, names, strip_self=True):
    found = []

    def f(n):
        if n.get("k") == "path" and not n.get("qself"):
            segs = n["path"]["segs"]
            if strip_self:
                segs = [s for s in segs if s["id"] != "Self"]
            if len(segs) == 1 and not segs[0]["args"] and segs[0]["id"] in names and segs[0]["id"] not in found:
                found.append(segs[0]["id"])
    walk_type(t, f)
    return found


# ------------------------------------------------------------------ generic walkers

def walk(node, fn):
    """Generic pre-order walk over any JSON AST (dicts/lists). fn(node) may return False to stop descent."""
    if isinstance(node, dict):
        if fn(node) is False:
            return
        for v in node.values():
            if isinstance(v, (dict, list)):
                walk(v, fn)
    elif isinstance(node, list):
        for v in node:
            walk(v, fn)


def find_all(node, pred):
    out = []

    def f(n):
        if pred(n):
            out.append(n)
    walk(node, f)
    return out


def items_in(mod_items, kind=None, name=None):
    for it in mod_items:
        if kind and it.get("k") != kind:
            continue
        if name and it.get("name") != name:
            continue
        yield it


def all_items_deep(items):
    """Yield module-level items and items nested in `const _: () = { ... }` blocks (derive output)."""
    for it in items:
        yield it
        if it.get("k") == "const" and it.get("name") == "_" and it["expr"].get("k") == "block":
            for s in it["expr"]["stmts"]:
                if s["k"] == "item":
                    yield from all_items_deep([s["item"]])


def has_attr(node, path, contains=None):
    for a in node.get("attrs", []):
        if a["path"] == path and (contains is None or contains in compact(a["tokens"])):
            return True
    return False


def attrs_of(node, path):
    return [a for a in node.get("attrs", []) if a["path"] == path]


# ------------------------------------------------------------------ expressions

def last_seg(e):
    """Last path segment name of a path expression (or None)."""
    if e and e.get("k") == "path":
        return e["path"]["segs"][-1]["id"]
    return None


def path_ids(e):
    if e and e.get("k") == "path":
        return [s["id"] for s in e["path"]["segs"]]
    return None


def expr_path_str(e):
    if e and e.get("k") == "path":
        if e.get("qself"):
            return type_str({"k": "path", "qself": e["qself"], "qpos": e["qpos"], "path": e["path"]})
        return path_str(e["path"])
    return None


def strip_expr(e):
    """Remove semantically transparent wrappers: single-expression blocks, parens (already removed)."""
    while e and e.get("k") == "block" and not e.get("unsafe") and not e.get("const") and len(e["stmts"]) == 1 \
            and e["stmts"][0]["k"] == "expr" and not e["stmts"][0]["semi"]:
        e = e["stmts"][0]["expr"]
    return e


def is_conv_fn(e):
    """`Into::into`, `From::from`, `|x| x.into()`, `|x| Into::into(x)`, turbofished variants."""
    e = strip_expr(e)
    if e is None:
        return False
    if e["k"] == "path":
        ids = [s["id"] for s in e["path"]["segs"]]
        return ids[-2:] in (["Into", "into"], ["From", "from"]) and (e.get("qself") is None)
    if e["k"] == "closure" and len(e["inputs"]) == 1 and e["inputs"][0].get("k") == "ident":
        v = e["inputs"][0]["name"]
        b = unconv(strip_expr(e["body"]))
        return b is not None and b[0] and b[1].get("k") == "path" and path_ids(b[1]) == [v]
    return False


def unconv(e):
    """If e is conv(x) (Into::into(x) | x.into() | From::from(x) | T::from(x)) return (True, x) else (False, e)."""
    e = strip_expr(e)
    if e is None:
        return None
    if e["k"] == "call" and e["func"].get("k") == "path" and len(e["args"]) == 1:
        ids = path_ids(e["func"])
        if ids[-2:] in (["Into", "into"], ["From", "from"]) or (len(ids) >= 2 and ids[-1] == "from"):
            return (True, e["args"][0])
    if e["k"] == "mcall" and e["method"] == "into" and not e["args"]:
        return (True, e["recv"])
    return (False, e)


def peel_err_into(e):
    """e.map_err(conv-fn) -> (True, e') else (False, e)"""
    e = strip_expr(e)
    if e and e["k"] == "mcall" and e["method"] == "map_err" and len(e["args"]) == 1 and is_conv_fn(e["args"][0]):
        return (True, e["recv"])
    return (False, e)


def block_parts(b):
    """(stmts_before_tail, tail_expr or None) of a block expression"""
    st = b["stmts"]
    if st and st[-1]["k"] == "expr" and not st[-1]["semi"]:
        return st[:-1], st[-1]["expr"]
    return st, None


def resolve(e, env, depth=4):
    """follow single-identifier paths through an environment of `let name = expr` initialisers"""
    e = strip_expr(e)
    while depth > 0 and e is not None and e.get("k") == "path" and not e.get("qself") and len(e["path"]["segs"]) == 1 \
            and e["path"]["segs"][0]["id"] in env:
        e = strip_expr(env[e["path"]["segs"][0]["id"]])
        depth -= 1
    return e
