"""Corpus assembly: probe-instrumented mirror copies of the repo's tests / examples and of the
/verif witness programs, as one scratch cargo workspace that path-depends on /repo/sylvia."""
import json
import os
import re
import shutil
import tomllib

from . import util
from .util import CheckError

MACRO_NAMES = ("contract", "interface", "entry_points")
PERMUTED_VERDICT_PACKAGES = {"w-collide"}


# ------------------------------------------------------------------ attribute recognition

def tt_flat(tt):
    """token tree -> compact string"""
    out = []
    for t in tt:
        if t["t"] == "group":
            close = {"(": ")", "[": "]", "{": "}", "": ""}[t["d"]]
            out.append(t["d"] + tt_flat(t["c"]) + close)
        else:
            out.append(t["s"])
    return " ".join(out)


def macro_of_attr(attr):
    """If the attribute invokes one of sylvia's three macros (directly or through cfg_attr),
    return (macro_name, args_tt or None, via_cfg_attr, cfg_tt)."""
    path = attr["path"]
    last = path.split("::")[-1]
    if last in MACRO_NAMES and path.split("::")[0] not in ("sv",):
        if len(path.split("::")) <= 2:
            return (last, attr.get("tt"), False, None)
    if path == "cfg_attr" and attr.get("tt"):
        tt = attr["tt"]
        # split at first top-level comma
        idx = next((i for i, t in enumerate(tt) if t["t"] == "punct" and t["s"] == ","), None)
        if idx is None:
            return None
        rest = tt[idx + 1:]
        # path: ident (:: ident)*
        segs = []
        i = 0
        while i < len(rest):
            t = rest[i]
            if t["t"] == "ident":
                segs.append(t["s"])
                i += 1
                if i + 1 < len(rest) and rest[i]["t"] == "punct" and rest[i]["s"] == ":" and rest[i + 1]["s"] == ":":
                    i += 2
                    continue
                break
            else:
                break
        if segs and segs[-1] in MACRO_NAMES:
            args = rest[i]["c"] if i < len(rest) and rest[i]["t"] == "group" else None
            # only a single attribute in the cfg_attr is supported by the splicer
            trailing = rest[i + 1:] if args is not None else rest[i:]
            if any(t["t"] != "punct" or t["s"] != "," for t in trailing):
                raise CheckError(f"cfg_attr with several attributes not supported at line {attr['ln']}")
            return (segs[-1], args, True, tt[:idx])
    return None


def find_sylvia_items(ast, file, modpath):
    """Yield dicts for impl/trait items carrying contract/interface (+ entry_points)."""
    out = []

    def visit_items(items, modpath, in_fn):
        for it in items:
            k = it.get("k")
            if k in ("impl", "trait"):
                macs = []
                for a in it["attrs"]:
                    m = macro_of_attr(a)
                    if m:
                        macs.append((a, m))
                names = [m[1][0] for m in macs]
                if "contract" in names or "interface" in names:
                    out.append({"file": file, "modpath": list(modpath), "item": it, "macros": macs,
                                "kind": "contract" if "contract" in names else "interface",
                                "entry_points": "entry_points" in names, "in_fn": in_fn})
                elif names:
                    raise CheckError(f"{file}:{it['ln']}: entry_points without contract")
            elif k == "mod" and it.get("items") is not None:
                visit_items(it["items"], modpath + [it["name"]], in_fn)
            elif k == "fn" and it.get("body"):
                visit_block(it["body"], modpath, True)

    def visit_block(b, modpath, in_fn):
        for s in b.get("stmts", []):
            if s["k"] == "item":
                visit_items([s["item"]], modpath, in_fn)

    visit_items(ast["items"], modpath, False)
    return out


def offset_of(text_lines_offsets, line, col, text):
    """(1-based line, 0-based char column) -> string index"""
    return text_lines_offsets[line - 1] + col


def splice_probes(text, found, counter):
    """Insert vprobe::capture attributes around the macro attributes of each found item.
    Returns new text; assigns item['probe'] = N."""
    lines = text.split("\n")
    offs = [0]
    for ln_ in lines:
        offs.append(offs[-1] + len(ln_) + 1)
    inserts = []  # (offset, string)
    for it in found:
        n = counter[0]
        counter[0] += 1
        it["probe"] = n
        macs = it["macros"]
        # order of attributes as written
        first_attr = macs[0][0]
        s = first_attr["span"]
        inserts.append((offs[s[0] - 1] + s[1], f"#[vprobe::capture(src_{n})] "))
        for a, m in macs:
            e = a["span"]
            tag = "ep" if m[0] == "entry_points" else "ct"
            inserts.append((offs[e[2] - 1] + e[3], f" #[vprobe::capture({tag}_{n})]"))
    # columns from proc-macro2 are in chars; python strings index chars too
    for off, s in sorted(inserts, key=lambda x: -x[0]):
        text = text[:off] + s + text[off:]
    return text


# ------------------------------------------------------------------ source trees

def resolve_mod_file(cur_file, is_root_like, name):
    """Where does `mod name;` declared in cur_file live?"""
    d = os.path.dirname(cur_file)
    base = os.path.splitext(os.path.basename(cur_file))[0]
    if is_root_like or base == "mod":
        cands = [os.path.join(d, name + ".rs"), os.path.join(d, name, "mod.rs")]
    else:
        cands = [os.path.join(d, base, name + ".rs"), os.path.join(d, base, name, "mod.rs")]
    for c in cands:
        if os.path.exists(c):
            return c
    return None


class SourceCrate:
    """One corpus target: root file, all module files reachable from it, sylvia items found."""

    def __init__(self, name, root, origin, cfg_test=False, features=()):
        self.name = name          # crate name as rustc sees it (underscored)
        self.root = root          # absolute path of the (copied, spliced) root file
        self.origin = origin      # description of where it came from
        self.cfg_test = cfg_test
        self.features = set(features)
        self.items = []           # sylvia items
        self.files = []


def eval_cfg(tt, cfg_test, features):
    """Evaluate a cfg predicate given as a token tree (list)."""
    def split_commas(ts):
        parts, cur = [], []
        for t in ts:
            if t["t"] == "punct" and t["s"] == ",":
                if cur:
                    parts.append(cur)
                cur = []
            else:
                cur.append(t)
        if cur:
            parts.append(cur)
        return parts

    def ev(ts):
        if len(ts) == 1 and ts[0]["t"] == "ident":
            if ts[0]["s"] == "test":
                return cfg_test
            if ts[0]["s"] in ("debug_assertions",):
                return True
            raise CheckError(f"unrecognised cfg atom {ts[0]['s']}")
        if len(ts) == 3 and ts[0]["t"] == "ident" and ts[1]["s"] == "=" and ts[2]["t"] == "lit":
            if ts[0]["s"] == "feature":
                return ts[2]["s"].strip('"') in features
            raise CheckError(f"unrecognised cfg key {ts[0]['s']}")
        if len(ts) == 2 and ts[0]["t"] == "ident" and ts[1]["t"] == "group":
            parts = [ev(p) for p in split_commas(ts[1]["c"])]
            if ts[0]["s"] == "not":
                return not parts[0]
            if ts[0]["s"] == "any":
                return any(parts)
            if ts[0]["s"] == "all":
                return all(parts)
        raise CheckError("unrecognised cfg predicate: " + tt_flat(ts))
    return ev(tt)


def cfg_false(attrs, cfg_test, features):
    """True if a #[cfg(..)] attribute on the item is false for this target."""
    for a in attrs:
        if a["path"] != "cfg":
            continue
        if not eval_cfg(a["tt"], cfg_test, features):
            return True
    return False


# the property names interface and override declarations; sv::msg_attr is not permuted: the order of forwarded
# attributes is meaningful to rustc itself (a derive must precede its helper attributes)
REPEATABLE = ("sv::messages", "sv::override_entry_point")
PERMUTE = [None]   # set by assemble(): None | "rev" | "rot" | ("swap", k)


def _perm(n, how):
    idx = list(range(n))
    if n < 2 or how is None:
        return idx
    if how == "rev":
        return idx[::-1]
    if how == "rot":
        return idx[1:] + idx[:1]
    if isinstance(how, tuple) and how[0] == "swap":
        k = how[1] % (n - 1)
        idx[k], idx[k + 1] = idx[k + 1], idx[k]
        return idx
    raise CheckError(f"unknown permutation {how}")


def permute_text(text, found, how):
    """Reorder the handler methods of every sylvia item, and its repeatable attributes, by swapping the source text of the
    slots (slot i receives the text of element perm[i]); everything between the slots stays in place."""
    lines = text.split("\n")
    offs = [0]
    for ln_ in lines:
        offs.append(offs[-1] + len(ln_) + 1)

    def rng(span):
        return (offs[span[0] - 1] + span[1], offs[span[2] - 1] + span[3])
    edits = []   # (start, end, replacement)
    for it in found:
        item = it["item"]
        handlers = [sub for sub in item["items"] if sub.get("k") == "fn" and any(a["path"] == "sv::msg" for a in sub["attrs"])]
        groups = [[rng(h["span"]) for h in handlers]]
        attrs = [a for a in item["attrs"] if a["path"] in REPEATABLE]
        groups.append([rng(a["span"]) for a in attrs])
        for slots in groups:
            pm = _perm(len(slots), how)
            for i, src_i in enumerate(pm):
                if i != src_i:
                    edits.append((slots[i][0], slots[i][1], text[slots[src_i][0]:slots[src_i][1]]))
    for st, en, rep in sorted(edits, key=lambda e: -e[0]):
        text = text[:st] + rep + text[en:]
    return text


def process_tree(src_root_file, dst_root_file, counter, crate, splice=True):
    """Copy the module tree rooted at src_root_file to dst (same relative layout), splicing probes.
    Collect sylvia items with module paths into crate.items."""
    src_dir = os.path.dirname(src_root_file)
    dst_dir = os.path.dirname(dst_root_file)
    seen = set()

    def go(src_file, dst_file, modpath, root_like):
        if src_file in seen:
            return
        seen.add(src_file)
        ast = util.syn_ast(src_file)
        with open(src_file) as f:
            text = f.read()
        found = find_sylvia_items(ast, dst_file, modpath)
        n_regex = len(re.findall(r"^\s*#\[(?:cfg_attr\([^\n]*,\s*)?(?:sylvia\s*::\s*)?(?:contract|interface)\b", text, re.M))
        if n_regex != len(found):
            raise CheckError(f"{src_file}: {n_regex} contract/interface attributes by text, {len(found)} by AST")
        for it in found:
            if it["in_fn"]:
                raise CheckError(f"{src_file}: sylvia item inside a function body is not supported by the corpus model")
        if PERMUTE[0] is not None and found:
            text = permute_text(text, found, PERMUTE[0])
            tmp = os.path.join(os.path.dirname(dst_file) or ".", ".perm-" + os.path.basename(dst_file))
            os.makedirs(os.path.dirname(tmp), exist_ok=True)
            with open(tmp, "w") as f:
                f.write(text)
            ast = util.syn_ast(tmp)
            os.unlink(tmp)
            found = find_sylvia_items(ast, dst_file, modpath)
        if splice and found:
            text = splice_probes(text, found, counter)
        os.makedirs(os.path.dirname(dst_file), exist_ok=True)
        with open(dst_file, "w") as f:
            f.write(text)
        crate.files.append(dst_file)
        for it in found:
            it["src_file"] = src_file
            it["crate"] = crate.name
            crate.items.append(it)

        def walk_mods(items, modpath, cur_src, cur_dst, root_like, inline_dirs):
            for m in items:
                if m.get("k") != "mod":
                    continue
                if cfg_false(m["attrs"], crate.cfg_test, crate.features):
                    # still copy the file so that `mod x;` resolves if cfg flips; but do not index
                    if m.get("items") is None:
                        f2 = resolve_mod_file(cur_src, root_like, m["name"])
                        if f2:
                            copy_tree_raw(f2, os.path.join(dst_dir, os.path.relpath(f2, src_dir)))
                    continue
                if m.get("items") is not None:
                    walk_mods(m["items"], modpath + [m["name"]], cur_src, cur_dst, root_like, inline_dirs + [m["name"]])
                else:
                    if inline_dirs:
                        raise CheckError(f"{cur_src}: out-of-line module inside inline module not supported")
                    pattr = [a for a in m["attrs"] if a["path"] == "path"]
                    if pattr:
                        raise CheckError(f"{cur_src}: #[path] modules not supported")
                    f2 = resolve_mod_file(cur_src, root_like, m["name"])
                    if f2 is None:
                        raise CheckError(f"{cur_src}: cannot resolve mod {m['name']}")
                    rel = os.path.relpath(f2, src_dir)
                    go(f2, os.path.join(dst_dir, rel), modpath + [m["name"]], False)

        walk_mods(ast["items"], modpath, src_file, dst_file, root_like, [])

    def copy_tree_raw(src_file, dst_file):
        # unindexed copy of a cfg'd-out module tree (directory siblings included)
        os.makedirs(os.path.dirname(dst_file), exist_ok=True)
        shutil.copyfile(src_file, dst_file)
        sub = os.path.splitext(src_file)[0]
        if os.path.isdir(sub):
            shutil.copytree(sub, os.path.splitext(dst_file)[0], dirs_exist_ok=True)

    go(src_root_file, dst_root_file, [], True)


# ------------------------------------------------------------------ manifests

def lock_versions(repo):
    vers = {}
    with open(os.path.join(repo, "Cargo.lock"), "rb") as f:
        lock = tomllib.load(f)
    for p in lock["package"]:
        vers.setdefault(p["name"], []).append(p["version"])
    return vers


SYLVIA_TEST_FEATURES = ["mt", "stargate", "iterator", "cosmwasm_1_1", "cosmwasm_1_2", "cosmwasm_1_3", "cosmwasm_1_4"]


def dep_line(name, vers, extra=""):
    v = sorted(vers[name])[-1]
    return f'{name} = {{ version = "={v}"{extra} }}'


def write(path, text):
    os.makedirs(os.path.dirname(path), exist_ok=True)
    with open(path, "w") as f:
        f.write(text)


COMMON_DEV = ["cosmwasm-std", "cosmwasm-schema", "schemars", "cw-multi-test", "anyhow", "cw-storage-plus",
              "cw-utils", "thiserror", "itertools"]


def ui_bin_name(f, ui):
    return "ui_" + os.path.relpath(f, ui)[:-3].replace("/", "__").replace("-", "_")


def parse_headers(path):
    """`//@ key: value` header lines and `//~ ERROR` markers (1-based line numbers) of a witness file."""
    hdr = {"markers": []}
    with open(path) as f:
        for i, line in enumerate(f, 1):
            mm = re.match(r"\s*//@\s*([a-z_]+)\s*:\s*(.*?)\s*$", line)
            if mm:
                hdr[mm.group(1)] = mm.group(2)
            if "//~ ERROR" in line:
                hdr["markers"].append(i)
    return hdr


def copy_module_tree(src_root, dst_root):
    os.makedirs(os.path.dirname(dst_root), exist_ok=True)
    shutil.copyfile(src_root, dst_root)


def assemble(repo, dest, include_examples=True, witness_dirs=(), sylvia_features=None, splice=True, include_ui=True, permute=None, include_doctests=True, include_repo_tests=True):
    """Build the scratch workspace under dest. Returns list[SourceCrate]."""
    PERMUTE[0] = permute
    if os.path.exists(dest):
        shutil.rmtree(dest)
    os.makedirs(dest)
    vers = lock_versions(repo)
    counter = [0]
    crates = []
    members = []
    feats = sylvia_features if sylvia_features is not None else SYLVIA_TEST_FEATURES
    feat_s = ", ".join(f'"{f}"' for f in feats)
    sylvia_dep = f'sylvia = {{ path = "{repo}/sylvia", features = [{feat_s}] }}'
    vprobe_dep = f'vprobe = {{ path = "{util.VERIF}/tools/vprobe" }}'
    serde_dep = 'serde = { version = "=%s", default-features = false, features = ["derive"] }' % sorted(vers["serde"])[-1]

    # ---- repo tests + sylvia/examples
    rt = os.path.join(dest, "repo-tests")
    derive_dep = f'sylvia-derive = {{ path = "{repo}/sylvia-derive" }}'
    deps = "\n".join([sylvia_dep, derive_dep, vprobe_dep, serde_dep] + [dep_line(n, vers) for n in COMMON_DEV])
    write(os.path.join(rt, "Cargo.toml"), f"""[package]
name = "repo-tests"
version = "0.0.0"
edition = "2021"

[features]
default = [{feat_s}]
{chr(10).join(f + " = []" for f in feats)}

[dependencies]
{deps}
""")
    write(os.path.join(rt, "src", "lib.rs"), "")
    tdir = os.path.join(repo, "sylvia", "tests")
    for f in (sorted(os.listdir(tdir)) if include_repo_tests else []):
        if not f.endswith(".rs") or f == "ui.rs":
            continue
        name = f[:-3]
        c = SourceCrate(name, os.path.join(rt, "tests", f), f"sylvia/tests/{f}", cfg_test=True, features=feats)
        process_tree(os.path.join(tdir, f), c.root, counter, c, splice)
        c.suffix = ".test"
        crates.append(c)
    edir = os.path.join(repo, "sylvia", "examples")
    for f in (sorted(os.listdir(edir)) if include_repo_tests else []):
        if not f.endswith(".rs"):
            continue
        name = f[:-3]
        c = SourceCrate(name, os.path.join(rt, "examples", f), f"sylvia/examples/{f}", cfg_test=False, features=feats)
        process_tree(os.path.join(edir, f), c.root, counter, c, splice)
        c.suffix = ".bin"
        c.name = name
        crates.append(c)
    members.append("repo-tests")

    # ---- /repo/examples mirrors
    if include_examples:
        write(os.path.join(dest, "cw2", "Cargo.toml"), f"""[package]
name = "cw2"
version = "2.0.0"
edition = "2021"

[lib]
test = false
doctest = false

[dependencies]
{dep_line('cosmwasm-std', vers)}
{dep_line('semver', vers)}
""")
        write(os.path.join(dest, "cw2", "src", "lib.rs"), """//! /verif stub of cw2 (not available offline): only what the examples call.
use cosmwasm_std::{StdResult, Storage};
pub fn set_contract_version<T: Into<String>, U: Into<String>>(_s: &mut dyn Storage, _n: T, _v: U) -> StdResult<()> { Ok(()) }
pub struct ContractVersion { pub contract: String, pub version: String }
pub fn get_contract_version(_s: &dyn Storage) -> StdResult<ContractVersion> {
    Ok(ContractVersion { contract: String::new(), version: String::new() })
}
pub fn ensure_from_older_version(_s: &mut dyn Storage, _n: &str, v: &str) -> StdResult<semver::Version> {
    v.parse().map_err(|_| cosmwasm_std::StdError::generic_err("version"))
}
""")
        members.append("cw2")
        ex = os.path.join(repo, "examples")
        with open(os.path.join(ex, "Cargo.toml"), "rb") as f:
            exws = tomllib.load(f)
        for member in exws["workspace"]["members"]:
            mdir = os.path.join(ex, member)
            with open(os.path.join(mdir, "Cargo.toml"), "rb") as f:
                man = tomllib.load(f)
            pname = man["package"]["name"]
            cname = pname.replace("-", "_")
            ddir = os.path.join(dest, "ex-" + pname)
            deps = [vprobe_dep]
            for dn, dv in man.get("dependencies", {}).items():
                if dn == "sylvia":
                    deps.append(sylvia_dep)
                elif dn == "cw2":
                    deps.append('cw2 = { path = "../cw2" }')
                elif isinstance(dv, dict) and "path" in dv:
                    target = os.path.basename(os.path.normpath(os.path.join(mdir, dv["path"])))
                    with open(os.path.join(mdir, dv["path"], "Cargo.toml"), "rb") as f:
                        tname = tomllib.load(f)["package"]["name"]
                    fe = dv.get("features")
                    extra = (", features = [%s]" % ", ".join(f'"{x}"' for x in fe)) if fe else ""
                    deps.append(f'{dn} = {{ path = "../ex-{tname}"{extra} }}')
                else:
                    deps.append(dep_line(dn, vers))
            features = man.get("features", {})
            feat_lines = []
            for fn, fv in features.items():
                fv2 = [x for x in fv if x != "sylvia/mt"]
                feat_lines.append(f'{fn} = [{", ".join(chr(34) + x + chr(34) for x in fv2)}]')
            write(os.path.join(ddir, "Cargo.toml"), f"""[package]
name = "{pname}"
version = "0.5.0"
edition = "2021"

[lib]
path = "src/lib.rs"
test = false
doctest = false

[features]
{chr(10).join(feat_lines)}

[dependencies]
{chr(10).join(deps)}
""")
            c = SourceCrate(cname, os.path.join(ddir, "src", "lib.rs"), f"examples/{member}", cfg_test=False, features=[])
            process_tree(os.path.join(mdir, "src", "lib.rs"), c.root, counter, c, splice)
            c.suffix = ""
            crates.append(c)
            members.append("ex-" + pname)

    # ---- witness packages from /verif/corpus: Cargo.toml.in + src/bin/*.rs (+ src/lib.rs), `//@` headers per file
    for wd in witness_dirs:
        wname = os.path.basename(wd)
        ddir = os.path.join(dest, wname)
        with open(os.path.join(wd, "Cargo.toml.in")) as f:
            man = f.read()
        man = man.replace("@SYLVIA_DEP@", sylvia_dep).replace("@VPROBE_DEP@", vprobe_dep).replace("@SERDE_DEP@", serde_dep)
        man = man.replace("@REPO@", repo).replace("@VERIF@", util.VERIF).replace("@SYLVIA_FEATURES@", feat_s)
        for n in COMMON_DEV + ["semver"]:
            man = man.replace(f"@DEP:{n}@", dep_line(n, vers))
        bdir0 = os.path.join(wd, "src", "bin")
        if os.path.isdir(bdir0):
            man = man.replace('edition = "2021"', 'edition = "2021"\nautobins = false', 1)
            man += "\n" + "".join(f'[[bin]]\nname = "{f[:-3]}"\npath = "src/bin/{f}"\ntest = false\n\n' for f in sorted(os.listdir(bdir0)) if f.endswith(".rs"))
        write(os.path.join(ddir, "Cargo.toml"), man)
        roots = []
        if os.path.exists(os.path.join(wd, "src", "lib.rs")):
            roots.append(("src/lib.rs", wname.replace("-", "_"), ""))
        bdir = os.path.join(wd, "src", "bin")
        if os.path.isdir(bdir):
            for f in sorted(os.listdir(bdir)):
                if f.endswith(".rs"):
                    roots.append((f"src/bin/{f}", f[:-3], ".bin"))
        for rel, tname, suffix in roots:
            hdr = parse_headers(os.path.join(wd, rel))
            expect_fail = hdr.get("expect", "pass") == "fail"
            c = SourceCrate(tname, os.path.join(ddir, rel), f"verif/corpus/{wname}/{rel}", cfg_test=False, features=feats)
            c.suffix = suffix
            c.expect_fail = expect_fail
            c.witness = {"props": hdr.get("props", "").split(), "expect": hdr.get("expect", "pass"),
                         "exact": hdr.get("exact", "no") == "yes", "markers": hdr["markers"], "package": wname,
                         "rel": rel, "what": hdr.get("what", "")}
            index = hdr.get("index", "no" if expect_fail else "yes") == "yes"
            if index:
                process_tree(os.path.join(wd, rel), c.root, counter, c, splice)
            elif PERMUTE[0] is not None and wname in PERMUTED_VERDICT_PACKAGES:
                # pure verdict witnesses whose acceptance must not depend on declaration order either (C14.acceptance): permuted, not indexed
                process_tree(os.path.join(wd, rel), c.root, counter, c, False)
                c.items = []
            else:
                copy_module_tree(os.path.join(wd, rel), c.root)
            c.indexed = index
            crates.append(c)
        for extra in ("src/common", "src/shared"):
            if os.path.isdir(os.path.join(wd, extra)):
                shutil.copytree(os.path.join(wd, extra), os.path.join(ddir, extra), dirs_exist_ok=True)
        members.append(wname)

    # ---- the repository's documentation examples (```rust blocks of doc comments) as must-compile corpus programs
    if include_doctests:
        from . import doctests
        ddir = os.path.join(dest, "repo-doctests")
        deps = "\n".join([sylvia_dep, vprobe_dep, serde_dep] + [dep_line(n, vers) for n in COMMON_DEV])
        progs = doctests.doc_programs(repo)
        write(os.path.join(ddir, "Cargo.toml"), f"""[package]
name = "repo-doctests"
version = "0.0.0"
edition = "2021"
autobins = false

[dependencies]
{deps}

""" + "".join(f'[[bin]]\nname = "{name}"\npath = "src/bin/{name}.rs"\ntest = false\n\n' for name, rel, start, code in progs))
        stage = os.path.join(dest, ".doc-stage")
        os.makedirs(stage, exist_ok=True)
        for name, rel, start, code in progs:
            src = os.path.join(stage, name + ".rs")
            with open(src, "w") as f:
                f.write("#![allow(dead_code, unused_imports, unused_variables, deprecated)]\n" + code)
            c = SourceCrate(name, os.path.join(ddir, "src", "bin", name + ".rs"), f"{rel}:{start} (doc example)", cfg_test=False, features=feats)
            c.suffix = ".bin"
            c.indexed = True
            process_tree(src, c.root, counter, c, splice)
            crates.append(c)
        shutil.rmtree(stage, ignore_errors=True)
        members.append("repo-doctests")

    # ---- the repository's own trybuild UI tests as must-fail witnesses (expectations from the committed .stderr files)
    if include_ui:
        ui = os.path.join(repo, "sylvia", "tests", "ui")
        ddir = os.path.join(dest, "repo-ui")
        deps = "\n".join([sylvia_dep, serde_dep] + [dep_line(n, vers) for n in COMMON_DEV])
        write(os.path.join(ddir, "Cargo.toml"), f"""[package]
name = "repo-ui"
version = "0.0.0"
edition = "2021"
autobins = false

[dependencies]
{deps}

""" + "".join(f'[[bin]]\nname = "{ui_bin_name(f, ui)}"\npath = "src/bin/{ui_bin_name(f, ui)}.rs"\ntest = false\n\n' for f in util.walk_files(ui, exts={".rs"})))
        for f in util.walk_files(ui, exts={".rs"}):
            bn = ui_bin_name(f, ui)
            dst = os.path.join(ddir, "src", "bin", bn + ".rs")
            os.makedirs(os.path.dirname(dst), exist_ok=True)
            shutil.copyfile(f, dst)
            stderr = f[:-3] + ".stderr"
            markers = []
            if os.path.exists(stderr):
                # only the macros' own diagnostics (`error: ..` blocks); `error[E....]` blocks are rustc follow-on
                # errors whose presence depends on the compiler version the .stderr was recorded with
                in_macro_block = False
                took = False
                for line in open(stderr):
                    if line.startswith("error"):
                        in_macro_block = not line.startswith("error[")
                        took = False
                        continue
                    mm = re.match(r"\s*--> (\S+):(\d+):(\d+)", line)
                    if mm and in_macro_block and not took and mm.group(1).endswith(os.path.basename(f)):
                        markers.append(int(mm.group(2)))
                        took = True
            c = SourceCrate(bn, dst, "sylvia/tests/ui/" + os.path.relpath(f, ui), cfg_test=False, features=feats)
            c.suffix = ".bin"
            c.expect_fail = True
            c.indexed = False
            c.witness = {"props": ["C18"], "expect": "fail", "exact": False, "markers": sorted(set(markers)), "package": "repo-ui",
                         "rel": os.path.relpath(f, repo), "what": "repository UI test: " + os.path.relpath(f, ui), "has_stderr": os.path.exists(stderr)}
            crates.append(c)
        members.append("repo-ui")

    write(os.path.join(dest, "Cargo.toml"), "[workspace]\nresolver = \"2\"\nmembers = [%s]\n" %
          ", ".join(f'"{m}"' for m in members))
    shutil.copyfile(os.path.join(repo, "Cargo.lock"), os.path.join(dest, "Cargo.lock"))
    write(os.path.join(dest, ".cargo", "config.toml"), "[net]\noffline = true\n")
    return crates
