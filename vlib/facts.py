"""Facts = corpus model items + expanded ASTs + diagnostics, memoised by content hash."""
import glob
import os
import pickle
import shutil
import time
from concurrent.futures import ThreadPoolExecutor

from . import build, corpus, model, util
from .util import CheckError, log


class Facts:
    pass


def witness_dirs(tier):
    base = os.path.join(util.VERIF, "corpus")
    out = []
    if os.path.isdir(base):
        for d in sorted(os.listdir(base)):
            p = os.path.join(base, d)
            if os.path.isfile(os.path.join(p, "Cargo.toml.in")):
                tfile = os.path.join(p, "TIER")
                t = open(tfile).read().strip() if os.path.exists(tfile) else "quick"
                if t == "quick" or tier == "thorough":
                    out.append(p)
    return out


FEATURE_VARIANT_WITNESSES = {"w-reply", "w-overrides", "w-shapes", "w-generics", "w-passthrough", "w-legacy"}


def get_facts(tier="quick", variant="main"):
    """variant: 'main' (all features) — other variants (feature matrix) are built by their own callers."""
    os.makedirs(os.path.join(util.CACHE, "facts"), exist_ok=True)
    with build.Lock("facts"):
        h = build.input_hash(extra=f"{tier}/{variant}")
        p = os.path.join(util.CACHE, "facts", h + ".pkl")
        if os.path.exists(p) and not os.environ.get("VERIF_NO_CACHE"):
            with open(p, "rb") as f:
                fx = pickle.load(f)
            fx.cache_hit = True
            return fx
        fx = build_facts(tier, variant)
        fx.hash = h
        fx.cache_hit = False
        tmp = p + ".tmp"
        with open(tmp, "wb") as f:
            pickle.dump(fx, f)
        os.replace(tmp, p)
        # keep the cache small
        ents = sorted(glob.glob(os.path.join(util.CACHE, "facts", "*.pkl")), key=os.path.getmtime)
        for old in ents[:-10]:
            os.unlink(old)
        return fx


def build_facts(tier, variant):
    t0 = time.time()
    ws = os.path.join(util.WORK, "corpus")
    out = os.path.join(util.WORK, "expanded")
    shutil.rmtree(out, ignore_errors=True)
    os.makedirs(out)
    permute = None
    if variant.startswith("perm:"):
        spec = variant[5:]
        permute = ("swap", int(spec[4:])) if spec.startswith("swap") else spec
    feats = None
    kw = {}
    if variant.startswith("feat:"):
        # feature matrix: the generator's `mt` / `cosmwasm_1_2` cfg branches. The repository's own tests assume `mt`; the corpus of
        # these variants is the example crates (library builds) and the witness libraries that do not name sylvia::multitest.
        feats = {"nomt": ["stargate", "iterator", "cosmwasm_1_1"], "mt-nocw12": ["mt", "stargate", "iterator", "cosmwasm_1_1"]}[variant[5:]]
        kw = dict(include_repo_tests=False, include_doctests=False, include_ui=False)
    wd = witness_dirs(tier)
    if variant.startswith("feat:"):
        wd = [d for d in witness_dirs("quick") if os.path.basename(d) in FEATURE_VARIANT_WITNESSES]
    dyn_info = {}
    if not variant.startswith("perm:"):
        # witness programs computed from the generator's current templates (hygiene of handler argument names)
        from . import dynwit
        dyn_root = os.path.join(util.CACHE, "dyn", variant.replace(":", "_"))
        shutil.rmtree(dyn_root, ignore_errors=True)
        dyn_dirs, dyn_info = dynwit.generate(dyn_root)
        wd = list(wd) + dyn_dirs
    crates = corpus.assemble(util.REPO, ws, include_examples=True, witness_dirs=wd, permute=permute, sylvia_features=feats, **kw)
    names = sorted(set(c.name for c in crates if getattr(c, "indexed", True) and not getattr(c, "expect_fail", False)))
    all_names = sorted(set(c.name for c in crates))
    # force rebuild of the crates under analysis (cargo's freshness cache would skip the wrapper)
    pkgs = set(n.replace("_", "-") for n in all_names) | set(all_names) | {"sylvia", "sylvia-derive", "repo-tests", "vprobe"}
    for d in os.listdir(ws):
        pkgs.add(d)
        pkgs.add(d[3:] if d.startswith("ex-") else d)
    build.invalidate_fingerprints(util.TARGET_DIR, pkgs)
    filt = "^(%s|sylvia)$" % "|".join(names)
    r = build.cargo_check(ws, ["--workspace", "--lib", "--bins", "--examples", "--tests"], expand_out=out, expand_filter=filt)
    log(f"[facts] cargo check rc={r['rc']} wall={r['wall']:.1f}s errors_in={len(r['errors'])} targets")
    if "error: failed to" in r["stderr"] or "no matching package" in r["stderr"] or "failed to select a version" in r["stderr"]:
        raise CheckError("corpus workspace could not be resolved/built:\n" + r["stderr"][-3000:])
    fx = Facts()
    fx.tier = tier
    fx.crates = []
    fx.items = []
    fx.expanded = {}
    fx.expanded_text_z = {}
    fx.errors = r["errors"]
    fx.artifacts = r["artifacts"]
    fx.cargo_rc = r["rc"]
    fx.cargo_stderr_tail = r["stderr"][-4000:]

    def parse(c):
        f = os.path.join(out, c.name + c.suffix + ".expanded.rs")
        if not getattr(c, "indexed", True) or getattr(c, "expect_fail", False) or not os.path.exists(f):
            return (c, None, f)
        try:
            return (c, util.syn_ast(f), f)
        except CheckError as e:
            c.expansion_error = str(e)[:300]      # the generator emitted something that is not even parseable Rust
            return (c, None, f)

    todo = list(crates)
    with ThreadPoolExecutor(max_workers=12) as ex:
        results = list(ex.map(parse, todo))
    sylvia_f = os.path.join(out, "sylvia.expanded.rs")
    fx.sylvia_expanded = util.syn_ast(sylvia_f) if os.path.exists(sylvia_f) else None
    import zlib
    for c, ast, f in results:
        key = c.name + c.suffix
        if ast is not None:
            with open(f, "rb") as fh:
                fx.expanded_text_z[key] = zlib.compress(fh.read(), 3)
        info = {"name": c.name, "suffix": c.suffix, "origin": c.origin, "root": c.root, "key": key,
                "expect_fail": getattr(c, "expect_fail", False), "expanded_file": f, "has_expansion": ast is not None,
                "witness": getattr(c, "witness", None), "indexed": getattr(c, "indexed", True),
                "expansion_error": getattr(c, "expansion_error", None)}
        fx.crates.append(info)
        fx.expanded[key] = ast
        for found in c.items:
            m = model.build_item(found, c)
            m.crate_key = key
            m.origin = c.origin
            fx.items.append(m)
    fx.dyn_info = dyn_info
    fx.build_wall = time.time() - t0
    # copies of expanded text are not kept; remove scratch
    if not os.environ.get("VERIF_KEEP_WORK"):
        shutil.rmtree(out, ignore_errors=True)
        shutil.rmtree(ws, ignore_errors=True)
    return fx


def target_errors(fx, crate_info):
    """error diagnostics of one corpus target"""
    out = []
    for (pkg, tname, kind), errs in fx.errors.items():
        if tname.replace("-", "_") == crate_info["name"]:
            if crate_info["suffix"] == ".test" and kind != "test":
                continue
            if crate_info["suffix"] == ".bin" and kind not in ("example", "bin"):
                continue
            if crate_info["suffix"] == "" and kind not in ("lib", "cdylib,rlib", "rlib", "lib,cdylib"):
                continue
            out += errs
    return out
