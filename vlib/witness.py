"""E-W: compile-pass / compile-fail witnesses, decided from cargo's JSON diagnostics (locations only)."""
import os

from . import facts as F
from .props import common as C


def error_lines(errs, file_suffix):
    """lines of the witness file that carry a primary error span (directly or through a macro expansion backtrace)"""
    lines = set()
    for e in errs:
        for sp in e["spans"]:
            if sp["file"].endswith(file_suffix) and sp["is_primary"]:
                for ln in range(sp["line_start"], sp["line_end"] + 1):
                    lines.add(ln)
    return lines


def evaluate(ctx, fx, c, rule):
    """Decide one witness target. Returns True if it behaved as expected."""
    w = c["witness"]
    errs = F.target_errors(fx, c)
    fname = os.path.basename(c["root"])
    key = [w["package"], c["name"]]
    where = c["origin"]
    ctx.inst(rule, distinct=tuple(key))
    if w["expect"] == "pass":
        if errs:
            e0 = errs[0]
            sp = next((s for s in e0["spans"] if s["is_primary"]), None)
            loc = f"{sp['file']}:{sp['line_start']}" if sp else where
            ctx.violation(rule, key + ["must-compile"], loc, "program type-checks", f"{e0.get('code')}: {e0['message'][:300]}",
                          "a program the property says must be accepted is rejected: " + w.get("what", ""))
            return False
        return True
    # must fail here
    if not errs:
        ctx.violation(rule, key + ["must-fail"], where, "rejected with an error at the marked line(s) " + str(w["markers"]), "accepted (no error)",
                      "a program the property says must be rejected compiles: " + w.get("what", ""))
        return False
    lines = error_lines(errs, "/" + fname)
    ok = True
    if w["markers"]:
        missing = [m for m in w["markers"] if m not in lines]
        if missing:
            ok = False
            ctx.violation(rule, key + ["location"], where, f"error located at line(s) {w['markers']}", f"errors at lines {sorted(lines)} ({errs[0].get('code')}: {errs[0]['message'][:200]})",
                          "the program is rejected but the diagnostic does not point at the offence: " + w.get("what", ""))
        if w.get("exact"):
            ctx.extra.setdefault("exact_witnesses", {})[c["name"]] = {"items_that_must_be_rejected": len(w["markers"]), "items_rustc_rejected": len(lines),
                                                                        "sets_equal": set(w["markers"]) == lines}
            ctx.inst(rule + ".exact-items", len(w["markers"]))
            extra = sorted(lines - set(w["markers"]))
            if extra:
                ok = False
                ctx.violation(rule, key + ["unexpected-errors"], where, f"errors only at {w['markers']}", f"also at {extra}",
                              "a construct the property says must be accepted is rejected: " + w.get("what", ""))
    else:
        # no marked line: any located error inside the file is accepted, but a pure proc-macro panic is reported
        if not lines:
            ctx.violation(rule, key + ["not-located"], where, "an error located in the witness file", [e["message"][:120] for e in errs[:3]],
                          "rejected, but not located: " + w.get("what", ""))
            ok = False
    return ok


def run_for(ctx, prop, rule=None, package=None):
    fx = C.facts(ctx)
    n = 0
    for c in fx.crates:
        w = c.get("witness")
        if not w or prop not in w["props"]:
            continue
        if package and w["package"] != package:
            continue
        r = rule or f"{prop}.w-{w['package']}"
        ok = evaluate(ctx, fx, c, r)
        dyn = (getattr(fx, "dyn_info", None) or {}).get(w["package"])
        if dyn:
            # computed from the generator's templates on this run (vlib/dynwit.py): record what was generated
            ctx.extra.setdefault("computed_witnesses", {})[w["package"]] = {"names": len(dyn["names"]), "all_names": dyn["names"]}
        n += 1
        if len(ctx.samples) < 10:
            ctx.sample({"witness": c["origin"], "expect": w["expect"], "markers": w["markers"], "as_expected": ok, "what": w.get("what", "")})
    return n
