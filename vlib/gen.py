"""Understanding of the *generated* code: locate the `sv` / `entry_points` modules of a model item in
the expanded AST and extract facts (variants, serde wire names, dispatch arms, lists ...)."""
from . import ast as A
from .util import CheckError, ENUM_KINDS, EP_NAME, MSG_NAME, WRAPPER_NAME


class Unrecognised(Exception):
    """A generated construct the rules cannot classify: fails the rule closed."""


def module_items(expanded, modpath):
    items = expanded["items"]
    for seg in modpath:
        nxt = None
        for it in items:
            if it.get("k") == "mod" and it["name"] == seg and it.get("items") is not None:
                nxt = it["items"]
                break
        if nxt is None:
            return None
        items = nxt
    return items


class GenItem:
    def __init__(self, model_item, expanded):
        self.m = model_item
        self.scope = module_items(expanded, model_item.modpath)
        if self.scope is None:
            raise CheckError(f"{model_item.key}: module path not found in expansion")
        self.sv = None
        self.entry_points = None
        self.probes = {}
        # several sylvia items could live in one module only if they are of different names; `sv` is unique
        svs = [it for it in self.scope if it.get("k") == "mod" and it["name"] == "sv"]
        if len(svs) == 1:
            self.sv = svs[0]["items"]
            self.sv_ln = svs[0]["ln"]
        elif len(svs) > 1:
            raise CheckError(f"{model_item.key}: several `sv` modules in one scope")
        eps = [it for it in self.scope if it.get("k") == "mod" and it["name"] == "entry_points"]
        if eps:
            self.entry_points = eps[0]["items"]
        for it in self.scope:
            if it.get("k") == "const" and it["name"].startswith("__VPROBE_"):
                tag, n = it["name"][len("__VPROBE_"):].rsplit("_", 1)
                if model_item.probe is not None and int(n) == model_item.probe:
                    e = it["expr"]
                    if e.get("k") == "lit" and e["lk"] == "str":
                        self.probes[tag] = e["v"]
        self._serde = {}

    # ---------------------------------------------------------------- lookups
    def find(self, kind=None, name=None, items=None):
        return [it for it in (items if items is not None else self.sv) if (kind is None or it.get("k") == kind)
                and (name is None or it.get("name") == name)]

    def one(self, kind, name, items=None):
        r = self.find(kind, name, items)
        if len(r) != 1:
            return None
        return r[0]

    def msg_type(self, kind):
        """The generated message type (enum/struct item) of a kind, resolving the interface alias."""
        nm = MSG_NAME[kind]
        cand = self.find(None, nm)
        cand = [c for c in cand if c.get("k") in ("enum", "struct", "type")]
        if not cand:
            return None
        if len(cand) > 1:
            raise Unrecognised(f"several items named {nm}")
        c = cand[0]
        if c["k"] == "type":
            tgt = c["ty"]
            if tgt["k"] != "path":
                raise Unrecognised(f"alias {nm} to non-path")
            tname = tgt["path"]["segs"][-1]["id"]
            r = [x for x in self.sv if x.get("k") in ("enum", "struct") and x.get("name") == tname]
            if len(r) != 1:
                raise Unrecognised(f"alias {nm} -> {tname} not found")
            return r[0]
        return c

    def wrapper_type(self, kind):
        return self.one("enum", WRAPPER_NAME[kind])

    def inherent_impls(self, type_name, items=None):
        out = []
        for it in (items if items is not None else self.sv):
            if it.get("k") == "impl" and it.get("trait") is None and it["self_ty"]["k"] == "path" \
                    and it["self_ty"]["path"]["segs"][-1]["id"] == type_name:
                out.append(it)
        return out

    def trait_impls(self, trait_last, type_name=None, items=None, deep=True):
        out = []
        src = items if items is not None else self.sv
        it_iter = A.all_items_deep(src) if deep else src
        for it in it_iter:
            if it.get("k") == "impl" and it.get("trait") is not None \
                    and it["trait"]["path"]["segs"][-1]["id"] == trait_last:
                if type_name is None:
                    out.append(it)
                else:
                    st = it["self_ty"]
                    if st["k"] == "path" and st["path"]["segs"][-1]["id"] == type_name:
                        out.append(it)
        return out

    def method(self, impl, name):
        r = [f for f in impl["items"] if f.get("k") == "fn" and f["name"] == name]
        return r[0] if len(r) == 1 else None

    def messages_fn(self, kind):
        return self.one("fn", EP_NAME[kind] + "_messages")

    def messages_list(self, kind):
        f = self.messages_fn(kind)
        if f is None:
            return None
        return messages_list_of_fn(f)

    # ---------------------------------------------------------------- serde
    def serde(self, type_item):
        key = type_item["name"]
        if key not in self._serde:
            self._serde[key] = serde_facts(self, type_item)
        return self._serde[key]


def messages_list_of_fn(f):
    stmts, tail = A.block_parts(f["body"])
    if stmts or tail is None or tail["k"] != "array":
        raise Unrecognised(f"{f['name']}: body is not a literal array")
    out = []
    for e in tail["elems"]:
        if e["k"] != "lit" or e["lk"] != "str":
            raise Unrecognised(f"{f['name']}: non-literal element")
        out.append(e["v"])
    return out


# -------------------------------------------------------------------- serde expansion facts

def _call_named(e, last):
    return e.get("x") and e.get("k") == "call" and e["func"].get("k") == "path" and e["func"]["path"]["segs"][-1]["id"] == last


def serde_facts(g, type_item):
    """Facts read out of serde_derive's expansion for a generated type."""
    name = type_item["name"]
    ser = g.trait_impls("Serialize", name)
    de = g.trait_impls("Deserialize", name)
    out = {"ser_impls": len(ser), "de_impls": len(de), "ser": None, "de": None,
           "ser_auto": all(A.has_attr(i, "automatically_derived") for i in ser) if ser else False,
           "de_auto": all(A.has_attr(i, "automatically_derived") for i in de) if de else False}
    if len(ser) == 1:
        out["ser"] = _ser_facts(ser[0], type_item)
        out["ser_generics"] = ser[0]["generics"]
    if len(de) == 1:
        out["de"] = _de_facts(de[0], type_item)
        out["de_generics"] = de[0]["generics"]
    return out


def _skip_keys(body):
    """keys of fields that serde_derive serialises conditionally (`skip_serializing_if`: `if pred(v) { skip_field(key) } else {..}`)"""
    out = []
    for c in A.find_all(body, lambda n: isinstance(n, dict) and _call_named(n, "skip_field")):
        k = c["args"][1] if len(c["args"]) > 1 else None
        out.append(k["v"] if k and k.get("k") == "lit" else "?")
    return out


def _ser_facts(impl, type_item):
    name = type_item["name"]
    f = [x for x in impl["items"] if x.get("k") == "fn" and x["name"] == "serialize"]
    if len(f) != 1:
        raise Unrecognised(f"Serialize impl of {name} without serialize fn")
    body = f[0]["body"]
    res = {"variants": {}, "struct_fields": None, "unserializable": [], "untagged_variants": {}}
    if type_item["k"] == "struct":
        calls = A.find_all(body, lambda n: isinstance(n, dict) and _call_named(n, "serialize_struct"))
        if len(calls) != 1:
            raise Unrecognised(f"{name}: serialize_struct calls = {len(calls)}")
        fields = []
        for c in A.find_all(body, lambda n: isinstance(n, dict) and _call_named(n, "serialize_field")):
            key = c["args"][1]
            val = c["args"][2]
            if key["k"] != "lit":
                raise Unrecognised(f"{name}: non literal field key")
            src = None
            v = val
            if v["k"] == "ref":
                v = v["expr"]
            if v["k"] == "field" and v["base"].get("k") == "path" and A.path_ids(v["base"]) == ["self"]:
                src = v["member"]
            fields.append((key["v"], src))
        res["struct_fields"] = fields
        res["struct_skips"] = _skip_keys(body)
        return res
    # enum: match *self { E::V { ref a, .. } => { ... } }
    ms = A.find_all(body, lambda n: isinstance(n, dict) and n.get("k") == "match" and n.get("x"))
    if not ms:
        raise Unrecognised(f"{name}: no match in serialize")
    m = ms[0]
    for arm in m["arms"]:
        p = arm["pat"]
        if p["k"] == "struct":
            vname = p["path"]["segs"][-1]["id"]
            binds = {}
            for fl in p["fields"]:
                if fl["pat"]["k"] == "ident":
                    binds[fl["pat"]["name"]] = fl["member"]
            sv = A.find_all(arm["body"], lambda n: isinstance(n, dict) and _call_named(n, "serialize_struct_variant"))
            if len(sv) != 1:
                raise Unrecognised(f"{name}::{vname}: serialize_struct_variant calls = {len(sv)}")
            wire = sv[0]["args"][3]
            if wire["k"] != "lit":
                raise Unrecognised(f"{name}::{vname}: wire name not literal")
            fields = []
            for c in A.find_all(arm["body"], lambda n: isinstance(n, dict) and _call_named(n, "serialize_field")):
                key = c["args"][1]
                val = c["args"][2]
                src = None
                if val["k"] == "path":
                    src = binds.get(A.path_ids(val)[0])
                fields.append((key["v"] if key["k"] == "lit" else None, src))
            res["variants"][vname] = {"wire": wire["v"], "fields": fields, "skips": _skip_keys(arm["body"])}
        elif p["k"] == "tuplestruct":
            vname = p["path"]["segs"][-1]["id"]
            # skipped variant (Err(custom("cannot be serialized"))) or untagged newtype (Serialize::serialize(field, ser))
            errs = A.find_all(arm["body"], lambda n: isinstance(n, dict) and _call_named(n, "custom"))
            sers = A.find_all(arm["body"], lambda n: isinstance(n, dict) and _call_named(n, "serialize"))
            nts = A.find_all(arm["body"], lambda n: isinstance(n, dict) and _call_named(n, "serialize_newtype_variant"))
            if errs and not sers and not nts:
                res["unserializable"].append(vname)
            elif sers and not nts:
                res["untagged_variants"][vname] = True
            elif nts:
                wire = nts[0]["args"][3]
                res["variants"][vname] = {"wire": wire.get("v"), "fields": None, "newtype": True}
            else:
                raise Unrecognised(f"{name}::{vname}: unclassified tuple variant serialisation")
        elif p["k"] == "path":
            vname = p["path"]["segs"][-1]["id"]
            res["variants"][vname] = {"wire": None, "fields": None, "unit": True}
        else:
            raise Unrecognised(f"{name}: unclassified serialize arm pattern {p['k']}")
    return res


def _de_facts(impl, type_item):
    name = type_item["name"]
    f = [x for x in impl["items"] if x.get("k") == "fn" and x["name"] == "deserialize"]
    if len(f) != 1:
        raise Unrecognised(f"Deserialize impl of {name} without deserialize fn")
    body = f[0]["body"]
    res = {"VARIANTS": None, "FIELDS": None, "variant_of_wire": {}, "fields_of_variant": {}, "defaults": {},
           "missing_field": set()}
    top_stmts = body["stmts"]

    def const_list(stmts, cname):
        for s in stmts:
            if s["k"] == "item" and s["item"].get("k") == "const" and s["item"]["name"] == cname:
                e = s["item"]["expr"]
                if e["k"] == "ref":
                    e = e["expr"]
                if e["k"] == "array":
                    return [x["v"] for x in e["elems"] if x["k"] == "lit"]
        return None

    def visit_str_map(stmts):
        """first `impl Visitor for __FieldVisitor` at this statement level: literal -> __fieldN"""
        for s in stmts:
            if s["k"] == "item" and s["item"].get("k") == "impl" and s["item"].get("trait") is not None \
                    and A.type_str(s["item"]["self_ty"]) == "__FieldVisitor":
                for fn in s["item"]["items"]:
                    if fn.get("k") == "fn" and fn["name"] == "visit_str":
                        mm = A.find_all(fn["body"], lambda n: isinstance(n, dict) and n.get("k") == "match" and n.get("x"))
                        out = {}
                        for arm in mm[0]["arms"]:
                            if arm["pat"]["k"] == "lit":
                                lit = arm["pat"]["s"].strip().strip('"')
                                fld = A.find_all(arm["body"], lambda n: isinstance(n, dict) and n.get("k") == "path" and n.get("x")
                                                 and len(n["path"]["segs"]) == 2 and n["path"]["segs"][0]["id"] == "__Field")
                                if fld:
                                    out[lit] = fld[0]["path"]["segs"][1]["id"]
                        return out
        return None

    if type_item["k"] == "struct":
        res["FIELDS"] = const_list(top_stmts, "FIELDS")
        res["field_of_key"] = visit_str_map(top_stmts)
        mf = A.find_all(body, lambda n: isinstance(n, dict) and _call_named(n, "missing_field"))
        res["missing_field"] = set(c["args"][0]["v"] for c in mf if c["args"] and c["args"][0]["k"] == "lit")
        return res
    res["VARIANTS"] = const_list(top_stmts, "VARIANTS")
    wire_to_field = visit_str_map(top_stmts) or {}
    # visit_enum: match EnumAccess::variant(__data)? { (__Field::__field0, __variant) => {...} }
    field_to_variant = {}
    for s in top_stmts:
        if s["k"] == "item" and s["item"].get("k") == "impl" and s["item"].get("trait") is not None \
                and A.type_str(s["item"]["self_ty"]).startswith("__Visitor"):
            for fn in s["item"]["items"]:
                if fn.get("k") == "fn" and fn["name"] == "visit_enum":
                    mm = [n for n in A.find_all(fn["body"], lambda n: isinstance(n, dict) and n.get("k") == "match" and n.get("x"))]
                    if not mm:
                        continue
                    for arm in mm[0]["arms"]:
                        p = arm["pat"]
                        if p["k"] == "tuple" and p["elems"] and p["elems"][0]["k"] == "path":
                            fid = p["elems"][0]["path"]["segs"][-1]["id"]
                            built = set()
                            for n in A.find_all(arm["body"], lambda n: isinstance(n, dict) and n.get("k") == "struct" and n.get("x")
                                                and len(n["path"]["segs"]) == 2 and n["path"]["segs"][0]["id"] == name):
                                built.add(n["path"]["segs"][1]["id"])
                            if not built:
                                # tuple / unit variants: `Name::V(..)` calls or bare `Name::V` paths
                                for n in A.find_all(arm["body"], lambda n: isinstance(n, dict) and n.get("x") and n.get("k") == "path"
                                                    and len(n["path"]["segs"]) == 2 and n["path"]["segs"][0]["id"] == name):
                                    built.add(n["path"]["segs"][1]["id"])
                            if len(built) != 1:
                                raise Unrecognised(f"{name}: visit_enum arm {fid} builds {sorted(built)}")
                            vname = built.pop()
                            field_to_variant[fid] = vname
                            # FIELDS of that variant + its key map + missing_field
                            arm_stmts = arm["body"]["stmts"] if arm["body"].get("k") == "block" else []
                            res["fields_of_variant"][vname] = {
                                "FIELDS": const_list(arm_stmts, "FIELDS"),
                                "key_map": visit_str_map(arm_stmts),
                                "missing_field": set(c["args"][0]["v"] for c in A.find_all(arm["body"], lambda n: isinstance(n, dict) and _call_named(n, "missing_field")) if c["args"] and c["args"][0]["k"] == "lit"),
                            }
    for wire, fid in wire_to_field.items():
        if fid in field_to_variant:
            res["variant_of_wire"][wire] = field_to_variant[fid]
    res["wire_to_field"] = wire_to_field
    return res


# -------------------------------------------------------------------- dispatch arms

def dispatch_fn(g, type_name):
    for imp in g.inherent_impls(type_name):
        f = g.method(imp, "dispatch")
        if f is not None:
            return imp, f
    return None, None


def dispatch_match(f):
    """The single `match self { .. }` of a dispatch function body (after optional `use X::*;` / const items)."""
    stmts, tail = A.block_parts(f["body"])
    extra = []
    for s in stmts:
        if s["k"] == "item" and s["item"].get("k") in ("use", "const"):
            extra.append(s["item"])
            continue
        raise Unrecognised(f"dispatch: unexpected statement kind {s['k']} before the match")
    tail = A.strip_expr(tail)
    if tail is None or tail["k"] != "match":
        raise Unrecognised("dispatch: tail is not a match")
    if not (tail["expr"].get("k") == "path" and A.path_ids(tail["expr"]) == ["self"]):
        raise Unrecognised("dispatch: match scrutinee is not `self`")
    return extra, tail


def contract_calls(e, recv_name="contract"):
    """All method calls whose receiver is the bare path `contract`."""
    return A.find_all(e, lambda n: isinstance(n, dict) and n.get("x") and n.get("k") == "mcall" and n["recv"].get("k") == "path"
                      and A.path_ids(n["recv"]) == [recv_name])


def analyse_enum_arm(arm, kind):
    """Normal form of one dispatch arm of a K-enum.
    Returns dict(variant, binds{field->binding}, handler, args[list of binding names or exprs], ctx_ok, adapter)"""
    p = arm["pat"]
    if p["k"] != "struct":
        if p["k"] == "tuplestruct" and p["path"]["segs"][-1]["id"] == "_Phantom":
            return {"phantom": True, "body": arm["body"]}
        raise Unrecognised(f"dispatch arm pattern {p['k']}")
    if p.get("rest"):
        raise Unrecognised("dispatch arm pattern with `..`")
    variant = p["path"]["segs"][-1]["id"]
    binds = {}
    for fl in p["fields"]:
        if fl["pat"]["k"] != "ident":
            raise Unrecognised("dispatch arm: non-identifier field binding")
        binds[fl["pat"]["name"]] = fl["member"]
    body = arm["body"]
    # adapters
    had_err_into, inner = A.peel_err_into(body)
    adapter = {"err_into": had_err_into, "to_json_binary": False, "try_inside": False}
    inner = A.strip_expr(inner)
    if inner["k"] == "call" and A.last_seg(inner["func"]) == "to_json_binary":
        adapter["to_json_binary"] = True
        a0 = inner["args"][0] if len(inner["args"]) == 1 else None
        if a0 is None or a0["k"] != "ref":
            raise Unrecognised("to_json_binary argument is not a reference")
        a0 = A.strip_expr(a0["expr"])
        if a0["k"] != "try":
            raise Unrecognised("to_json_binary(&x) without `?` on the handler result")
        adapter["try_inside"] = True
        inner = A.strip_expr(a0["expr"])
    calls = contract_calls(body)
    if len(calls) != 1:
        raise Unrecognised(f"arm {variant}: {len(calls)} calls on `contract`")
    call = calls[0]
    if inner is not call:
        raise Unrecognised(f"arm {variant}: handler call is wrapped in an unrecognised adapter")
    args = call["args"]
    if not args:
        raise Unrecognised(f"arm {variant}: handler called without context")
    conv, ctx_e = A.unconv(args[0])
    ctx_ok = conv and ctx_e.get("k") == "path" and A.path_ids(ctx_e) == ["ctx"]
    rest = []
    for a in args[1:]:
        a = A.strip_expr(a)
        if a["k"] == "path" and len(a["path"]["segs"]) == 1:
            rest.append(a["path"]["segs"][0]["id"])
        else:
            rest.append(None)
    return {"phantom": False, "variant": variant, "binds": binds, "handler": call["method"], "args": rest,
            "ctx_ok": ctx_ok, "adapter": adapter, "ln": arm["ln"]}
