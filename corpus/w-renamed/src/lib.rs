//@ props: C19
//@ expect: pass
//@ index: no
//@ what: reply suite, override suite and an interface/custom/generic suite compiled in a crate whose only dependency is `sv_renamed = { package = "sylvia" }`
#![allow(dead_code, unused_imports, unused_variables, deprecated, clippy::new_without_default)]
extern crate sv_renamed as fw;

pub mod reply_suite {
    use fw::ctx::{ExecCtx, InstantiateCtx, QueryCtx, ReplyCtx};
    use fw::cw_std::{Addr, Binary, Empty, Response, StdError, StdResult, SubMsgResult};
    use fw::contract;

    #[derive(fw::serde::Serialize, fw::serde::Deserialize, Clone, Debug, PartialEq, fw::schemars::JsonSchema)]
    #[serde(crate = "fw::serde")]
    #[schemars(crate = "fw::schemars")]
    pub struct Payload { pub x: u32 }
    #[derive(fw::serde::Serialize, fw::serde::Deserialize, Clone, Debug, PartialEq, fw::schemars::JsonSchema)]
    #[serde(crate = "fw::serde")]
    #[schemars(crate = "fw::schemars")]
    pub struct Data { pub y: String }

    pub mod cov_s {
        use super::*;
        pub struct Contract;

        #[contract]
        #[sv::features(replies)]
        impl Contract {
            pub fn new() -> Self { Self }
            #[sv::msg(instantiate)]
            fn instantiate(&self, _ctx: InstantiateCtx) -> StdResult<Response> { Ok(Response::new()) }
            #[sv::msg(reply, handlers=[h], reply_on=success)]
            fn on_ok(&self, _ctx: ReplyCtx, #[sv::payload(raw)] payload: Binary) -> StdResult<Response> { Ok(Response::new()) }
        }
    }

    pub mod cov_s_data {
        use super::*;
        pub struct Contract;

        #[contract]
        #[sv::features(replies)]
        impl Contract {
            pub fn new() -> Self { Self }
            #[sv::msg(instantiate)]
            fn instantiate(&self, _ctx: InstantiateCtx) -> StdResult<Response> { Ok(Response::new()) }
            #[sv::msg(reply, handlers=[h], reply_on=success)]
            fn on_ok(&self, _ctx: ReplyCtx, #[sv::data] data: Data, #[sv::payload(raw)] payload: Binary) -> StdResult<Response> { Ok(Response::new()) }
        }
    }

    pub mod cov_e {
        use super::*;
        pub struct Contract;

        #[contract]
        #[sv::features(replies)]
        impl Contract {
            pub fn new() -> Self { Self }
            #[sv::msg(instantiate)]
            fn instantiate(&self, _ctx: InstantiateCtx) -> StdResult<Response> { Ok(Response::new()) }
            #[sv::msg(reply, handlers=[h], reply_on=error)]
            fn on_err(&self, _ctx: ReplyCtx, error: String, #[sv::payload(raw)] payload: Binary) -> StdResult<Response> { Ok(Response::new()) }
        }
    }

    pub mod cov_a {
        use super::*;
        pub struct Contract;

        #[contract]
        #[sv::features(replies)]
        impl Contract {
            pub fn new() -> Self { Self }
            #[sv::msg(instantiate)]
            fn instantiate(&self, _ctx: InstantiateCtx) -> StdResult<Response> { Ok(Response::new()) }
            #[sv::msg(reply, handlers=[h], reply_on=always)]
            fn on_any(&self, _ctx: ReplyCtx, result: SubMsgResult, #[sv::payload(raw)] payload: Binary) -> StdResult<Response> { Ok(Response::new()) }
        }
    }

    pub mod cov_se {
        use super::*;
        pub struct Contract;

        #[contract]
        #[sv::features(replies)]
        impl Contract {
            pub fn new() -> Self { Self }
            #[sv::msg(instantiate)]
            fn instantiate(&self, _ctx: InstantiateCtx) -> StdResult<Response> { Ok(Response::new()) }
            #[sv::msg(reply, handlers=[h], reply_on=success)]
            fn on_ok(&self, _ctx: ReplyCtx, #[sv::payload(raw)] payload: Binary) -> StdResult<Response> { Ok(Response::new()) }
            #[sv::msg(reply, handlers=[h], reply_on=error)]
            fn on_err(&self, _ctx: ReplyCtx, error: String, #[sv::payload(raw)] payload: Binary) -> StdResult<Response> { Ok(Response::new()) }
        }
    }

    pub mod cov_es {
        use super::*;
        pub struct Contract;

        #[contract]
        #[sv::features(replies)]
        impl Contract {
            pub fn new() -> Self { Self }
            #[sv::msg(instantiate)]
            fn instantiate(&self, _ctx: InstantiateCtx) -> StdResult<Response> { Ok(Response::new()) }
            #[sv::msg(reply, handlers=[h], reply_on=error)]
            fn on_err(&self, _ctx: ReplyCtx, error: String, #[sv::payload(raw)] payload: Binary) -> StdResult<Response> { Ok(Response::new()) }
            #[sv::msg(reply, handlers=[h], reply_on=success)]
            fn on_ok(&self, _ctx: ReplyCtx, #[sv::payload(raw)] payload: Binary) -> StdResult<Response> { Ok(Response::new()) }
        }
    }

    pub mod cov_se_data {
        use super::*;
        pub struct Contract;

        #[contract]
        #[sv::features(replies)]
        impl Contract {
            pub fn new() -> Self { Self }
            #[sv::msg(instantiate)]
            fn instantiate(&self, _ctx: InstantiateCtx) -> StdResult<Response> { Ok(Response::new()) }
            #[sv::msg(reply, handlers=[h], reply_on=success)]
            fn on_ok(&self, _ctx: ReplyCtx, #[sv::data(opt)] data: Option<Data>, #[sv::payload(raw)] payload: Binary) -> StdResult<Response> { Ok(Response::new()) }
            #[sv::msg(reply, handlers=[h], reply_on=error)]
            fn on_err(&self, _ctx: ReplyCtx, error: String, #[sv::payload(raw)] payload: Binary) -> StdResult<Response> { Ok(Response::new()) }
        }
    }

    pub mod cov_es_data {
        use super::*;
        pub struct Contract;

        #[contract]
        #[sv::features(replies)]
        impl Contract {
            pub fn new() -> Self { Self }
            #[sv::msg(instantiate)]
            fn instantiate(&self, _ctx: InstantiateCtx) -> StdResult<Response> { Ok(Response::new()) }
            #[sv::msg(reply, handlers=[h], reply_on=error)]
            fn on_err(&self, _ctx: ReplyCtx, error: String, #[sv::payload(raw)] payload: Binary) -> StdResult<Response> { Ok(Response::new()) }
            #[sv::msg(reply, handlers=[h], reply_on=success)]
            fn on_ok(&self, _ctx: ReplyCtx, #[sv::data(opt)] data: Option<Data>, #[sv::payload(raw)] payload: Binary) -> StdResult<Response> { Ok(Response::new()) }
        }
    }

    pub mod pay_one_se {
        use super::*;
        pub struct Contract;

        #[contract]
        #[sv::features(replies)]
        impl Contract {
            pub fn new() -> Self { Self }
            #[sv::msg(instantiate)]
            fn instantiate(&self, _ctx: InstantiateCtx) -> StdResult<Response> { Ok(Response::new()) }
            #[sv::msg(reply, handlers=[h], reply_on=success)]
            fn on_ok(&self, _ctx: ReplyCtx, #[sv::data(raw)] data: Binary, first: Payload) -> StdResult<Response> { Ok(Response::new()) }
            #[sv::msg(reply, handlers=[h], reply_on=error)]
            fn on_err(&self, _ctx: ReplyCtx, error: String, first: Payload) -> StdResult<Response> { Ok(Response::new()) }
        }
    }

    pub mod pay_one_a {
        use super::*;
        pub struct Contract;

        #[contract]
        #[sv::features(replies)]
        impl Contract {
            pub fn new() -> Self { Self }
            #[sv::msg(instantiate)]
            fn instantiate(&self, _ctx: InstantiateCtx) -> StdResult<Response> { Ok(Response::new()) }
            #[sv::msg(reply, handlers=[h], reply_on=always)]
            fn on_any(&self, _ctx: ReplyCtx, result: SubMsgResult, first: Payload) -> StdResult<Response> { Ok(Response::new()) }
        }
    }

    pub mod pay_many_se {
        use super::*;
        pub struct Contract;

        #[contract]
        #[sv::features(replies)]
        impl Contract {
            pub fn new() -> Self { Self }
            #[sv::msg(instantiate)]
            fn instantiate(&self, _ctx: InstantiateCtx) -> StdResult<Response> { Ok(Response::new()) }
            #[sv::msg(reply, handlers=[h], reply_on=success)]
            fn on_ok(&self, _ctx: ReplyCtx, #[sv::data(raw)] data: Binary, first: u32, second: String, third: Addr) -> StdResult<Response> { Ok(Response::new()) }
            #[sv::msg(reply, handlers=[h], reply_on=error)]
            fn on_err(&self, _ctx: ReplyCtx, error: String, first: u32, second: String, third: Addr) -> StdResult<Response> { Ok(Response::new()) }
        }
    }

    pub mod pay_many_a {
        use super::*;
        pub struct Contract;

        #[contract]
        #[sv::features(replies)]
        impl Contract {
            pub fn new() -> Self { Self }
            #[sv::msg(instantiate)]
            fn instantiate(&self, _ctx: InstantiateCtx) -> StdResult<Response> { Ok(Response::new()) }
            #[sv::msg(reply, handlers=[h], reply_on=always)]
            fn on_any(&self, _ctx: ReplyCtx, result: SubMsgResult, first: u32, second: String, third: Addr) -> StdResult<Response> { Ok(Response::new()) }
        }
    }

    pub mod multi_name {
        use super::*;
        pub struct Contract;

        #[contract]
        #[sv::features(replies)]
        impl Contract {
            pub fn new() -> Self { Self }
            #[sv::msg(instantiate)]
            fn instantiate(&self, _ctx: InstantiateCtx) -> StdResult<Response> { Ok(Response::new()) }
            #[sv::msg(reply, handlers=[first, second], reply_on=success)]
            fn both_ok(&self, _ctx: ReplyCtx, #[sv::payload(raw)] payload: Binary) -> StdResult<Response> { Ok(Response::new()) }
            #[sv::msg(reply, handlers=[second], reply_on=error)]
            fn second_err(&self, _ctx: ReplyCtx, error: String, #[sv::payload(raw)] payload: Binary) -> StdResult<Response> { Ok(Response::new()) }
            #[sv::msg(reply, handlers=[third], reply_on=always)]
            fn third_any(&self, _ctx: ReplyCtx, result: SubMsgResult, #[sv::payload(raw)] payload: Binary) -> StdResult<Response> { Ok(Response::new()) }
        }
    }

    pub mod default_name {
        use super::*;
        pub struct Contract;

        #[contract]
        #[sv::features(replies)]
        impl Contract {
            pub fn new() -> Self { Self }
            #[sv::msg(instantiate)]
            fn instantiate(&self, _ctx: InstantiateCtx) -> StdResult<Response> { Ok(Response::new()) }
            #[sv::msg(reply, reply_on=success)]
            fn on_default(&self, _ctx: ReplyCtx, #[sv::payload(raw)] payload: Binary) -> StdResult<Response> { Ok(Response::new()) }
            #[sv::msg(reply, reply_on=error)]
            fn other_default(&self, _ctx: ReplyCtx, error: String, #[sv::payload(raw)] payload: Binary) -> StdResult<Response> { Ok(Response::new()) }
        }
    }

    pub mod name_shapes {
        use super::*;
        pub struct Contract;

        #[contract]
        #[sv::features(replies)]
        impl Contract {
            pub fn new() -> Self { Self }
            #[sv::msg(instantiate)]
            fn instantiate(&self, _ctx: InstantiateCtx) -> StdResult<Response> { Ok(Response::new()) }
            #[sv::msg(reply, handlers=[step2_go], reply_on=success)]
            fn a1(&self, _ctx: ReplyCtx, #[sv::payload(raw)] payload: Binary) -> StdResult<Response> { Ok(Response::new()) }
            #[sv::msg(reply, handlers=[a_b_c], reply_on=error)]
            fn a2(&self, _ctx: ReplyCtx, error: String, #[sv::payload(raw)] payload: Binary) -> StdResult<Response> { Ok(Response::new()) }
            #[sv::msg(reply, handlers=[x1y], reply_on=always)]
            fn a3(&self, _ctx: ReplyCtx, result: SubMsgResult, #[sv::payload(raw)] payload: Binary) -> StdResult<Response> { Ok(Response::new()) }
        }
    }

    pub mod data_typed {
        use super::*;
        pub struct Contract;

        #[contract]
        #[sv::features(replies)]
        impl Contract {
            pub fn new() -> Self { Self }
            #[sv::msg(instantiate)]
            fn instantiate(&self, _ctx: InstantiateCtx) -> StdResult<Response> { Ok(Response::new()) }
            #[sv::msg(reply, handlers=[h], reply_on=success)]
            fn on_ok(&self, _ctx: ReplyCtx, #[sv::data] data: Data, first: Payload) -> StdResult<Response> { Ok(Response::new()) }
        }
    }

    pub mod data_opt {
        use super::*;
        pub struct Contract;

        #[contract]
        #[sv::features(replies)]
        impl Contract {
            pub fn new() -> Self { Self }
            #[sv::msg(instantiate)]
            fn instantiate(&self, _ctx: InstantiateCtx) -> StdResult<Response> { Ok(Response::new()) }
            #[sv::msg(reply, handlers=[h], reply_on=success)]
            fn on_ok(&self, _ctx: ReplyCtx, #[sv::data(opt)] data: Option<Data>, first: Payload) -> StdResult<Response> { Ok(Response::new()) }
        }
    }

    pub mod data_raw {
        use super::*;
        pub struct Contract;

        #[contract]
        #[sv::features(replies)]
        impl Contract {
            pub fn new() -> Self { Self }
            #[sv::msg(instantiate)]
            fn instantiate(&self, _ctx: InstantiateCtx) -> StdResult<Response> { Ok(Response::new()) }
            #[sv::msg(reply, handlers=[h], reply_on=success)]
            fn on_ok(&self, _ctx: ReplyCtx, #[sv::data(raw)] data: Binary, first: Payload) -> StdResult<Response> { Ok(Response::new()) }
        }
    }

    pub mod data_raw_opt {
        use super::*;
        pub struct Contract;

        #[contract]
        #[sv::features(replies)]
        impl Contract {
            pub fn new() -> Self { Self }
            #[sv::msg(instantiate)]
            fn instantiate(&self, _ctx: InstantiateCtx) -> StdResult<Response> { Ok(Response::new()) }
            #[sv::msg(reply, handlers=[h], reply_on=success)]
            fn on_ok(&self, _ctx: ReplyCtx, #[sv::data(raw, opt)] data: Option<Binary>, first: Payload) -> StdResult<Response> { Ok(Response::new()) }
        }
    }

    pub mod data_inst {
        use super::*;
        pub struct Contract;

        #[contract]
        #[sv::features(replies)]
        impl Contract {
            pub fn new() -> Self { Self }
            #[sv::msg(instantiate)]
            fn instantiate(&self, _ctx: InstantiateCtx) -> StdResult<Response> { Ok(Response::new()) }
            #[sv::msg(reply, handlers=[h], reply_on=success)]
            fn on_ok(&self, _ctx: ReplyCtx, #[sv::data(instantiate)] data: fw::cw_utils::MsgInstantiateContractResponse, first: Payload) -> StdResult<Response> { Ok(Response::new()) }
        }
    }

    pub mod data_inst_opt {
        use super::*;
        pub struct Contract;

        #[contract]
        #[sv::features(replies)]
        impl Contract {
            pub fn new() -> Self { Self }
            #[sv::msg(instantiate)]
            fn instantiate(&self, _ctx: InstantiateCtx) -> StdResult<Response> { Ok(Response::new()) }
            #[sv::msg(reply, handlers=[h], reply_on=success)]
            fn on_ok(&self, _ctx: ReplyCtx, #[sv::data(instantiate, opt)] data: Option<fw::cw_utils::MsgInstantiateContractResponse>, first: Payload) -> StdResult<Response> { Ok(Response::new()) }
        }
    }

    pub mod generic_se {
        use super::*;
        pub struct Contract<T> { _p: std::marker::PhantomData<T> }

        #[contract]
        #[sv::features(replies)]
        #[sv::custom(msg = T)]
        impl<T> Contract<T> where T: fw::types::CustomMsg + 'static {
            pub fn new() -> Self { Self { _p: std::marker::PhantomData } }
            #[sv::msg(instantiate)]
            fn instantiate(&self, _ctx: InstantiateCtx) -> StdResult<Response<T>> { Ok(Response::new()) }
            #[sv::msg(reply, handlers=[h], reply_on=success)]
            fn on_ok(&self, _ctx: ReplyCtx, #[sv::data] data: Data, #[sv::payload(raw)] payload: Binary) -> StdResult<Response<T>> { Ok(Response::new()) }
            #[sv::msg(reply, handlers=[h], reply_on=error)]
            fn on_err(&self, _ctx: ReplyCtx, error: String, #[sv::payload(raw)] payload: Binary) -> StdResult<Response<T>> { Ok(Response::new()) }
        }
    }

}

pub mod override_suite {
    use fw::ctx::{ExecCtx, InstantiateCtx, MigrateCtx, QueryCtx, ReplyCtx, SudoCtx};
    use fw::cw_std::{Binary, Deps, DepsMut, Empty, Env, MessageInfo, Reply, Response, StdError, StdResult};
    use fw::{contract, entry_points};

    #[derive(fw::serde::Serialize, fw::serde::Deserialize, Clone, Debug, PartialEq, fw::schemars::JsonSchema)]
    #[serde(crate = "fw::serde")]
    #[schemars(crate = "fw::schemars")]
    pub struct Resp {}

    pub mod ovr_inst_mr_r {
        use super::*;
        pub mod eps {
            use super::super::*;
            #[derive(fw::serde::Serialize, fw::serde::Deserialize, Clone, Debug, PartialEq, fw::schemars::JsonSchema)]
    #[serde(crate = "fw::serde")]
    #[schemars(crate = "fw::schemars")]
            pub struct CustomInstantiate {}
            pub fn instantiate(_deps: DepsMut, _env: Env, _info: MessageInfo, _msg: CustomInstantiate) -> StdResult<Response> { Ok(Response::new()) }
        }

        pub struct Contract;

        #[entry_points]
        #[contract]
        #[sv::features(replies)]
        #[sv::override_entry_point(instantiate=eps::instantiate(eps::CustomInstantiate))]
        impl Contract {
            pub fn new() -> Self { Self }
            #[sv::msg(instantiate)]
            fn instantiate(&self, _ctx: InstantiateCtx) -> StdResult<Response> { Ok(Response::new()) }
            #[sv::msg(exec)]
            fn do_exec(&self, _ctx: ExecCtx) -> StdResult<Response> { Ok(Response::new()) }
            #[sv::msg(query)]
            fn do_query(&self, _ctx: QueryCtx) -> StdResult<Resp> { Ok(Resp {}) }
            #[sv::msg(sudo)]
            fn do_sudo(&self, _ctx: SudoCtx) -> StdResult<Response> { Ok(Response::new()) }
            #[sv::msg(migrate)]
            fn migrate(&self, _ctx: MigrateCtx) -> StdResult<Response> { Ok(Response::new()) }
            #[sv::msg(reply, handlers=[on_done], reply_on=success)]
            fn on_done(&self, _ctx: ReplyCtx, #[sv::payload(raw)] _payload: Binary) -> StdResult<Response> { Ok(Response::new()) }
        }
    }

    pub mod ovr_exec_mr_r {
        use super::*;
        pub mod eps {
            use super::super::*;
            #[derive(fw::serde::Serialize, fw::serde::Deserialize, Clone, Debug, PartialEq, fw::schemars::JsonSchema)]
    #[serde(crate = "fw::serde")]
    #[schemars(crate = "fw::schemars")]
            pub struct CustomExec {}
            pub fn execute(_deps: DepsMut, _env: Env, _info: MessageInfo, _msg: CustomExec) -> StdResult<Response> { Ok(Response::new()) }
        }

        pub struct Contract;

        #[entry_points]
        #[contract]
        #[sv::features(replies)]
        #[sv::override_entry_point(exec=eps::execute(eps::CustomExec))]
        impl Contract {
            pub fn new() -> Self { Self }
            #[sv::msg(instantiate)]
            fn instantiate(&self, _ctx: InstantiateCtx) -> StdResult<Response> { Ok(Response::new()) }
            #[sv::msg(exec)]
            fn do_exec(&self, _ctx: ExecCtx) -> StdResult<Response> { Ok(Response::new()) }
            #[sv::msg(query)]
            fn do_query(&self, _ctx: QueryCtx) -> StdResult<Resp> { Ok(Resp {}) }
            #[sv::msg(sudo)]
            fn do_sudo(&self, _ctx: SudoCtx) -> StdResult<Response> { Ok(Response::new()) }
            #[sv::msg(migrate)]
            fn migrate(&self, _ctx: MigrateCtx) -> StdResult<Response> { Ok(Response::new()) }
            #[sv::msg(reply, handlers=[on_done], reply_on=success)]
            fn on_done(&self, _ctx: ReplyCtx, #[sv::payload(raw)] _payload: Binary) -> StdResult<Response> { Ok(Response::new()) }
        }
    }

    pub mod ovr_quer_mr_r {
        use super::*;
        pub mod eps {
            use super::super::*;
            #[derive(fw::serde::Serialize, fw::serde::Deserialize, Clone, Debug, PartialEq, fw::schemars::JsonSchema)]
    #[serde(crate = "fw::serde")]
    #[schemars(crate = "fw::schemars")]
            pub struct CustomQuery {}
            pub fn query(_deps: Deps, _env: Env, _msg: CustomQuery) -> StdResult<Binary> { Ok(Binary::default()) }
        }

        pub struct Contract;

        #[entry_points]
        #[contract]
        #[sv::features(replies)]
        #[sv::override_entry_point(query=eps::query(eps::CustomQuery))]
        impl Contract {
            pub fn new() -> Self { Self }
            #[sv::msg(instantiate)]
            fn instantiate(&self, _ctx: InstantiateCtx) -> StdResult<Response> { Ok(Response::new()) }
            #[sv::msg(exec)]
            fn do_exec(&self, _ctx: ExecCtx) -> StdResult<Response> { Ok(Response::new()) }
            #[sv::msg(query)]
            fn do_query(&self, _ctx: QueryCtx) -> StdResult<Resp> { Ok(Resp {}) }
            #[sv::msg(sudo)]
            fn do_sudo(&self, _ctx: SudoCtx) -> StdResult<Response> { Ok(Response::new()) }
            #[sv::msg(migrate)]
            fn migrate(&self, _ctx: MigrateCtx) -> StdResult<Response> { Ok(Response::new()) }
            #[sv::msg(reply, handlers=[on_done], reply_on=success)]
            fn on_done(&self, _ctx: ReplyCtx, #[sv::payload(raw)] _payload: Binary) -> StdResult<Response> { Ok(Response::new()) }
        }
    }

    pub mod ovr_sudo_mr_r {
        use super::*;
        pub mod eps {
            use super::super::*;
            #[derive(fw::serde::Serialize, fw::serde::Deserialize, Clone, Debug, PartialEq, fw::schemars::JsonSchema)]
    #[serde(crate = "fw::serde")]
    #[schemars(crate = "fw::schemars")]
            pub struct CustomSudo {}
            pub fn sudo(_deps: DepsMut, _env: Env, _msg: CustomSudo) -> StdResult<Response> { Ok(Response::new()) }
        }

        pub struct Contract;

        #[entry_points]
        #[contract]
        #[sv::features(replies)]
        #[sv::override_entry_point(sudo=eps::sudo(eps::CustomSudo))]
        impl Contract {
            pub fn new() -> Self { Self }
            #[sv::msg(instantiate)]
            fn instantiate(&self, _ctx: InstantiateCtx) -> StdResult<Response> { Ok(Response::new()) }
            #[sv::msg(exec)]
            fn do_exec(&self, _ctx: ExecCtx) -> StdResult<Response> { Ok(Response::new()) }
            #[sv::msg(query)]
            fn do_query(&self, _ctx: QueryCtx) -> StdResult<Resp> { Ok(Resp {}) }
            #[sv::msg(sudo)]
            fn do_sudo(&self, _ctx: SudoCtx) -> StdResult<Response> { Ok(Response::new()) }
            #[sv::msg(migrate)]
            fn migrate(&self, _ctx: MigrateCtx) -> StdResult<Response> { Ok(Response::new()) }
            #[sv::msg(reply, handlers=[on_done], reply_on=success)]
            fn on_done(&self, _ctx: ReplyCtx, #[sv::payload(raw)] _payload: Binary) -> StdResult<Response> { Ok(Response::new()) }
        }
    }

    pub mod ovr_migr_mr_r {
        use super::*;
        pub mod eps {
            use super::super::*;
            #[derive(fw::serde::Serialize, fw::serde::Deserialize, Clone, Debug, PartialEq, fw::schemars::JsonSchema)]
    #[serde(crate = "fw::serde")]
    #[schemars(crate = "fw::schemars")]
            pub struct CustomMigrate {}
            pub fn migrate(_deps: DepsMut, _env: Env, _msg: CustomMigrate) -> StdResult<Response> { Ok(Response::new()) }
        }

        pub struct Contract;

        #[entry_points]
        #[contract]
        #[sv::features(replies)]
        #[sv::override_entry_point(migrate=eps::migrate(eps::CustomMigrate))]
        impl Contract {
            pub fn new() -> Self { Self }
            #[sv::msg(instantiate)]
            fn instantiate(&self, _ctx: InstantiateCtx) -> StdResult<Response> { Ok(Response::new()) }
            #[sv::msg(exec)]
            fn do_exec(&self, _ctx: ExecCtx) -> StdResult<Response> { Ok(Response::new()) }
            #[sv::msg(query)]
            fn do_query(&self, _ctx: QueryCtx) -> StdResult<Resp> { Ok(Resp {}) }
            #[sv::msg(sudo)]
            fn do_sudo(&self, _ctx: SudoCtx) -> StdResult<Response> { Ok(Response::new()) }
            #[sv::msg(migrate)]
            fn migrate(&self, _ctx: MigrateCtx) -> StdResult<Response> { Ok(Response::new()) }
            #[sv::msg(reply, handlers=[on_done], reply_on=success)]
            fn on_done(&self, _ctx: ReplyCtx, #[sv::payload(raw)] _payload: Binary) -> StdResult<Response> { Ok(Response::new()) }
        }
    }

    pub mod ovr_repl_mr_r {
        use super::*;
        pub mod eps {
            use super::super::*;

            pub fn reply(_deps: DepsMut, _env: Env, _msg: Reply) -> StdResult<Response> { Ok(Response::new()) }
        }

        pub struct Contract;

        #[entry_points]
        #[contract]
        #[sv::features(replies)]
        #[sv::override_entry_point(reply=eps::reply(fw::cw_std::Reply))]
        impl Contract {
            pub fn new() -> Self { Self }
            #[sv::msg(instantiate)]
            fn instantiate(&self, _ctx: InstantiateCtx) -> StdResult<Response> { Ok(Response::new()) }
            #[sv::msg(exec)]
            fn do_exec(&self, _ctx: ExecCtx) -> StdResult<Response> { Ok(Response::new()) }
            #[sv::msg(query)]
            fn do_query(&self, _ctx: QueryCtx) -> StdResult<Resp> { Ok(Resp {}) }
            #[sv::msg(sudo)]
            fn do_sudo(&self, _ctx: SudoCtx) -> StdResult<Response> { Ok(Response::new()) }
            #[sv::msg(migrate)]
            fn migrate(&self, _ctx: MigrateCtx) -> StdResult<Response> { Ok(Response::new()) }
            #[sv::msg(reply, handlers=[on_done], reply_on=success)]
            fn on_done(&self, _ctx: ReplyCtx, #[sv::payload(raw)] _payload: Binary) -> StdResult<Response> { Ok(Response::new()) }
        }
    }

    pub mod ovr_migr_nomr {
        use super::*;
        pub mod eps {
            use super::super::*;
            #[derive(fw::serde::Serialize, fw::serde::Deserialize, Clone, Debug, PartialEq, fw::schemars::JsonSchema)]
    #[serde(crate = "fw::serde")]
    #[schemars(crate = "fw::schemars")]
            pub struct CustomMigrate {}
            pub fn migrate(_deps: DepsMut, _env: Env, _msg: CustomMigrate) -> StdResult<Response> { Ok(Response::new()) }
        }

        pub struct Contract;

        #[entry_points]
        #[contract]
        #[sv::override_entry_point(migrate=eps::migrate(eps::CustomMigrate))]
        impl Contract {
            pub fn new() -> Self { Self }
            #[sv::msg(instantiate)]
            fn instantiate(&self, _ctx: InstantiateCtx) -> StdResult<Response> { Ok(Response::new()) }
            #[sv::msg(exec)]
            fn do_exec(&self, _ctx: ExecCtx) -> StdResult<Response> { Ok(Response::new()) }
            #[sv::msg(query)]
            fn do_query(&self, _ctx: QueryCtx) -> StdResult<Resp> { Ok(Resp {}) }
            #[sv::msg(sudo)]
            fn do_sudo(&self, _ctx: SudoCtx) -> StdResult<Response> { Ok(Response::new()) }
        }
    }

    pub mod ovr_migr_mr_legacy {
        use super::*;
        pub mod eps {
            use super::super::*;
            #[derive(fw::serde::Serialize, fw::serde::Deserialize, Clone, Debug, PartialEq, fw::schemars::JsonSchema)]
    #[serde(crate = "fw::serde")]
    #[schemars(crate = "fw::schemars")]
            pub struct CustomMigrate {}
            pub fn migrate(_deps: DepsMut, _env: Env, _msg: CustomMigrate) -> StdResult<Response> { Ok(Response::new()) }
        }

        pub struct Contract;

        #[entry_points]
        #[contract]
        #[sv::override_entry_point(migrate=eps::migrate(eps::CustomMigrate))]
        impl Contract {
            pub fn new() -> Self { Self }
            #[sv::msg(instantiate)]
            fn instantiate(&self, _ctx: InstantiateCtx) -> StdResult<Response> { Ok(Response::new()) }
            #[sv::msg(exec)]
            fn do_exec(&self, _ctx: ExecCtx) -> StdResult<Response> { Ok(Response::new()) }
            #[sv::msg(query)]
            fn do_query(&self, _ctx: QueryCtx) -> StdResult<Resp> { Ok(Resp {}) }
            #[sv::msg(sudo)]
            fn do_sudo(&self, _ctx: SudoCtx) -> StdResult<Response> { Ok(Response::new()) }
            #[sv::msg(migrate)]
            fn migrate(&self, _ctx: MigrateCtx) -> StdResult<Response> { Ok(Response::new()) }
            #[sv::msg(reply)]
            fn reply(&self, _ctx: fw::types::ReplyCtx, _msg: Reply) -> StdResult<Response> { Ok(Response::new()) }
        }
    }

    pub mod ovr_repl_nomr {
        use super::*;
        pub mod eps {
            use super::super::*;

            pub fn reply(_deps: DepsMut, _env: Env, _msg: Reply) -> StdResult<Response> { Ok(Response::new()) }
        }

        pub struct Contract;

        #[entry_points]
        #[contract]
        #[sv::override_entry_point(reply=eps::reply(fw::cw_std::Reply))]
        impl Contract {
            pub fn new() -> Self { Self }
            #[sv::msg(instantiate)]
            fn instantiate(&self, _ctx: InstantiateCtx) -> StdResult<Response> { Ok(Response::new()) }
            #[sv::msg(exec)]
            fn do_exec(&self, _ctx: ExecCtx) -> StdResult<Response> { Ok(Response::new()) }
            #[sv::msg(query)]
            fn do_query(&self, _ctx: QueryCtx) -> StdResult<Resp> { Ok(Resp {}) }
            #[sv::msg(sudo)]
            fn do_sudo(&self, _ctx: SudoCtx) -> StdResult<Response> { Ok(Response::new()) }
        }
    }

    pub mod ovr_repl_mr_legacy {
        use super::*;
        pub mod eps {
            use super::super::*;

            pub fn reply(_deps: DepsMut, _env: Env, _msg: Reply) -> StdResult<Response> { Ok(Response::new()) }
        }

        pub struct Contract;

        #[entry_points]
        #[contract]
        #[sv::override_entry_point(reply=eps::reply(fw::cw_std::Reply))]
        impl Contract {
            pub fn new() -> Self { Self }
            #[sv::msg(instantiate)]
            fn instantiate(&self, _ctx: InstantiateCtx) -> StdResult<Response> { Ok(Response::new()) }
            #[sv::msg(exec)]
            fn do_exec(&self, _ctx: ExecCtx) -> StdResult<Response> { Ok(Response::new()) }
            #[sv::msg(query)]
            fn do_query(&self, _ctx: QueryCtx) -> StdResult<Resp> { Ok(Resp {}) }
            #[sv::msg(sudo)]
            fn do_sudo(&self, _ctx: SudoCtx) -> StdResult<Response> { Ok(Response::new()) }
            #[sv::msg(migrate)]
            fn migrate(&self, _ctx: MigrateCtx) -> StdResult<Response> { Ok(Response::new()) }
            #[sv::msg(reply)]
            fn reply(&self, _ctx: fw::types::ReplyCtx, _msg: Reply) -> StdResult<Response> { Ok(Response::new()) }
        }
    }

    pub mod ovr_pair_mr_r {
        use super::*;
        pub mod eps {
            use super::super::*;
            #[derive(fw::serde::Serialize, fw::serde::Deserialize, Clone, Debug, PartialEq, fw::schemars::JsonSchema)]
    #[serde(crate = "fw::serde")]
    #[schemars(crate = "fw::schemars")]
            pub struct CustomQuery {}
            #[derive(fw::serde::Serialize, fw::serde::Deserialize, Clone, Debug, PartialEq, fw::schemars::JsonSchema)]
    #[serde(crate = "fw::serde")]
    #[schemars(crate = "fw::schemars")]
            pub struct CustomSudo {}
            pub fn query(_deps: Deps, _env: Env, _msg: CustomQuery) -> StdResult<Binary> { Ok(Binary::default()) }
            pub fn sudo(_deps: DepsMut, _env: Env, _msg: CustomSudo) -> StdResult<Response> { Ok(Response::new()) }
        }

        pub struct Contract;

        #[entry_points]
        #[contract]
        #[sv::features(replies)]
        #[sv::override_entry_point(query=eps::query(eps::CustomQuery))]
        #[sv::override_entry_point(sudo=eps::sudo(eps::CustomSudo))]
        impl Contract {
            pub fn new() -> Self { Self }
            #[sv::msg(instantiate)]
            fn instantiate(&self, _ctx: InstantiateCtx) -> StdResult<Response> { Ok(Response::new()) }
            #[sv::msg(exec)]
            fn do_exec(&self, _ctx: ExecCtx) -> StdResult<Response> { Ok(Response::new()) }
            #[sv::msg(query)]
            fn do_query(&self, _ctx: QueryCtx) -> StdResult<Resp> { Ok(Resp {}) }
            #[sv::msg(sudo)]
            fn do_sudo(&self, _ctx: SudoCtx) -> StdResult<Response> { Ok(Response::new()) }
            #[sv::msg(migrate)]
            fn migrate(&self, _ctx: MigrateCtx) -> StdResult<Response> { Ok(Response::new()) }
            #[sv::msg(reply, handlers=[on_done], reply_on=success)]
            fn on_done(&self, _ctx: ReplyCtx, #[sv::payload(raw)] _payload: Binary) -> StdResult<Response> { Ok(Response::new()) }
        }
    }

    pub mod ovr_pair2_nomr {
        use super::*;
        pub mod eps {
            use super::super::*;
            #[derive(fw::serde::Serialize, fw::serde::Deserialize, Clone, Debug, PartialEq, fw::schemars::JsonSchema)]
    #[serde(crate = "fw::serde")]
    #[schemars(crate = "fw::schemars")]
            pub struct CustomInstantiate {}
            #[derive(fw::serde::Serialize, fw::serde::Deserialize, Clone, Debug, PartialEq, fw::schemars::JsonSchema)]
    #[serde(crate = "fw::serde")]
    #[schemars(crate = "fw::schemars")]
            pub struct CustomExec {}
            pub fn instantiate(_deps: DepsMut, _env: Env, _info: MessageInfo, _msg: CustomInstantiate) -> StdResult<Response> { Ok(Response::new()) }
            pub fn execute(_deps: DepsMut, _env: Env, _info: MessageInfo, _msg: CustomExec) -> StdResult<Response> { Ok(Response::new()) }
        }

        pub struct Contract;

        #[entry_points]
        #[contract]
        #[sv::override_entry_point(instantiate=eps::instantiate(eps::CustomInstantiate))]
        #[sv::override_entry_point(exec=eps::execute(eps::CustomExec))]
        impl Contract {
            pub fn new() -> Self { Self }
            #[sv::msg(instantiate)]
            fn instantiate(&self, _ctx: InstantiateCtx) -> StdResult<Response> { Ok(Response::new()) }
            #[sv::msg(exec)]
            fn do_exec(&self, _ctx: ExecCtx) -> StdResult<Response> { Ok(Response::new()) }
            #[sv::msg(query)]
            fn do_query(&self, _ctx: QueryCtx) -> StdResult<Resp> { Ok(Resp {}) }
            #[sv::msg(sudo)]
            fn do_sudo(&self, _ctx: SudoCtx) -> StdResult<Response> { Ok(Response::new()) }
        }
    }

    pub mod ovr_all_mr_r {
        use super::*;
        pub mod eps {
            use super::super::*;
            #[derive(fw::serde::Serialize, fw::serde::Deserialize, Clone, Debug, PartialEq, fw::schemars::JsonSchema)]
    #[serde(crate = "fw::serde")]
    #[schemars(crate = "fw::schemars")]
            pub struct CustomInstantiate {}
            #[derive(fw::serde::Serialize, fw::serde::Deserialize, Clone, Debug, PartialEq, fw::schemars::JsonSchema)]
    #[serde(crate = "fw::serde")]
    #[schemars(crate = "fw::schemars")]
            pub struct CustomExec {}
            #[derive(fw::serde::Serialize, fw::serde::Deserialize, Clone, Debug, PartialEq, fw::schemars::JsonSchema)]
    #[serde(crate = "fw::serde")]
    #[schemars(crate = "fw::schemars")]
            pub struct CustomQuery {}
            #[derive(fw::serde::Serialize, fw::serde::Deserialize, Clone, Debug, PartialEq, fw::schemars::JsonSchema)]
    #[serde(crate = "fw::serde")]
    #[schemars(crate = "fw::schemars")]
            pub struct CustomSudo {}
            #[derive(fw::serde::Serialize, fw::serde::Deserialize, Clone, Debug, PartialEq, fw::schemars::JsonSchema)]
    #[serde(crate = "fw::serde")]
    #[schemars(crate = "fw::schemars")]
            pub struct CustomMigrate {}
            pub fn instantiate(_deps: DepsMut, _env: Env, _info: MessageInfo, _msg: CustomInstantiate) -> StdResult<Response> { Ok(Response::new()) }
            pub fn execute(_deps: DepsMut, _env: Env, _info: MessageInfo, _msg: CustomExec) -> StdResult<Response> { Ok(Response::new()) }
            pub fn query(_deps: Deps, _env: Env, _msg: CustomQuery) -> StdResult<Binary> { Ok(Binary::default()) }
            pub fn sudo(_deps: DepsMut, _env: Env, _msg: CustomSudo) -> StdResult<Response> { Ok(Response::new()) }
            pub fn migrate(_deps: DepsMut, _env: Env, _msg: CustomMigrate) -> StdResult<Response> { Ok(Response::new()) }
            pub fn reply(_deps: DepsMut, _env: Env, _msg: Reply) -> StdResult<Response> { Ok(Response::new()) }
        }

        pub struct Contract;

        #[entry_points]
        #[contract]
        #[sv::features(replies)]
        #[sv::override_entry_point(instantiate=eps::instantiate(eps::CustomInstantiate))]
        #[sv::override_entry_point(exec=eps::execute(eps::CustomExec))]
        #[sv::override_entry_point(query=eps::query(eps::CustomQuery))]
        #[sv::override_entry_point(sudo=eps::sudo(eps::CustomSudo))]
        #[sv::override_entry_point(migrate=eps::migrate(eps::CustomMigrate))]
        #[sv::override_entry_point(reply=eps::reply(fw::cw_std::Reply))]
        impl Contract {
            pub fn new() -> Self { Self }
            #[sv::msg(instantiate)]
            fn instantiate(&self, _ctx: InstantiateCtx) -> StdResult<Response> { Ok(Response::new()) }
            #[sv::msg(exec)]
            fn do_exec(&self, _ctx: ExecCtx) -> StdResult<Response> { Ok(Response::new()) }
            #[sv::msg(query)]
            fn do_query(&self, _ctx: QueryCtx) -> StdResult<Resp> { Ok(Resp {}) }
            #[sv::msg(sudo)]
            fn do_sudo(&self, _ctx: SudoCtx) -> StdResult<Response> { Ok(Response::new()) }
            #[sv::msg(migrate)]
            fn migrate(&self, _ctx: MigrateCtx) -> StdResult<Response> { Ok(Response::new()) }
            #[sv::msg(reply, handlers=[on_done], reply_on=success)]
            fn on_done(&self, _ctx: ReplyCtx, #[sv::payload(raw)] _payload: Binary) -> StdResult<Response> { Ok(Response::new()) }
        }
    }

    pub mod ovr_none_mr_r {
        use super::*;
        pub mod eps {
            use super::super::*;


        }

        pub struct Contract;

        #[entry_points]
        #[contract]
        #[sv::features(replies)]

        impl Contract {
            pub fn new() -> Self { Self }
            #[sv::msg(instantiate)]
            fn instantiate(&self, _ctx: InstantiateCtx) -> StdResult<Response> { Ok(Response::new()) }
            #[sv::msg(exec)]
            fn do_exec(&self, _ctx: ExecCtx) -> StdResult<Response> { Ok(Response::new()) }
            #[sv::msg(query)]
            fn do_query(&self, _ctx: QueryCtx) -> StdResult<Resp> { Ok(Resp {}) }
            #[sv::msg(sudo)]
            fn do_sudo(&self, _ctx: SudoCtx) -> StdResult<Response> { Ok(Response::new()) }
            #[sv::msg(migrate)]
            fn migrate(&self, _ctx: MigrateCtx) -> StdResult<Response> { Ok(Response::new()) }
            #[sv::msg(reply, handlers=[on_done], reply_on=success)]
            fn on_done(&self, _ctx: ReplyCtx, #[sv::payload(raw)] _payload: Binary) -> StdResult<Response> { Ok(Response::new()) }
        }
    }

    pub mod ovr_none_mr_legacy {
        use super::*;
        pub mod eps {
            use super::super::*;


        }

        pub struct Contract;

        #[entry_points]
        #[contract]

        impl Contract {
            pub fn new() -> Self { Self }
            #[sv::msg(instantiate)]
            fn instantiate(&self, _ctx: InstantiateCtx) -> StdResult<Response> { Ok(Response::new()) }
            #[sv::msg(exec)]
            fn do_exec(&self, _ctx: ExecCtx) -> StdResult<Response> { Ok(Response::new()) }
            #[sv::msg(query)]
            fn do_query(&self, _ctx: QueryCtx) -> StdResult<Resp> { Ok(Resp {}) }
            #[sv::msg(sudo)]
            fn do_sudo(&self, _ctx: SudoCtx) -> StdResult<Response> { Ok(Response::new()) }
            #[sv::msg(migrate)]
            fn migrate(&self, _ctx: MigrateCtx) -> StdResult<Response> { Ok(Response::new()) }
            #[sv::msg(reply)]
            fn reply(&self, _ctx: fw::types::ReplyCtx, _msg: Reply) -> StdResult<Response> { Ok(Response::new()) }
        }
    }

    pub mod ovr_none_nomr {
        use super::*;
        pub mod eps {
            use super::super::*;


        }

        pub struct Contract;

        #[entry_points]
        #[contract]

        impl Contract {
            pub fn new() -> Self { Self }
            #[sv::msg(instantiate)]
            fn instantiate(&self, _ctx: InstantiateCtx) -> StdResult<Response> { Ok(Response::new()) }
            #[sv::msg(exec)]
            fn do_exec(&self, _ctx: ExecCtx) -> StdResult<Response> { Ok(Response::new()) }
            #[sv::msg(query)]
            fn do_query(&self, _ctx: QueryCtx) -> StdResult<Resp> { Ok(Resp {}) }
            #[sv::msg(sudo)]
            fn do_sudo(&self, _ctx: SudoCtx) -> StdResult<Response> { Ok(Response::new()) }
        }
    }

    pub mod ovr_gen_exec {
        use super::*;
        pub mod eps {
            use super::super::*;
            #[derive(fw::serde::Serialize, fw::serde::Deserialize, Clone, Debug, PartialEq, fw::schemars::JsonSchema)]
    #[serde(crate = "fw::serde")]
    #[schemars(crate = "fw::schemars")]
            pub struct CustomExec {}
            pub fn execute(_deps: DepsMut, _env: Env, _info: MessageInfo, _msg: CustomExec) -> StdResult<Response> { Ok(Response::new()) }
        }

        pub struct Contract<T> { _p: std::marker::PhantomData<T> }

        #[entry_points(generics<Empty>)]
        #[contract]
        #[sv::features(replies)]
        #[sv::override_entry_point(exec=eps::execute(eps::CustomExec))]
        impl<T> Contract<T> where T: fw::types::CustomMsg + 'static {
            pub fn new() -> Self { Self { _p: std::marker::PhantomData } }
            #[sv::msg(instantiate)]
            fn instantiate(&self, _ctx: InstantiateCtx) -> StdResult<Response> { Ok(Response::new()) }
            #[sv::msg(exec)]
            fn do_exec(&self, _ctx: ExecCtx, _t: Option<T>) -> StdResult<Response> { Ok(Response::new()) }
            #[sv::msg(query)]
            fn do_query(&self, _ctx: QueryCtx) -> StdResult<Resp> { Ok(Resp {}) }
            #[sv::msg(sudo)]
            fn do_sudo(&self, _ctx: SudoCtx) -> StdResult<Response> { Ok(Response::new()) }
            #[sv::msg(migrate)]
            fn migrate(&self, _ctx: MigrateCtx) -> StdResult<Response> { Ok(Response::new()) }
            #[sv::msg(reply, handlers=[on_done], reply_on=success)]
            fn on_done(&self, _ctx: ReplyCtx, #[sv::payload(raw)] _payload: Binary) -> StdResult<Response> { Ok(Response::new()) }
        }
    }

    pub mod ovr_gen_quer {
        use super::*;
        pub mod eps {
            use super::super::*;
            #[derive(fw::serde::Serialize, fw::serde::Deserialize, Clone, Debug, PartialEq, fw::schemars::JsonSchema)]
    #[serde(crate = "fw::serde")]
    #[schemars(crate = "fw::schemars")]
            pub struct CustomQuery {}
            pub fn query(_deps: Deps, _env: Env, _msg: CustomQuery) -> StdResult<Binary> { Ok(Binary::default()) }
        }

        pub struct Contract<T> { _p: std::marker::PhantomData<T> }

        #[entry_points(generics<Empty>)]
        #[contract]
        #[sv::features(replies)]
        #[sv::override_entry_point(query=eps::query(eps::CustomQuery))]
        impl<T> Contract<T> where T: fw::types::CustomMsg + 'static {
            pub fn new() -> Self { Self { _p: std::marker::PhantomData } }
            #[sv::msg(instantiate)]
            fn instantiate(&self, _ctx: InstantiateCtx) -> StdResult<Response> { Ok(Response::new()) }
            #[sv::msg(exec)]
            fn do_exec(&self, _ctx: ExecCtx, _t: Option<T>) -> StdResult<Response> { Ok(Response::new()) }
            #[sv::msg(query)]
            fn do_query(&self, _ctx: QueryCtx) -> StdResult<Resp> { Ok(Resp {}) }
            #[sv::msg(sudo)]
            fn do_sudo(&self, _ctx: SudoCtx) -> StdResult<Response> { Ok(Response::new()) }
            #[sv::msg(migrate)]
            fn migrate(&self, _ctx: MigrateCtx) -> StdResult<Response> { Ok(Response::new()) }
            #[sv::msg(reply, handlers=[on_done], reply_on=success)]
            fn on_done(&self, _ctx: ReplyCtx, #[sv::payload(raw)] _payload: Binary) -> StdResult<Response> { Ok(Response::new()) }
        }
    }

    pub mod ovr_gen_none {
        use super::*;
        pub mod eps {
            use super::super::*;


        }

        pub struct Contract<T> { _p: std::marker::PhantomData<T> }

        #[entry_points(generics<Empty>)]
        #[contract]
        #[sv::features(replies)]

        impl<T> Contract<T> where T: fw::types::CustomMsg + 'static {
            pub fn new() -> Self { Self { _p: std::marker::PhantomData } }
            #[sv::msg(instantiate)]
            fn instantiate(&self, _ctx: InstantiateCtx) -> StdResult<Response> { Ok(Response::new()) }
            #[sv::msg(exec)]
            fn do_exec(&self, _ctx: ExecCtx, _t: Option<T>) -> StdResult<Response> { Ok(Response::new()) }
            #[sv::msg(query)]
            fn do_query(&self, _ctx: QueryCtx) -> StdResult<Resp> { Ok(Resp {}) }
            #[sv::msg(sudo)]
            fn do_sudo(&self, _ctx: SudoCtx) -> StdResult<Response> { Ok(Response::new()) }
            #[sv::msg(migrate)]
            fn migrate(&self, _ctx: MigrateCtx) -> StdResult<Response> { Ok(Response::new()) }
            #[sv::msg(reply, handlers=[on_done], reply_on=success)]
            fn on_done(&self, _ctx: ReplyCtx, #[sv::payload(raw)] _payload: Binary) -> StdResult<Response> { Ok(Response::new()) }
        }
    }

}

pub mod iface_suite {
    use fw::ctx::{ExecCtx, InstantiateCtx, QueryCtx, SudoCtx};
    use fw::cw_std::{Empty, Response, StdError, StdResult};
    use fw::{contract, entry_points, interface};

    #[derive(fw::serde::Serialize, fw::serde::Deserialize, Clone, Debug, PartialEq, fw::schemars::JsonSchema)]
#[serde(crate = "fw::serde")]
#[schemars(crate = "fw::schemars")]
    pub struct MyMsg {}
    impl fw::cw_std::CustomMsg for MyMsg {}
    #[derive(fw::serde::Serialize, fw::serde::Deserialize, Clone, Debug, PartialEq, fw::schemars::JsonSchema)]
#[serde(crate = "fw::serde")]
#[schemars(crate = "fw::schemars")]
    pub struct MyQuery {}
    impl fw::cw_std::CustomQuery for MyQuery {}
    #[derive(fw::serde::Serialize, fw::serde::Deserialize, Clone, Debug, PartialEq, fw::schemars::JsonSchema)]
#[serde(crate = "fw::serde")]
#[schemars(crate = "fw::schemars")]
    pub struct Resp {}

    pub mod native {
        use super::*;
        #[interface]
        #[sv::custom(msg = Empty, query = Empty)]
        pub trait Native {
            type Error: From<StdError>;
            #[sv::msg(exec)]
            fn n_exec(&self, ctx: ExecCtx, a: u32) -> Result<Response, Self::Error>;
            #[sv::msg(query)]
            fn n_query(&self, ctx: QueryCtx) -> Result<Resp, Self::Error>;
            #[sv::msg(sudo)]
            fn n_sudo(&self, ctx: SudoCtx) -> Result<Response, Self::Error>;
        }
    }
    pub mod assoc {
        use super::*;
        #[interface]
        pub trait Assoc {
            type Error: From<StdError>;
            type ExecC: fw::types::CustomMsg;
            type QueryC: fw::types::CustomQuery;
            type Extra: fw::types::CustomMsg + 'static;
            #[sv::msg(exec)]
            fn a_exec(&self, ctx: ExecCtx<Self::QueryC>, a: Self::Extra) -> Result<Response<Self::ExecC>, Self::Error>;
            #[sv::msg(query)]
            fn a_query(&self, ctx: QueryCtx<Self::QueryC>) -> Result<Self::Extra, Self::Error>;
        }
    }

    pub struct Contract<T> { _p: std::marker::PhantomData<T> }

    impl<T: fw::types::CustomMsg + 'static> native::Native for Contract<T> {
        type Error = StdError;
        fn n_exec(&self, _ctx: ExecCtx, _a: u32) -> StdResult<Response> { Ok(Response::new()) }
        fn n_query(&self, _ctx: QueryCtx) -> StdResult<Resp> { Ok(Resp {}) }
        fn n_sudo(&self, _ctx: SudoCtx) -> StdResult<Response> { Ok(Response::new()) }
    }
    impl<T: fw::types::CustomMsg + 'static> assoc::Assoc for Contract<T> {
        type Error = StdError;
        type ExecC = MyMsg;
        type QueryC = MyQuery;
        type Extra = T;
        fn a_exec(&self, _ctx: ExecCtx<MyQuery>, _a: T) -> StdResult<Response<MyMsg>> { Ok(Response::new()) }
        fn a_query(&self, _ctx: QueryCtx<MyQuery>) -> StdResult<T> { unimplemented!() }
    }

    #[entry_points(generics<Empty>)]
    #[contract]
    #[sv::custom(msg = MyMsg, query = MyQuery)]
    #[sv::messages(native: custom(msg, query))]
    #[sv::messages(assoc)]
    impl<T> Contract<T> where T: fw::types::CustomMsg + 'static {
        pub fn new() -> Self { Self { _p: std::marker::PhantomData } }
        #[sv::msg(instantiate)]
        fn instantiate(&self, _ctx: InstantiateCtx<MyQuery>, _t: T) -> StdResult<Response<MyMsg>> { Ok(Response::new()) }
        #[sv::msg(exec)]
        fn own_exec(&self, _ctx: ExecCtx<MyQuery>, _t: Vec<T>) -> StdResult<Response<MyMsg>> { Ok(Response::new()) }
        #[sv::msg(query)]
        fn own_query(&self, _ctx: QueryCtx<MyQuery>) -> StdResult<Resp> { Ok(Resp {}) }
    }
}
