//@ props: C01 C02 C03 C04 C05 C10
//@ expect: pass
//@ what: method-name shape representatives under exec/query/sudo in contracts, interfaces and contracts using them; twin names setup_1 (exec) / setup1 (instantiate)
#![allow(dead_code, unused_variables, non_snake_case, clippy::new_without_default)]
use sylvia::ctx::{ExecCtx, InstantiateCtx, QueryCtx, SudoCtx};
use sylvia::cw_std::{Response, StdError, StdResult};
use sylvia::{contract, entry_points, interface};

#[sylvia::cw_schema::cw_serde]
pub struct Resp {}

pub mod rc0 {
    use super::*;
    pub struct Contract;

    #[entry_points]
    #[contract]
    impl Contract {
        pub fn new() -> Self { Self }
        #[sv::msg(instantiate)]
        fn instantiate(&self, _ctx: InstantiateCtx) -> StdResult<Response> { Ok(Response::new()) }
        #[sv::msg(exec)]
        fn foo2_bar(&self, _ctx: ExecCtx, first: u32, second: u32) -> StdResult<Response> { Ok(Response::new()) }
        #[sv::msg(exec)]
        fn step_2(&self, _ctx: ExecCtx, first: u32, second: u32) -> StdResult<Response> { Ok(Response::new()) }
        #[sv::msg(exec)]
        fn a_b_c(&self, _ctx: ExecCtx, first: u32, second: u32) -> StdResult<Response> { Ok(Response::new()) }
        #[sv::msg(query)]
        fn v1(&self, _ctx: QueryCtx, first: u32, second: u32) -> StdResult<Resp> { Ok(Resp {}) }
        #[sv::msg(query)]
        fn x1y(&self, _ctx: QueryCtx, first: u32, second: u32) -> StdResult<Resp> { Ok(Resp {}) }
        #[sv::msg(query)]
        fn ab_cd_e(&self, _ctx: QueryCtx, first: u32, second: u32) -> StdResult<Resp> { Ok(Resp {}) }
        #[sv::msg(sudo)]
        fn a1_b2(&self, _ctx: SudoCtx, first: u32, second: u32) -> StdResult<Response> { Ok(Response::new()) }
        #[sv::msg(sudo)]
        fn foo_bar2(&self, _ctx: SudoCtx, first: u32, second: u32) -> StdResult<Response> { Ok(Response::new()) }
        #[sv::msg(sudo)]
        fn a(&self, _ctx: SudoCtx, first: u32, second: u32) -> StdResult<Response> { Ok(Response::new()) }
    }
}

pub mod ri0 {
    use super::*;
    #[interface]
    #[sv::custom(msg = sylvia::cw_std::Empty, query = sylvia::cw_std::Empty)]
    pub trait Shapes0 {
        type Error: From<StdError>;
        #[sv::msg(exec)]
        fn a1_b2(&self, ctx: ExecCtx, first: u32, second: u32) -> Result<Response, Self::Error>;
        #[sv::msg(exec)]
        fn foo_bar2(&self, ctx: ExecCtx, first: u32, second: u32) -> Result<Response, Self::Error>;
        #[sv::msg(exec)]
        fn a(&self, ctx: ExecCtx, first: u32, second: u32) -> Result<Response, Self::Error>;
        #[sv::msg(query)]
        fn foo2_bar(&self, ctx: QueryCtx, first: u32, second: u32) -> Result<Resp, Self::Error>;
        #[sv::msg(query)]
        fn step_2(&self, ctx: QueryCtx, first: u32, second: u32) -> Result<Resp, Self::Error>;
        #[sv::msg(query)]
        fn a_b_c(&self, ctx: QueryCtx, first: u32, second: u32) -> Result<Resp, Self::Error>;
        #[sv::msg(sudo)]
        fn v1(&self, ctx: SudoCtx, first: u32, second: u32) -> Result<Response, Self::Error>;
        #[sv::msg(sudo)]
        fn x1y(&self, ctx: SudoCtx, first: u32, second: u32) -> Result<Response, Self::Error>;
        #[sv::msg(sudo)]
        fn ab_cd_e(&self, ctx: SudoCtx, first: u32, second: u32) -> Result<Response, Self::Error>;
    }
}

pub mod ru0 {
    use super::*;
    pub struct Contract;

    impl super::ri0::Shapes0 for Contract {
        type Error = StdError;
        fn a1_b2(&self, _ctx: ExecCtx, first: u32, second: u32) -> StdResult<Response> { Ok(Response::new()) }
        fn foo_bar2(&self, _ctx: ExecCtx, first: u32, second: u32) -> StdResult<Response> { Ok(Response::new()) }
        fn a(&self, _ctx: ExecCtx, first: u32, second: u32) -> StdResult<Response> { Ok(Response::new()) }
        fn foo2_bar(&self, _ctx: QueryCtx, first: u32, second: u32) -> StdResult<Resp> { Ok(Resp {}) }
        fn step_2(&self, _ctx: QueryCtx, first: u32, second: u32) -> StdResult<Resp> { Ok(Resp {}) }
        fn a_b_c(&self, _ctx: QueryCtx, first: u32, second: u32) -> StdResult<Resp> { Ok(Resp {}) }
        fn v1(&self, _ctx: SudoCtx, first: u32, second: u32) -> StdResult<Response> { Ok(Response::new()) }
        fn x1y(&self, _ctx: SudoCtx, first: u32, second: u32) -> StdResult<Response> { Ok(Response::new()) }
        fn ab_cd_e(&self, _ctx: SudoCtx, first: u32, second: u32) -> StdResult<Response> { Ok(Response::new()) }
    }

    #[entry_points]
    #[contract]
    #[sv::messages(super::ri0 as Shapes0)]
    impl Contract {
        pub fn new() -> Self { Self }
        #[sv::msg(instantiate)]
        fn instantiate(&self, _ctx: InstantiateCtx) -> StdResult<Response> { Ok(Response::new()) }
        #[sv::msg(exec)]
        fn zz_own_exec(&self, _ctx: ExecCtx, first: u32, second: u32) -> StdResult<Response> { Ok(Response::new()) }
        #[sv::msg(query)]
        fn zz_own_query(&self, _ctx: QueryCtx, first: u32, second: u32) -> StdResult<Resp> { Ok(Resp {}) }
    }
}

pub mod rc1 {
    use super::*;
    pub struct Contract;

    #[entry_points]
    #[contract]
    impl Contract {
        pub fn new() -> Self { Self }
        #[sv::msg(instantiate)]
        fn instantiate(&self, _ctx: InstantiateCtx) -> StdResult<Response> { Ok(Response::new()) }
        #[sv::msg(exec)]
        fn _lead(&self, _ctx: ExecCtx, first: u32, second: u32) -> StdResult<Response> { Ok(Response::new()) }
        #[sv::msg(exec)]
        fn trail_(&self, _ctx: ExecCtx, first: u32, second: u32) -> StdResult<Response> { Ok(Response::new()) }
        #[sv::msg(exec)]
        fn a__b(&self, _ctx: ExecCtx, first: u32, second: u32) -> StdResult<Response> { Ok(Response::new()) }
        #[sv::msg(query)]
        fn __x__y(&self, _ctx: QueryCtx, first: u32, second: u32) -> StdResult<Resp> { Ok(Resp {}) }
        #[sv::msg(query)]
        fn get_v2_info(&self, _ctx: QueryCtx, first: u32, second: u32) -> StdResult<Resp> { Ok(Resp {}) }
        #[sv::msg(query)]
        fn s3_key_7(&self, _ctx: QueryCtx, first: u32, second: u32) -> StdResult<Resp> { Ok(Resp {}) }
        #[sv::msg(sudo)]
        fn überweisen(&self, _ctx: SudoCtx, first: u32, second: u32) -> StdResult<Response> { Ok(Response::new()) }
        #[sv::msg(sudo)]
        fn konto_ändern(&self, _ctx: SudoCtx, first: u32, second: u32) -> StdResult<Response> { Ok(Response::new()) }
        #[sv::msg(sudo)]
        fn zurück_setzen(&self, _ctx: SudoCtx, first: u32, second: u32) -> StdResult<Response> { Ok(Response::new()) }
    }
}

pub mod ri1 {
    use super::*;
    #[interface]
    #[sv::custom(msg = sylvia::cw_std::Empty, query = sylvia::cw_std::Empty)]
    pub trait Shapes1 {
        type Error: From<StdError>;
        #[sv::msg(exec)]
        fn überweisen(&self, ctx: ExecCtx, first: u32, second: u32) -> Result<Response, Self::Error>;
        #[sv::msg(exec)]
        fn konto_ändern(&self, ctx: ExecCtx, first: u32, second: u32) -> Result<Response, Self::Error>;
        #[sv::msg(exec)]
        fn zurück_setzen(&self, ctx: ExecCtx, first: u32, second: u32) -> Result<Response, Self::Error>;
        #[sv::msg(query)]
        fn _lead(&self, ctx: QueryCtx, first: u32, second: u32) -> Result<Resp, Self::Error>;
        #[sv::msg(query)]
        fn trail_(&self, ctx: QueryCtx, first: u32, second: u32) -> Result<Resp, Self::Error>;
        #[sv::msg(query)]
        fn a__b(&self, ctx: QueryCtx, first: u32, second: u32) -> Result<Resp, Self::Error>;
        #[sv::msg(sudo)]
        fn __x__y(&self, ctx: SudoCtx, first: u32, second: u32) -> Result<Response, Self::Error>;
        #[sv::msg(sudo)]
        fn get_v2_info(&self, ctx: SudoCtx, first: u32, second: u32) -> Result<Response, Self::Error>;
        #[sv::msg(sudo)]
        fn s3_key_7(&self, ctx: SudoCtx, first: u32, second: u32) -> Result<Response, Self::Error>;
    }
}

pub mod ru1 {
    use super::*;
    pub struct Contract;

    impl super::ri1::Shapes1 for Contract {
        type Error = StdError;
        fn überweisen(&self, _ctx: ExecCtx, first: u32, second: u32) -> StdResult<Response> { Ok(Response::new()) }
        fn konto_ändern(&self, _ctx: ExecCtx, first: u32, second: u32) -> StdResult<Response> { Ok(Response::new()) }
        fn zurück_setzen(&self, _ctx: ExecCtx, first: u32, second: u32) -> StdResult<Response> { Ok(Response::new()) }
        fn _lead(&self, _ctx: QueryCtx, first: u32, second: u32) -> StdResult<Resp> { Ok(Resp {}) }
        fn trail_(&self, _ctx: QueryCtx, first: u32, second: u32) -> StdResult<Resp> { Ok(Resp {}) }
        fn a__b(&self, _ctx: QueryCtx, first: u32, second: u32) -> StdResult<Resp> { Ok(Resp {}) }
        fn __x__y(&self, _ctx: SudoCtx, first: u32, second: u32) -> StdResult<Response> { Ok(Response::new()) }
        fn get_v2_info(&self, _ctx: SudoCtx, first: u32, second: u32) -> StdResult<Response> { Ok(Response::new()) }
        fn s3_key_7(&self, _ctx: SudoCtx, first: u32, second: u32) -> StdResult<Response> { Ok(Response::new()) }
    }

    #[entry_points]
    #[contract]
    #[sv::messages(super::ri1 as Shapes1)]
    impl Contract {
        pub fn new() -> Self { Self }
        #[sv::msg(instantiate)]
        fn instantiate(&self, _ctx: InstantiateCtx) -> StdResult<Response> { Ok(Response::new()) }
        #[sv::msg(exec)]
        fn zz_own_exec(&self, _ctx: ExecCtx, first: u32, second: u32) -> StdResult<Response> { Ok(Response::new()) }
        #[sv::msg(query)]
        fn zz_own_query(&self, _ctx: QueryCtx, first: u32, second: u32) -> StdResult<Resp> { Ok(Resp {}) }
    }
}

pub mod twin_exec_instantiate {
    use super::*;
    pub struct Contract;

    #[entry_points]
    #[contract]
    impl Contract {
        pub fn new() -> Self { Self }
        #[sv::msg(instantiate)]
        fn setup1(&self, _ctx: InstantiateCtx, owner: String) -> StdResult<Response> { Ok(Response::new().add_attribute("kind", "instantiate")) }
        #[sv::msg(exec)]
        fn setup_1(&self, _ctx: ExecCtx, owner: String) -> StdResult<Response> { Ok(Response::new().add_attribute("kind", "exec")) }
        #[sv::msg(exec)]
        fn plain(&self, _ctx: ExecCtx) -> StdResult<Response> { Ok(Response::new()) }
    }
}
