//@ props: C15 C16 C01 C02 C19
//@ expect: pass
//@ what: generic shapes: parameter used directly / only nested in Vec<Option<_>> / only in a query response / only via resp= / unused / bound relating two parameters / lifetime parameter; interface with associated types used per kind; each module ends with a use-site naming, building and dispatching the message types with only the predicted parameters
#![allow(dead_code, unused_variables, clippy::new_without_default, clippy::type_complexity)]
use sylvia::ctx::{ExecCtx, InstantiateCtx, MigrateCtx, QueryCtx, SudoCtx};
use sylvia::cw_std::{Response, StdError, StdResult};
use sylvia::types::CustomMsg;
use sylvia::{contract, interface};

#[sylvia::cw_schema::cw_serde]
pub struct Plain {}

/// A: direct exec arg; B: nested only; C0: only query response; D0: only resp=; E: unused; F: only instantiate; G0: only migrate
pub mod shapes {
    use super::*;

    pub struct Contract<A, B, C0, D0, E, F, G0> {
        _p: std::marker::PhantomData<(A, B, C0, D0, E, F, G0)>,
    }

    #[contract]
    impl<A, B, C0, D0, E, F, G0> Contract<A, B, C0, D0, E, F, G0>
    where
        A: CustomMsg + 'static,
        B: CustomMsg + 'static,
        C0: CustomMsg + 'static,
        D0: CustomMsg + 'static,
        E: 'static,
        F: CustomMsg + 'static,
        G0: CustomMsg + 'static,
    {
        pub fn new() -> Self {
            Self { _p: std::marker::PhantomData }
        }
        #[sv::msg(instantiate)]
        fn instantiate(&self, _ctx: InstantiateCtx, f: F) -> StdResult<Response> {
            Ok(Response::new())
        }
        #[sv::msg(migrate)]
        fn migrate(&self, _ctx: MigrateCtx, g: Option<G0>) -> StdResult<Response> {
            Ok(Response::new())
        }
        #[sv::msg(exec)]
        fn direct(&self, _ctx: ExecCtx, a: A) -> StdResult<Response> {
            Ok(Response::new())
        }
        #[sv::msg(exec)]
        fn nested(&self, _ctx: ExecCtx, b: Vec<Option<(u8, B)>>) -> StdResult<Response> {
            Ok(Response::new())
        }
        #[sv::msg(query)]
        fn only_response(&self, _ctx: QueryCtx) -> StdResult<C0> {
            unimplemented!()
        }
        #[sv::msg(query, resp = D0)]
        fn only_resp_attr(&self, _ctx: QueryCtx) -> StdResult<D0> {
            unimplemented!()
        }
        #[sv::msg(sudo)]
        fn no_generics(&self, _ctx: SudoCtx, n: u32) -> StdResult<Response> {
            Ok(Response::new())
        }
    }

    pub fn use_site() {
        use sylvia::cw_std::Empty;
        // named and built with exactly the predicted parameters
        let e: sv::ExecMsg<Empty, Empty> = sv::ExecMsg::direct(Empty {});
        let e2: sv::ExecMsg<Empty, Empty> = sv::ExecMsg::nested(vec![None]);
        let q: sv::QueryMsg<Empty, Empty> = sv::QueryMsg::only_response();
        let s: sv::SudoMsg = sv::SudoMsg::no_generics(1);
        let i: sv::InstantiateMsg<Empty> = sv::InstantiateMsg::new(Empty {});
        let m: sv::MigrateMsg<Empty> = sv::MigrateMsg::new(None);
        let _ = sylvia::cw_std::to_json_binary(&e);
        let _ = sylvia::cw_std::to_json_binary(&q);
        let _ = (e2, s, i, m);
    }

    pub fn dispatch_site(deps: sylvia::cw_std::DepsMut, env: sylvia::cw_std::Env, info: sylvia::cw_std::MessageInfo) {
        use sylvia::cw_std::Empty;
        let c: Contract<Empty, Empty, Empty, Empty, u8, Empty, Empty> = Contract::new();
        let e: sv::ExecMsg<Empty, Empty> = sv::ExecMsg::direct(Empty {});
        let _ = e.dispatch(&c, (deps, env, info));
    }
}

/// a bound relating two parameters: kept only on a type that has both
pub mod relating {
    use super::*;

    pub trait Pairs<T> {}
    impl<T, U> Pairs<T> for U {}

    pub struct Contract<X, Y> {
        _p: std::marker::PhantomData<(X, Y)>,
    }

    #[contract]
    impl<X, Y> Contract<X, Y>
    where
        X: CustomMsg + Pairs<Y> + 'static,
        Y: CustomMsg + 'static,
    {
        pub fn new() -> Self {
            Self { _p: std::marker::PhantomData }
        }
        #[sv::msg(instantiate)]
        fn instantiate(&self, _ctx: InstantiateCtx) -> StdResult<Response> {
            Ok(Response::new())
        }
        #[sv::msg(exec)]
        fn only_x(&self, _ctx: ExecCtx, x: X) -> StdResult<Response> {
            Ok(Response::new())
        }
        /// a struct message that uses the bounded parameter X but not Y: the relating bound `X: Pairs<Y>` must not be kept on it
        #[sv::msg(migrate)]
        fn migrate(&self, _ctx: MigrateCtx, x: X) -> StdResult<Response> {
            Ok(Response::new())
        }
        #[sv::msg(query)]
        fn both(&self, _ctx: QueryCtx, x: X, y: Y) -> StdResult<Plain> {
            Ok(Plain {})
        }
    }

    pub fn use_site() {
        use sylvia::cw_std::Empty;
        let m: sv::MigrateMsg<Empty> = sv::MigrateMsg::new(Empty {});
        let e: sv::ExecMsg<Empty> = sv::ExecMsg::only_x(Empty {});
        let q: sv::QueryMsg<Empty, Empty> = sv::QueryMsg::both(Empty {}, Empty {});
        let _ = (e, q);
    }
}

/// lifetime parameter on the contract
pub mod lifetime {
    use super::*;

    pub struct Contract<'a, T> {
        _p: std::marker::PhantomData<&'a T>,
    }

    #[contract]
    impl<'a, T> Contract<'a, T>
    where
        T: CustomMsg + 'static,
    {
        pub fn new() -> Self {
            Self { _p: std::marker::PhantomData }
        }
        #[sv::msg(instantiate)]
        fn instantiate(&self, _ctx: InstantiateCtx) -> StdResult<Response> {
            Ok(Response::new())
        }
        #[sv::msg(exec)]
        fn run(&self, _ctx: ExecCtx, t: T) -> StdResult<Response> {
            Ok(Response::new())
        }
    }
}

/// interface with associated types, each used by a different kind; one unused
pub mod assoc {
    use super::*;

    #[interface]
    #[sv::custom(msg = sylvia::cw_std::Empty, query = sylvia::cw_std::Empty)]
    pub trait Assoc {
        type Error: From<StdError>;
        type InExec: CustomMsg;
        type InQuery: CustomMsg;
        type Ret: CustomMsg;
        type InSudo: CustomMsg;
        type Nowhere: CustomMsg;

        #[sv::msg(exec)]
        fn e(&self, ctx: ExecCtx, a: Self::InExec) -> Result<Response, Self::Error>;
        #[sv::msg(query)]
        fn q(&self, ctx: QueryCtx, a: Vec<Self::InQuery>) -> Result<Self::Ret, Self::Error>;
        #[sv::msg(sudo)]
        fn s(&self, ctx: SudoCtx, a: Option<Self::InSudo>) -> Result<Response, Self::Error>;
    }

    pub fn use_site() {
        use sylvia::cw_std::Empty;
        let e: sv::ExecMsg<Empty> = sv::ExecMsg::e(Empty {});
        let q: sv::QueryMsg<Empty, Empty> = sv::QueryMsg::q(vec![]);
        let s: sv::SudoMsg<Empty> = sv::SudoMsg::s(None);
        let _ = (e, q, s);
    }
}

/// explicit `resp=` that differs from the Ok type of a literally spelled Result / StdResult (the attribute wins)
pub mod resp_differs {
    use super::*;

    #[sylvia::cw_schema::cw_serde]
    pub struct PublicResp {}
    #[sylvia::cw_schema::cw_serde]
    pub struct InternalResp {}

    pub mod info {
        use super::*;
        #[interface]
        #[sv::custom(msg = sylvia::cw_std::Empty, query = sylvia::cw_std::Empty)]
        pub trait Info {
            type Error: From<StdError>;
            #[sv::msg(query, resp = PublicResp)]
            fn iface_info(&self, ctx: QueryCtx) -> Result<InternalResp, Self::Error>;
            #[sv::msg(query)]
            fn iface_plain(&self, ctx: QueryCtx) -> Result<InternalResp, Self::Error>;
        }
    }

    pub struct Contract;

    #[contract]
    impl Contract {
        pub fn new() -> Self {
            Self
        }
        #[sv::msg(instantiate)]
        fn instantiate(&self, _ctx: InstantiateCtx) -> StdResult<Response> {
            Ok(Response::new())
        }
        #[sv::msg(query, resp = PublicResp)]
        fn contract_info(&self, _ctx: QueryCtx) -> StdResult<InternalResp> {
            Ok(InternalResp {})
        }
        #[sv::msg(query, resp = PublicResp)]
        fn contract_info2(&self, _ctx: QueryCtx) -> Result<InternalResp, StdError> {
            Ok(InternalResp {})
        }
        #[sv::msg(query)]
        fn contract_plain(&self, _ctx: QueryCtx) -> StdResult<InternalResp> {
            Ok(InternalResp {})
        }
    }
}

/// type parameters whose names equal the last segment of qualified concrete types used in messages that do NOT use the parameter:
/// how a parameter is spelled must not change which messages are generic over it
pub mod param_named_like_type {
    use super::*;

    pub mod settings {
        #[sylvia::cw_schema::cw_serde]
        pub struct Param {
            pub n: u32,
        }
        #[sylvia::cw_schema::cw_serde]
        pub struct Msg {}
    }

    pub struct Contract<Param, Msg> {
        _p: std::marker::PhantomData<(Param, Msg)>,
    }

    #[contract]
    impl<Param, Msg> Contract<Param, Msg>
    where
        Param: CustomMsg + 'static,
        Msg: CustomMsg + 'static,
    {
        pub fn new() -> Self {
            Self { _p: std::marker::PhantomData }
        }
        #[sv::msg(instantiate)]
        fn instantiate(&self, _ctx: InstantiateCtx, p: settings::Param) -> StdResult<Response> {
            Ok(Response::new())
        }
        #[sv::msg(migrate)]
        fn migrate(&self, _ctx: MigrateCtx, p: Vec<self::settings::Msg>) -> StdResult<Response> {
            Ok(Response::new())
        }
        #[sv::msg(exec)]
        fn concrete(&self, _ctx: ExecCtx, p: settings::Param, m: Option<settings::Msg>) -> StdResult<Response> {
            Ok(Response::new())
        }
        #[sv::msg(query)]
        fn generic_resp(&self, _ctx: QueryCtx) -> StdResult<Param> {
            unimplemented!()
        }
        #[sv::msg(sudo)]
        fn generic_arg(&self, _ctx: SudoCtx, m: Vec<Msg>, p: settings::Param) -> StdResult<Response> {
            Ok(Response::new())
        }
    }

    pub mod iface {
        use super::*;
        #[interface]
        #[sv::custom(msg = sylvia::cw_std::Empty, query = sylvia::cw_std::Empty)]
        pub trait Named {
            type Error: From<StdError>;
            type Param: CustomMsg;

            #[sv::msg(exec)]
            fn e(&self, ctx: ExecCtx, a: settings::Param) -> Result<Response, Self::Error>;
            #[sv::msg(query)]
            fn q(&self, ctx: QueryCtx) -> Result<Self::Param, Self::Error>;
        }

        pub fn use_site() {
            use sylvia::cw_std::Empty;
            let e: sv::ExecMsg = sv::ExecMsg::e(settings::Param { n: 1 });
            let q: sv::QueryMsg<Empty> = sv::QueryMsg::q();
            let _ = (e, q);
        }
    }

    pub fn use_site() {
        use sylvia::cw_std::Empty;
        let i: sv::InstantiateMsg = sv::InstantiateMsg::new(settings::Param { n: 1 });
        let m: sv::MigrateMsg = sv::MigrateMsg::new(vec![]);
        let e: sv::ExecMsg = sv::ExecMsg::concrete(settings::Param { n: 1 }, None);
        let q: sv::QueryMsg<Empty> = sv::QueryMsg::generic_resp();
        let s: sv::SudoMsg<Empty> = sv::SudoMsg::generic_arg(vec![], settings::Param { n: 2 });
        let _ = (i, m, e, q, s);
    }
}

/// a parameter used again after another one in the same message kind (A, B, A): each message is generic over each used parameter
/// ONCE. First mentions are in declaration order here; C14's permuted builds turn them around (first mention out of declaration order).
pub mod reuse_and_order {
    use super::*;

    pub struct Contract<A, B, C0> {
        _p: std::marker::PhantomData<(A, B, C0)>,
    }

    #[contract]
    impl<A, B, C0> Contract<A, B, C0>
    where
        A: CustomMsg + 'static,
        B: CustomMsg + 'static,
        C0: CustomMsg + 'static,
    {
        pub fn new() -> Self {
            Self { _p: std::marker::PhantomData }
        }
        #[sv::msg(instantiate)]
        fn instantiate(&self, _ctx: InstantiateCtx, a: A, b: B, a2: A) -> StdResult<Response> {
            Ok(Response::new())
        }
        #[sv::msg(exec)]
        fn transfer(&self, _ctx: ExecCtx, from: A, amount: B, to: A) -> StdResult<Response> {
            Ok(Response::new())
        }
        #[sv::msg(exec)]
        fn again(&self, _ctx: ExecCtx, who: A) -> StdResult<Response> {
            Ok(Response::new())
        }
        #[sv::msg(query)]
        fn takes_a_returns_c(&self, _ctx: QueryCtx, a: A) -> StdResult<C0> {
            unimplemented!()
        }
        #[sv::msg(query)]
        fn takes_a_again(&self, _ctx: QueryCtx, a: Vec<A>) -> StdResult<Plain> {
            unimplemented!()
        }
        #[sv::msg(sudo)]
        fn store_b(&self, _ctx: SudoCtx, b: B) -> StdResult<Response> {
            Ok(Response::new())
        }
        #[sv::msg(sudo)]
        fn store_c(&self, _ctx: SudoCtx, c: C0, b: B) -> StdResult<Response> {
            Ok(Response::new())
        }
    }

    pub mod escrow {
        use super::*;
        #[interface]
        #[sv::custom(msg = sylvia::cw_std::Empty, query = sylvia::cw_std::Empty)]
        pub trait Escrow {
            type Error: From<StdError>;
            type PartyT: CustomMsg;
            type AssetT: CustomMsg;

            #[sv::msg(exec)]
            fn lock(&self, ctx: ExecCtx, payer: Self::PartyT, asset: Self::AssetT, payee: Self::PartyT) -> Result<Response, Self::Error>;
            #[sv::msg(sudo)]
            fn seize(&self, ctx: SudoCtx, from: Self::PartyT, asset: Self::AssetT, to: Self::PartyT) -> Result<Response, Self::Error>;
        }

        pub fn use_site() {
            use sylvia::cw_std::Empty;
            let e: sv::ExecMsg<Empty, Empty> = sv::ExecMsg::lock(Empty {}, Empty {}, Empty {});
            let s: sv::SudoMsg<Empty, Empty> = sv::SudoMsg::seize(Empty {}, Empty {}, Empty {});
            let _ = (e, s);
        }
    }

    pub fn use_site() {
        use sylvia::cw_std::Empty;
        let i: sv::InstantiateMsg<Empty, Empty> = sv::InstantiateMsg::new(Empty {}, Empty {}, Empty {});
        let e: sv::ExecMsg<Empty, Empty> = sv::ExecMsg::transfer(Empty {}, Empty {}, Empty {});
        let q: sv::QueryMsg<Empty, Empty> = sv::QueryMsg::takes_a_returns_c(Empty {});
        let s: sv::SudoMsg<Empty, Empty> = sv::SudoMsg::store_b(Empty {});
        let _ = (i, e, q, s);
    }
}

/// two interfaces whose module paths end in the same segment (two versions of one interface, told apart with `as`): every
/// per-interface table, accessor and arm is keyed by the declaration, never by the last path segment
pub mod same_last_segment {
    use super::*;

    pub mod v1 {
        pub mod admin {
            use crate::Plain;
            use sylvia::ctx::{ExecCtx, QueryCtx};
            use sylvia::cw_std::{Response, StdError};
            use sylvia::interface;

            #[interface]
            #[sv::custom(msg = sylvia::cw_std::Empty, query = sylvia::cw_std::Empty)]
            pub trait Admin {
                type Error: From<StdError>;
                #[sv::msg(exec)]
                fn legacy_set_admin(&self, ctx: ExecCtx, admin: String) -> Result<Response, Self::Error>;
                #[sv::msg(query)]
                fn legacy_admin(&self, ctx: QueryCtx) -> Result<Plain, Self::Error>;
            }
        }
    }
    pub mod v2 {
        pub mod admin {
            use sylvia::ctx::{ExecCtx, QueryCtx, SudoCtx};
            use sylvia::cw_std::{Response, StdError};
            use sylvia::interface;

            #[sylvia::cw_schema::cw_serde]
            pub struct AdminList {
                pub admins: Vec<String>,
            }

            #[interface]
            #[sv::custom(msg = sylvia::cw_std::Empty, query = sylvia::cw_std::Empty)]
            pub trait Admin {
                type Error: From<StdError>;
                #[sv::msg(exec)]
                fn add_admin(&self, ctx: ExecCtx, admin: String) -> Result<Response, Self::Error>;
                #[sv::msg(query)]
                fn admin_list(&self, ctx: QueryCtx) -> Result<AdminList, Self::Error>;
                #[sv::msg(sudo)]
                fn reset_admins(&self, ctx: SudoCtx) -> Result<Response, Self::Error>;
            }
        }
    }

    pub struct Contract;

    impl v1::admin::Admin for Contract {
        type Error = StdError;
        fn legacy_set_admin(&self, _ctx: ExecCtx, admin: String) -> StdResult<Response> {
            Ok(Response::new())
        }
        fn legacy_admin(&self, _ctx: QueryCtx) -> StdResult<Plain> {
            Ok(Plain {})
        }
    }
    impl v2::admin::Admin for Contract {
        type Error = StdError;
        fn add_admin(&self, _ctx: ExecCtx, admin: String) -> StdResult<Response> {
            Ok(Response::new())
        }
        fn admin_list(&self, _ctx: QueryCtx) -> StdResult<v2::admin::AdminList> {
            Ok(v2::admin::AdminList { admins: vec![] })
        }
        fn reset_admins(&self, _ctx: SudoCtx) -> StdResult<Response> {
            Ok(Response::new())
        }
    }

    #[contract]
    #[sv::messages(v1::admin as AdminV1)]
    #[sv::messages(v2::admin as AdminV2)]
    impl Contract {
        pub fn new() -> Self {
            Self
        }
        #[sv::msg(instantiate)]
        fn instantiate(&self, _ctx: InstantiateCtx) -> StdResult<Response> {
            Ok(Response::new())
        }
        #[sv::msg(query)]
        fn owner(&self, _ctx: QueryCtx) -> StdResult<Plain> {
            Ok(Plain {})
        }
    }
}
