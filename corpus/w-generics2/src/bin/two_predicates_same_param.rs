//@ props: C15
//@ expect: pass
//@ index: no
//@ what: a where clause with two predicates on the same parameter (`X: CustomMsg + 'static, X: Pairs<Y>`) is an ordinary where clause; the generic contract must compile
#![allow(dead_code, unused_variables, clippy::new_without_default)]
use sylvia::contract;
use sylvia::ctx::{ExecCtx, InstantiateCtx, QueryCtx};
use sylvia::cw_std::{Response, StdResult};
use sylvia::types::CustomMsg;

pub trait Pairs<T> {}
impl<T, U> Pairs<T> for U {}

pub struct Contract<X, Y> {
    _p: std::marker::PhantomData<(X, Y)>,
}

#[contract]
impl<X, Y> Contract<X, Y>
where
    X: CustomMsg + 'static,
    Y: CustomMsg + 'static,
    X: Pairs<Y>,
{
    pub fn new() -> Self {
        Self { _p: std::marker::PhantomData }
    }
    #[sv::msg(instantiate)]
    fn instantiate(&self, _ctx: InstantiateCtx) -> StdResult<Response> {
        Ok(Response::new())
    }
    #[sv::msg(exec)]
    fn only_x(&self, _ctx: ExecCtx, x: X) -> StdResult<Response> {
        Ok(Response::new())
    }
    #[sv::msg(query)]
    fn both(&self, _ctx: QueryCtx, x: X, y: Y) -> StdResult<sylvia::cw_std::Empty> {
        Ok(sylvia::cw_std::Empty {})
    }
}

fn main() {}
