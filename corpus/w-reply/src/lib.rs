//@ props: C07 C08 C09 C14
//@ expect: pass
//@ what: reply coverings (S, E, A, S+E in both orders, data on/off), payload shapes, multi-name, default name, data modes, generic contract
#![allow(dead_code, unused_imports, unused_variables, clippy::new_without_default)]
use sylvia::ctx::{ExecCtx, InstantiateCtx, QueryCtx, ReplyCtx};
use sylvia::cw_std::{Addr, Binary, Empty, Response, StdError, StdResult, SubMsgResult};
use sylvia::contract;

#[sylvia::cw_schema::cw_serde]
pub struct Payload { pub x: u32 }
#[sylvia::cw_schema::cw_serde]
pub struct Data { pub y: String }

pub mod cov_s {
    use super::*;
    pub struct Contract;

    #[contract]
    #[sv::features(replies)]
    impl Contract {
        pub fn new() -> Self { Self }
        #[sv::msg(instantiate)]
        fn instantiate(&self, _ctx: InstantiateCtx) -> StdResult<Response> { Ok(Response::new()) }
        #[sv::msg(reply, handlers=[h], reply_on=success)]
        fn on_ok(&self, _ctx: ReplyCtx, #[sv::payload(raw)] payload: Binary) -> StdResult<Response> { Ok(Response::new()) }
    }
}

pub mod cov_s_data {
    use super::*;
    pub struct Contract;

    #[contract]
    #[sv::features(replies)]
    impl Contract {
        pub fn new() -> Self { Self }
        #[sv::msg(instantiate)]
        fn instantiate(&self, _ctx: InstantiateCtx) -> StdResult<Response> { Ok(Response::new()) }
        #[sv::msg(reply, handlers=[h], reply_on=success)]
        fn on_ok(&self, _ctx: ReplyCtx, #[sv::data] data: Data, #[sv::payload(raw)] payload: Binary) -> StdResult<Response> { Ok(Response::new()) }
    }
}

pub mod cov_e {
    use super::*;
    pub struct Contract;

    #[contract]
    #[sv::features(replies)]
    impl Contract {
        pub fn new() -> Self { Self }
        #[sv::msg(instantiate)]
        fn instantiate(&self, _ctx: InstantiateCtx) -> StdResult<Response> { Ok(Response::new()) }
        #[sv::msg(reply, handlers=[h], reply_on=error)]
        fn on_err(&self, _ctx: ReplyCtx, error: String, #[sv::payload(raw)] payload: Binary) -> StdResult<Response> { Ok(Response::new()) }
    }
}

pub mod cov_a {
    use super::*;
    pub struct Contract;

    #[contract]
    #[sv::features(replies)]
    impl Contract {
        pub fn new() -> Self { Self }
        #[sv::msg(instantiate)]
        fn instantiate(&self, _ctx: InstantiateCtx) -> StdResult<Response> { Ok(Response::new()) }
        #[sv::msg(reply, handlers=[h], reply_on=always)]
        fn on_any(&self, _ctx: ReplyCtx, result: SubMsgResult, #[sv::payload(raw)] payload: Binary) -> StdResult<Response> { Ok(Response::new()) }
    }
}

pub mod cov_se {
    use super::*;
    pub struct Contract;

    #[contract]
    #[sv::features(replies)]
    impl Contract {
        pub fn new() -> Self { Self }
        #[sv::msg(instantiate)]
        fn instantiate(&self, _ctx: InstantiateCtx) -> StdResult<Response> { Ok(Response::new()) }
        #[sv::msg(reply, handlers=[h], reply_on=success)]
        fn on_ok(&self, _ctx: ReplyCtx, #[sv::payload(raw)] payload: Binary) -> StdResult<Response> { Ok(Response::new()) }
        #[sv::msg(reply, handlers=[h], reply_on=error)]
        fn on_err(&self, _ctx: ReplyCtx, error: String, #[sv::payload(raw)] payload: Binary) -> StdResult<Response> { Ok(Response::new()) }
    }
}

pub mod cov_es {
    use super::*;
    pub struct Contract;

    #[contract]
    #[sv::features(replies)]
    impl Contract {
        pub fn new() -> Self { Self }
        #[sv::msg(instantiate)]
        fn instantiate(&self, _ctx: InstantiateCtx) -> StdResult<Response> { Ok(Response::new()) }
        #[sv::msg(reply, handlers=[h], reply_on=error)]
        fn on_err(&self, _ctx: ReplyCtx, error: String, #[sv::payload(raw)] payload: Binary) -> StdResult<Response> { Ok(Response::new()) }
        #[sv::msg(reply, handlers=[h], reply_on=success)]
        fn on_ok(&self, _ctx: ReplyCtx, #[sv::payload(raw)] payload: Binary) -> StdResult<Response> { Ok(Response::new()) }
    }
}

pub mod cov_se_data {
    use super::*;
    pub struct Contract;

    #[contract]
    #[sv::features(replies)]
    impl Contract {
        pub fn new() -> Self { Self }
        #[sv::msg(instantiate)]
        fn instantiate(&self, _ctx: InstantiateCtx) -> StdResult<Response> { Ok(Response::new()) }
        #[sv::msg(reply, handlers=[h], reply_on=success)]
        fn on_ok(&self, _ctx: ReplyCtx, #[sv::data(opt)] data: Option<Data>, #[sv::payload(raw)] payload: Binary) -> StdResult<Response> { Ok(Response::new()) }
        #[sv::msg(reply, handlers=[h], reply_on=error)]
        fn on_err(&self, _ctx: ReplyCtx, error: String, #[sv::payload(raw)] payload: Binary) -> StdResult<Response> { Ok(Response::new()) }
    }
}

pub mod cov_es_data {
    use super::*;
    pub struct Contract;

    #[contract]
    #[sv::features(replies)]
    impl Contract {
        pub fn new() -> Self { Self }
        #[sv::msg(instantiate)]
        fn instantiate(&self, _ctx: InstantiateCtx) -> StdResult<Response> { Ok(Response::new()) }
        #[sv::msg(reply, handlers=[h], reply_on=error)]
        fn on_err(&self, _ctx: ReplyCtx, error: String, #[sv::payload(raw)] payload: Binary) -> StdResult<Response> { Ok(Response::new()) }
        #[sv::msg(reply, handlers=[h], reply_on=success)]
        fn on_ok(&self, _ctx: ReplyCtx, #[sv::data(opt)] data: Option<Data>, #[sv::payload(raw)] payload: Binary) -> StdResult<Response> { Ok(Response::new()) }
    }
}

pub mod pay_one_se {
    use super::*;
    pub struct Contract;

    #[contract]
    #[sv::features(replies)]
    impl Contract {
        pub fn new() -> Self { Self }
        #[sv::msg(instantiate)]
        fn instantiate(&self, _ctx: InstantiateCtx) -> StdResult<Response> { Ok(Response::new()) }
        #[sv::msg(reply, handlers=[h], reply_on=success)]
        fn on_ok(&self, _ctx: ReplyCtx, #[sv::data(raw)] data: Binary, first: Payload) -> StdResult<Response> { Ok(Response::new()) }
        #[sv::msg(reply, handlers=[h], reply_on=error)]
        fn on_err(&self, _ctx: ReplyCtx, error: String, first: Payload) -> StdResult<Response> { Ok(Response::new()) }
    }
}

pub mod pay_one_a {
    use super::*;
    pub struct Contract;

    #[contract]
    #[sv::features(replies)]
    impl Contract {
        pub fn new() -> Self { Self }
        #[sv::msg(instantiate)]
        fn instantiate(&self, _ctx: InstantiateCtx) -> StdResult<Response> { Ok(Response::new()) }
        #[sv::msg(reply, handlers=[h], reply_on=always)]
        fn on_any(&self, _ctx: ReplyCtx, result: SubMsgResult, first: Payload) -> StdResult<Response> { Ok(Response::new()) }
    }
}

pub mod pay_many_se {
    use super::*;
    pub struct Contract;

    #[contract]
    #[sv::features(replies)]
    impl Contract {
        pub fn new() -> Self { Self }
        #[sv::msg(instantiate)]
        fn instantiate(&self, _ctx: InstantiateCtx) -> StdResult<Response> { Ok(Response::new()) }
        #[sv::msg(reply, handlers=[h], reply_on=success)]
        fn on_ok(&self, _ctx: ReplyCtx, #[sv::data(raw)] data: Binary, first: u32, second: String, third: Addr) -> StdResult<Response> { Ok(Response::new()) }
        #[sv::msg(reply, handlers=[h], reply_on=error)]
        fn on_err(&self, _ctx: ReplyCtx, error: String, first: u32, second: String, third: Addr) -> StdResult<Response> { Ok(Response::new()) }
    }
}

pub mod pay_many_a {
    use super::*;
    pub struct Contract;

    #[contract]
    #[sv::features(replies)]
    impl Contract {
        pub fn new() -> Self { Self }
        #[sv::msg(instantiate)]
        fn instantiate(&self, _ctx: InstantiateCtx) -> StdResult<Response> { Ok(Response::new()) }
        #[sv::msg(reply, handlers=[h], reply_on=always)]
        fn on_any(&self, _ctx: ReplyCtx, result: SubMsgResult, first: u32, second: String, third: Addr) -> StdResult<Response> { Ok(Response::new()) }
    }
}

pub mod multi_name {
    use super::*;
    pub struct Contract;

    #[contract]
    #[sv::features(replies)]
    impl Contract {
        pub fn new() -> Self { Self }
        #[sv::msg(instantiate)]
        fn instantiate(&self, _ctx: InstantiateCtx) -> StdResult<Response> { Ok(Response::new()) }
        #[sv::msg(reply, handlers=[first, second], reply_on=success)]
        fn both_ok(&self, _ctx: ReplyCtx, #[sv::payload(raw)] payload: Binary) -> StdResult<Response> { Ok(Response::new()) }
        #[sv::msg(reply, handlers=[second], reply_on=error)]
        fn second_err(&self, _ctx: ReplyCtx, error: String, #[sv::payload(raw)] payload: Binary) -> StdResult<Response> { Ok(Response::new()) }
        #[sv::msg(reply, handlers=[third], reply_on=always)]
        fn third_any(&self, _ctx: ReplyCtx, result: SubMsgResult, #[sv::payload(raw)] payload: Binary) -> StdResult<Response> { Ok(Response::new()) }
    }
}

pub mod default_name {
    use super::*;
    pub struct Contract;

    #[contract]
    #[sv::features(replies)]
    impl Contract {
        pub fn new() -> Self { Self }
        #[sv::msg(instantiate)]
        fn instantiate(&self, _ctx: InstantiateCtx) -> StdResult<Response> { Ok(Response::new()) }
        #[sv::msg(reply, reply_on=success)]
        fn on_default(&self, _ctx: ReplyCtx, #[sv::payload(raw)] payload: Binary) -> StdResult<Response> { Ok(Response::new()) }
        #[sv::msg(reply, reply_on=error)]
        fn other_default(&self, _ctx: ReplyCtx, error: String, #[sv::payload(raw)] payload: Binary) -> StdResult<Response> { Ok(Response::new()) }
    }
}

pub mod name_shapes {
    use super::*;
    pub struct Contract;

    #[contract]
    #[sv::features(replies)]
    impl Contract {
        pub fn new() -> Self { Self }
        #[sv::msg(instantiate)]
        fn instantiate(&self, _ctx: InstantiateCtx) -> StdResult<Response> { Ok(Response::new()) }
        #[sv::msg(reply, handlers=[step2_go], reply_on=success)]
        fn a1(&self, _ctx: ReplyCtx, #[sv::payload(raw)] payload: Binary) -> StdResult<Response> { Ok(Response::new()) }
        #[sv::msg(reply, handlers=[a_b_c], reply_on=error)]
        fn a2(&self, _ctx: ReplyCtx, error: String, #[sv::payload(raw)] payload: Binary) -> StdResult<Response> { Ok(Response::new()) }
        #[sv::msg(reply, handlers=[x1y], reply_on=always)]
        fn a3(&self, _ctx: ReplyCtx, result: SubMsgResult, #[sv::payload(raw)] payload: Binary) -> StdResult<Response> { Ok(Response::new()) }
    }
}

pub mod data_typed {
    use super::*;
    pub struct Contract;

    #[contract]
    #[sv::features(replies)]
    impl Contract {
        pub fn new() -> Self { Self }
        #[sv::msg(instantiate)]
        fn instantiate(&self, _ctx: InstantiateCtx) -> StdResult<Response> { Ok(Response::new()) }
        #[sv::msg(reply, handlers=[h], reply_on=success)]
        fn on_ok(&self, _ctx: ReplyCtx, #[sv::data] data: Data, first: Payload) -> StdResult<Response> { Ok(Response::new()) }
    }
}

pub mod data_opt {
    use super::*;
    pub struct Contract;

    #[contract]
    #[sv::features(replies)]
    impl Contract {
        pub fn new() -> Self { Self }
        #[sv::msg(instantiate)]
        fn instantiate(&self, _ctx: InstantiateCtx) -> StdResult<Response> { Ok(Response::new()) }
        #[sv::msg(reply, handlers=[h], reply_on=success)]
        fn on_ok(&self, _ctx: ReplyCtx, #[sv::data(opt)] data: Option<Data>, first: Payload) -> StdResult<Response> { Ok(Response::new()) }
    }
}

pub mod data_raw {
    use super::*;
    pub struct Contract;

    #[contract]
    #[sv::features(replies)]
    impl Contract {
        pub fn new() -> Self { Self }
        #[sv::msg(instantiate)]
        fn instantiate(&self, _ctx: InstantiateCtx) -> StdResult<Response> { Ok(Response::new()) }
        #[sv::msg(reply, handlers=[h], reply_on=success)]
        fn on_ok(&self, _ctx: ReplyCtx, #[sv::data(raw)] data: Binary, first: Payload) -> StdResult<Response> { Ok(Response::new()) }
    }
}

pub mod data_raw_opt {
    use super::*;
    pub struct Contract;

    #[contract]
    #[sv::features(replies)]
    impl Contract {
        pub fn new() -> Self { Self }
        #[sv::msg(instantiate)]
        fn instantiate(&self, _ctx: InstantiateCtx) -> StdResult<Response> { Ok(Response::new()) }
        #[sv::msg(reply, handlers=[h], reply_on=success)]
        fn on_ok(&self, _ctx: ReplyCtx, #[sv::data(raw, opt)] data: Option<Binary>, first: Payload) -> StdResult<Response> { Ok(Response::new()) }
    }
}

pub mod data_inst {
    use super::*;
    pub struct Contract;

    #[contract]
    #[sv::features(replies)]
    impl Contract {
        pub fn new() -> Self { Self }
        #[sv::msg(instantiate)]
        fn instantiate(&self, _ctx: InstantiateCtx) -> StdResult<Response> { Ok(Response::new()) }
        #[sv::msg(reply, handlers=[h], reply_on=success)]
        fn on_ok(&self, _ctx: ReplyCtx, #[sv::data(instantiate)] data: sylvia::cw_utils::MsgInstantiateContractResponse, first: Payload) -> StdResult<Response> { Ok(Response::new()) }
    }
}

pub mod data_inst_opt {
    use super::*;
    pub struct Contract;

    #[contract]
    #[sv::features(replies)]
    impl Contract {
        pub fn new() -> Self { Self }
        #[sv::msg(instantiate)]
        fn instantiate(&self, _ctx: InstantiateCtx) -> StdResult<Response> { Ok(Response::new()) }
        #[sv::msg(reply, handlers=[h], reply_on=success)]
        fn on_ok(&self, _ctx: ReplyCtx, #[sv::data(instantiate, opt)] data: Option<sylvia::cw_utils::MsgInstantiateContractResponse>, first: Payload) -> StdResult<Response> { Ok(Response::new()) }
    }
}

pub mod data_typed_option_type {
    use super::*;
    pub struct Contract;

    #[contract]
    #[sv::features(replies)]
    impl Contract {
        pub fn new() -> Self { Self }
        #[sv::msg(instantiate)]
        fn instantiate(&self, _ctx: InstantiateCtx) -> StdResult<Response> { Ok(Response::new()) }
        #[sv::msg(reply, handlers=[done], reply_on=success)]
        fn on_done(&self, _ctx: ReplyCtx, #[sv::data] data: Option<Data>, first: Payload) -> StdResult<Response> { Ok(Response::new()) }
    }
}

pub mod data_typed_option_type_se {
    use super::*;
    pub struct Contract;

    #[contract]
    #[sv::features(replies)]
    impl Contract {
        pub fn new() -> Self { Self }
        #[sv::msg(instantiate)]
        fn instantiate(&self, _ctx: InstantiateCtx) -> StdResult<Response> { Ok(Response::new()) }
        #[sv::msg(reply, handlers=[done], reply_on=success)]
        fn on_done(&self, _ctx: ReplyCtx, #[sv::data] data: Option<Data>, first: Payload) -> StdResult<Response> { Ok(Response::new()) }
        #[sv::msg(reply, handlers=[done], reply_on=error)]
        fn on_fail(&self, _ctx: ReplyCtx, error: String, first: Payload) -> StdResult<Response> { Ok(Response::new()) }
    }
}

pub mod generic_se {
    use super::*;
    pub struct Contract<T> { _p: std::marker::PhantomData<T> }

    #[contract]
    #[sv::features(replies)]
    #[sv::custom(msg = T)]
    impl<T> Contract<T> where T: sylvia::types::CustomMsg + 'static {
        pub fn new() -> Self { Self { _p: std::marker::PhantomData } }
        #[sv::msg(instantiate)]
        fn instantiate(&self, _ctx: InstantiateCtx) -> StdResult<Response<T>> { Ok(Response::new()) }
        #[sv::msg(reply, handlers=[h], reply_on=success)]
        fn on_ok(&self, _ctx: ReplyCtx, #[sv::data] data: Data, #[sv::payload(raw)] payload: Binary) -> StdResult<Response<T>> { Ok(Response::new()) }
        #[sv::msg(reply, handlers=[h], reply_on=error)]
        fn on_err(&self, _ctx: ReplyCtx, error: String, #[sv::payload(raw)] payload: Binary) -> StdResult<Response<T>> { Ok(Response::new()) }
    }
}

pub mod payload_named_like_submsg_fields {
    use super::*;
    pub struct Contract;

    #[contract]
    #[sv::features(replies)]
    impl Contract {
        pub fn new() -> Self { Self }
        #[sv::msg(instantiate)]
        fn instantiate(&self, _ctx: InstantiateCtx) -> StdResult<Response> { Ok(Response::new()) }
        #[sv::msg(reply, handlers=[h], reply_on=always)]
        fn on_any(&self, _ctx: ReplyCtx, result: SubMsgResult, gas_limit: u64, msg: String) -> StdResult<Response> { Ok(Response::new()) }
    }
}

pub mod payload_named_like_dispatch_locals {
    use super::*;
    pub struct Contract;

    #[contract]
    #[sv::features(replies)]
    impl Contract {
        pub fn new() -> Self { Self }
        #[sv::msg(instantiate)]
        fn instantiate(&self, _ctx: InstantiateCtx) -> StdResult<Response> { Ok(Response::new()) }
        #[sv::msg(reply, handlers=[h], reply_on=success)]
        fn on_ok(&self, _ctx: ReplyCtx, gas_used: u64, note: String) -> StdResult<Response> { Ok(Response::new()) }
        #[sv::msg(reply, handlers=[h], reply_on=error)]
        fn on_err(&self, _ctx: ReplyCtx, error: String, gas_used: u64, note: String) -> StdResult<Response> { Ok(Response::new()) }
    }
}
