//@ props: C04 C01 C06 C08
//@ expect: pass
//@ what: `sv::msg` parameters on kinds they do not belong to (`reply_on=`/`handlers=` on exec/query/sudo/migrate/instantiate handlers, `resp=` on non-query handlers) are accepted by the parser; they must not change the kind the first argument names, the message the handler belongs to or what any entry point calls
#![allow(dead_code, unused_variables, deprecated, clippy::new_without_default)]
use sylvia::ctx::{ExecCtx, InstantiateCtx, MigrateCtx, QueryCtx, SudoCtx};
use sylvia::cw_std::{Binary, Reply, Response, StdError, StdResult};
use sylvia::{contract, entry_points, interface};

#[sylvia::cw_schema::cw_serde]
pub struct Resp {}

/// legacy reply wiring: a sudo / migrate handler whose shape fits the legacy reply call `(ctx from (DepsMut, Env), Reply)`
pub mod legacy_shapes {
    use super::*;
    pub struct Contract;

    #[entry_points]
    #[contract]
    impl Contract {
        pub fn new() -> Self {
            Self
        }
        #[sv::msg(instantiate, reply_on = success)]
        fn instantiate(&self, _ctx: InstantiateCtx) -> StdResult<Response> {
            Ok(Response::new())
        }
        #[sv::msg(exec, reply_on = error, handlers = [proposal_executed])]
        fn do_exec(&self, _ctx: ExecCtx, outcome: Reply) -> StdResult<Response> {
            Ok(Response::new())
        }
        #[sv::msg(query, reply_on = always, resp = Resp)]
        fn do_query(&self, _ctx: QueryCtx, outcome: Reply) -> StdResult<Resp> {
            Ok(Resp {})
        }
        #[sv::msg(sudo, reply_on = always)]
        fn proposal_executed(&self, _ctx: SudoCtx, outcome: Reply) -> StdResult<Response> {
            Ok(Response::new())
        }
        #[sv::msg(migrate, handlers = [proposal_executed], reply_on = success)]
        fn migrate(&self, _ctx: MigrateCtx, outcome: Reply) -> StdResult<Response> {
            Ok(Response::new())
        }
    }
}

/// the same with the `replies` feature and a genuine reply handler next to them
pub mod replies_shapes {
    use super::*;
    use sylvia::ctx::ReplyCtx;
    pub struct Contract;

    #[entry_points]
    #[contract]
    #[sv::features(replies)]
    impl Contract {
        pub fn new() -> Self {
            Self
        }
        #[sv::msg(instantiate, handlers = [on_done])]
        fn instantiate(&self, _ctx: InstantiateCtx) -> StdResult<Response> {
            Ok(Response::new())
        }
        #[sv::msg(exec, reply_on = success, handlers = [on_done])]
        fn do_exec(&self, _ctx: ExecCtx, data: Option<Binary>) -> StdResult<Response> {
            Ok(Response::new())
        }
        #[sv::msg(exec, resp = Resp)]
        fn other_exec(&self, _ctx: ExecCtx) -> StdResult<Response> {
            Ok(Response::new())
        }
        #[sv::msg(query, handlers = [on_done], reply_on = error)]
        fn do_query(&self, _ctx: QueryCtx) -> StdResult<Resp> {
            Ok(Resp {})
        }
        #[sv::msg(sudo, reply_on = error, handlers = [on_done])]
        fn do_sudo(&self, _ctx: SudoCtx, error: String) -> StdResult<Response> {
            Ok(Response::new())
        }
        #[sv::msg(migrate, reply_on = success)]
        fn migrate(&self, _ctx: MigrateCtx) -> StdResult<Response> {
            Ok(Response::new())
        }
        #[sv::msg(reply, handlers = [on_done], reply_on = success)]
        fn on_done(&self, _ctx: ReplyCtx, #[sv::data(raw, opt)] data: Option<Binary>, #[sv::payload(raw)] payload: Binary) -> StdResult<Response> {
            Ok(Response::new())
        }
    }
}

pub mod iface_shapes {
    use super::*;

    #[interface]
    pub trait Gov {
        type Error: From<StdError>;

        #[sv::msg(exec, reply_on = success, handlers = [x])]
        fn vote(&self, ctx: ExecCtx, outcome: Reply) -> Result<Response, Self::Error>;

        #[sv::msg(query, reply_on = error, resp = Resp)]
        fn tally(&self, ctx: QueryCtx) -> Result<Resp, Self::Error>;

        #[sv::msg(sudo, reply_on = always)]
        fn executed(&self, ctx: SudoCtx, outcome: Reply) -> Result<Response, Self::Error>;
    }
}
