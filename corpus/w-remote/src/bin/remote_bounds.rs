//@ props: C20
//@ expect: pass
//@ index: no
//@ what: Remote<'_, T> is Serialize + DeserializeOwned + JsonSchema for a concrete contract, an unsized `dyn Interface` with associated types, and a type that implements none of these traits itself
#![allow(dead_code)]
use sylvia::ctx::{ExecCtx, InstantiateCtx};
use sylvia::cw_std::{Addr, Response, StdError, StdResult};
use sylvia::types::Remote;
use sylvia::{contract, interface};

pub mod iface {
    use super::*;
    #[interface]
    pub trait Iface {
        type Error: From<StdError>;
        type ExecC: sylvia::types::CustomMsg;
        type QueryC: sylvia::types::CustomQuery;
        type Extra: Clone;
        #[sv::msg(exec)]
        fn poke(&self, ctx: ExecCtx<Self::QueryC>) -> Result<Response<Self::ExecC>, Self::Error>;
    }
}

pub struct Contract;

#[contract]
impl Contract {
    pub fn new() -> Self {
        Self
    }
    #[sv::msg(instantiate)]
    fn instantiate(&self, _ctx: InstantiateCtx) -> StdResult<Response> {
        Ok(Response::new())
    }
}

/// A type with no trait impls at all (not Serialize, not JsonSchema, not Clone, not Sized-friendly).
pub struct Opaque(*const u8);

fn assert_codec<T: serde::Serialize + serde::de::DeserializeOwned + schemars::JsonSchema>() {}

fn witnesses() {
    assert_codec::<Remote<'static, Contract>>();
    assert_codec::<Remote<'static, Opaque>>();
    assert_codec::<Remote<'static, dyn iface::Iface<Error = StdError, ExecC = sylvia::cw_std::Empty, QueryC = sylvia::cw_std::Empty, Extra = u8>>>();
    assert_codec::<Remote<'static, str>>();
    // owned and borrowed handles have the same type
    let a = Addr::unchecked("x");
    let owned: Remote<'_, Contract> = Remote::new(a.clone());
    let borrowed: Remote<'_, Contract> = Remote::borrowed(&a);
    let _same: [Remote<'_, Contract>; 2] = [owned, borrowed];
}

fn main() {}
