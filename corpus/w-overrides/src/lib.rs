//@ props: C06 C12 C04
//@ expect: pass
//@ what: override subsets (quick): each kind alone, pairs, all, none; migrate/reply handlers present/absent; replies on/off; generic
#![allow(dead_code, unused_imports, deprecated, clippy::new_without_default)]
use sylvia::ctx::{ExecCtx, InstantiateCtx, MigrateCtx, QueryCtx, ReplyCtx, SudoCtx};
use sylvia::cw_std::{Binary, Deps, DepsMut, Empty, Env, MessageInfo, Reply, Response, StdError, StdResult};
use sylvia::{contract, entry_points};

#[sylvia::cw_schema::cw_serde]
pub struct Resp {}

pub mod ovr_inst_mr_r {
    use super::*;
    pub mod eps {
        use super::super::*;
        #[sylvia::cw_schema::cw_serde]
        pub struct CustomInstantiate {}
        pub fn instantiate(_deps: DepsMut, _env: Env, _info: MessageInfo, _msg: CustomInstantiate) -> StdResult<Response> { Ok(Response::new()) }
    }

    pub struct Contract;

    #[entry_points]
    #[contract]
    #[sv::features(replies)]
    #[sv::override_entry_point(instantiate=eps::instantiate(eps::CustomInstantiate))]
    impl Contract {
        pub fn new() -> Self { Self }
        #[sv::msg(instantiate)]
        fn instantiate(&self, _ctx: InstantiateCtx) -> StdResult<Response> { Ok(Response::new()) }
        #[sv::msg(exec)]
        fn do_exec(&self, _ctx: ExecCtx) -> StdResult<Response> { Ok(Response::new()) }
        #[sv::msg(query)]
        fn do_query(&self, _ctx: QueryCtx) -> StdResult<Resp> { Ok(Resp {}) }
        #[sv::msg(sudo)]
        fn do_sudo(&self, _ctx: SudoCtx) -> StdResult<Response> { Ok(Response::new()) }
        #[sv::msg(migrate)]
        fn migrate(&self, _ctx: MigrateCtx) -> StdResult<Response> { Ok(Response::new()) }
        #[sv::msg(reply, handlers=[on_done], reply_on=success)]
        fn on_done(&self, _ctx: ReplyCtx, #[sv::payload(raw)] _payload: Binary) -> StdResult<Response> { Ok(Response::new()) }
    }
}

pub mod ovr_exec_mr_r {
    use super::*;
    pub mod eps {
        use super::super::*;
        #[sylvia::cw_schema::cw_serde]
        pub struct CustomExec {}
        pub fn execute(_deps: DepsMut, _env: Env, _info: MessageInfo, _msg: CustomExec) -> StdResult<Response> { Ok(Response::new()) }
    }

    pub struct Contract;

    #[entry_points]
    #[contract]
    #[sv::features(replies)]
    #[sv::override_entry_point(exec=eps::execute(eps::CustomExec))]
    impl Contract {
        pub fn new() -> Self { Self }
        #[sv::msg(instantiate)]
        fn instantiate(&self, _ctx: InstantiateCtx) -> StdResult<Response> { Ok(Response::new()) }
        #[sv::msg(exec)]
        fn do_exec(&self, _ctx: ExecCtx) -> StdResult<Response> { Ok(Response::new()) }
        #[sv::msg(query)]
        fn do_query(&self, _ctx: QueryCtx) -> StdResult<Resp> { Ok(Resp {}) }
        #[sv::msg(sudo)]
        fn do_sudo(&self, _ctx: SudoCtx) -> StdResult<Response> { Ok(Response::new()) }
        #[sv::msg(migrate)]
        fn migrate(&self, _ctx: MigrateCtx) -> StdResult<Response> { Ok(Response::new()) }
        #[sv::msg(reply, handlers=[on_done], reply_on=success)]
        fn on_done(&self, _ctx: ReplyCtx, #[sv::payload(raw)] _payload: Binary) -> StdResult<Response> { Ok(Response::new()) }
    }
}

pub mod ovr_quer_mr_r {
    use super::*;
    pub mod eps {
        use super::super::*;
        #[sylvia::cw_schema::cw_serde]
        pub struct CustomQuery {}
        pub fn query(_deps: Deps, _env: Env, _msg: CustomQuery) -> StdResult<Binary> { Ok(Binary::default()) }
    }

    pub struct Contract;

    #[entry_points]
    #[contract]
    #[sv::features(replies)]
    #[sv::override_entry_point(query=eps::query(eps::CustomQuery))]
    impl Contract {
        pub fn new() -> Self { Self }
        #[sv::msg(instantiate)]
        fn instantiate(&self, _ctx: InstantiateCtx) -> StdResult<Response> { Ok(Response::new()) }
        #[sv::msg(exec)]
        fn do_exec(&self, _ctx: ExecCtx) -> StdResult<Response> { Ok(Response::new()) }
        #[sv::msg(query)]
        fn do_query(&self, _ctx: QueryCtx) -> StdResult<Resp> { Ok(Resp {}) }
        #[sv::msg(sudo)]
        fn do_sudo(&self, _ctx: SudoCtx) -> StdResult<Response> { Ok(Response::new()) }
        #[sv::msg(migrate)]
        fn migrate(&self, _ctx: MigrateCtx) -> StdResult<Response> { Ok(Response::new()) }
        #[sv::msg(reply, handlers=[on_done], reply_on=success)]
        fn on_done(&self, _ctx: ReplyCtx, #[sv::payload(raw)] _payload: Binary) -> StdResult<Response> { Ok(Response::new()) }
    }
}

pub mod ovr_sudo_mr_r {
    use super::*;
    pub mod eps {
        use super::super::*;
        #[sylvia::cw_schema::cw_serde]
        pub struct CustomSudo {}
        pub fn sudo(_deps: DepsMut, _env: Env, _msg: CustomSudo) -> StdResult<Response> { Ok(Response::new()) }
    }

    pub struct Contract;

    #[entry_points]
    #[contract]
    #[sv::features(replies)]
    #[sv::override_entry_point(sudo=eps::sudo(eps::CustomSudo))]
    impl Contract {
        pub fn new() -> Self { Self }
        #[sv::msg(instantiate)]
        fn instantiate(&self, _ctx: InstantiateCtx) -> StdResult<Response> { Ok(Response::new()) }
        #[sv::msg(exec)]
        fn do_exec(&self, _ctx: ExecCtx) -> StdResult<Response> { Ok(Response::new()) }
        #[sv::msg(query)]
        fn do_query(&self, _ctx: QueryCtx) -> StdResult<Resp> { Ok(Resp {}) }
        #[sv::msg(sudo)]
        fn do_sudo(&self, _ctx: SudoCtx) -> StdResult<Response> { Ok(Response::new()) }
        #[sv::msg(migrate)]
        fn migrate(&self, _ctx: MigrateCtx) -> StdResult<Response> { Ok(Response::new()) }
        #[sv::msg(reply, handlers=[on_done], reply_on=success)]
        fn on_done(&self, _ctx: ReplyCtx, #[sv::payload(raw)] _payload: Binary) -> StdResult<Response> { Ok(Response::new()) }
    }
}

pub mod ovr_migr_mr_r {
    use super::*;
    pub mod eps {
        use super::super::*;
        #[sylvia::cw_schema::cw_serde]
        pub struct CustomMigrate {}
        pub fn migrate(_deps: DepsMut, _env: Env, _msg: CustomMigrate) -> StdResult<Response> { Ok(Response::new()) }
    }

    pub struct Contract;

    #[entry_points]
    #[contract]
    #[sv::features(replies)]
    #[sv::override_entry_point(migrate=eps::migrate(eps::CustomMigrate))]
    impl Contract {
        pub fn new() -> Self { Self }
        #[sv::msg(instantiate)]
        fn instantiate(&self, _ctx: InstantiateCtx) -> StdResult<Response> { Ok(Response::new()) }
        #[sv::msg(exec)]
        fn do_exec(&self, _ctx: ExecCtx) -> StdResult<Response> { Ok(Response::new()) }
        #[sv::msg(query)]
        fn do_query(&self, _ctx: QueryCtx) -> StdResult<Resp> { Ok(Resp {}) }
        #[sv::msg(sudo)]
        fn do_sudo(&self, _ctx: SudoCtx) -> StdResult<Response> { Ok(Response::new()) }
        #[sv::msg(migrate)]
        fn migrate(&self, _ctx: MigrateCtx) -> StdResult<Response> { Ok(Response::new()) }
        #[sv::msg(reply, handlers=[on_done], reply_on=success)]
        fn on_done(&self, _ctx: ReplyCtx, #[sv::payload(raw)] _payload: Binary) -> StdResult<Response> { Ok(Response::new()) }
    }
}

pub mod ovr_repl_mr_r {
    use super::*;
    pub mod eps {
        use super::super::*;

        pub fn reply(_deps: DepsMut, _env: Env, _msg: Reply) -> StdResult<Response> { Ok(Response::new()) }
    }

    pub struct Contract;

    #[entry_points]
    #[contract]
    #[sv::features(replies)]
    #[sv::override_entry_point(reply=eps::reply(sylvia::cw_std::Reply))]
    impl Contract {
        pub fn new() -> Self { Self }
        #[sv::msg(instantiate)]
        fn instantiate(&self, _ctx: InstantiateCtx) -> StdResult<Response> { Ok(Response::new()) }
        #[sv::msg(exec)]
        fn do_exec(&self, _ctx: ExecCtx) -> StdResult<Response> { Ok(Response::new()) }
        #[sv::msg(query)]
        fn do_query(&self, _ctx: QueryCtx) -> StdResult<Resp> { Ok(Resp {}) }
        #[sv::msg(sudo)]
        fn do_sudo(&self, _ctx: SudoCtx) -> StdResult<Response> { Ok(Response::new()) }
        #[sv::msg(migrate)]
        fn migrate(&self, _ctx: MigrateCtx) -> StdResult<Response> { Ok(Response::new()) }
        #[sv::msg(reply, handlers=[on_done], reply_on=success)]
        fn on_done(&self, _ctx: ReplyCtx, #[sv::payload(raw)] _payload: Binary) -> StdResult<Response> { Ok(Response::new()) }
    }
}

pub mod ovr_migr_nomr {
    use super::*;
    pub mod eps {
        use super::super::*;
        #[sylvia::cw_schema::cw_serde]
        pub struct CustomMigrate {}
        pub fn migrate(_deps: DepsMut, _env: Env, _msg: CustomMigrate) -> StdResult<Response> { Ok(Response::new()) }
    }

    pub struct Contract;

    #[entry_points]
    #[contract]
    #[sv::override_entry_point(migrate=eps::migrate(eps::CustomMigrate))]
    impl Contract {
        pub fn new() -> Self { Self }
        #[sv::msg(instantiate)]
        fn instantiate(&self, _ctx: InstantiateCtx) -> StdResult<Response> { Ok(Response::new()) }
        #[sv::msg(exec)]
        fn do_exec(&self, _ctx: ExecCtx) -> StdResult<Response> { Ok(Response::new()) }
        #[sv::msg(query)]
        fn do_query(&self, _ctx: QueryCtx) -> StdResult<Resp> { Ok(Resp {}) }
        #[sv::msg(sudo)]
        fn do_sudo(&self, _ctx: SudoCtx) -> StdResult<Response> { Ok(Response::new()) }
    }
}

pub mod ovr_migr_mr_legacy {
    use super::*;
    pub mod eps {
        use super::super::*;
        #[sylvia::cw_schema::cw_serde]
        pub struct CustomMigrate {}
        pub fn migrate(_deps: DepsMut, _env: Env, _msg: CustomMigrate) -> StdResult<Response> { Ok(Response::new()) }
    }

    pub struct Contract;

    #[entry_points]
    #[contract]
    #[sv::override_entry_point(migrate=eps::migrate(eps::CustomMigrate))]
    impl Contract {
        pub fn new() -> Self { Self }
        #[sv::msg(instantiate)]
        fn instantiate(&self, _ctx: InstantiateCtx) -> StdResult<Response> { Ok(Response::new()) }
        #[sv::msg(exec)]
        fn do_exec(&self, _ctx: ExecCtx) -> StdResult<Response> { Ok(Response::new()) }
        #[sv::msg(query)]
        fn do_query(&self, _ctx: QueryCtx) -> StdResult<Resp> { Ok(Resp {}) }
        #[sv::msg(sudo)]
        fn do_sudo(&self, _ctx: SudoCtx) -> StdResult<Response> { Ok(Response::new()) }
        #[sv::msg(migrate)]
        fn migrate(&self, _ctx: MigrateCtx) -> StdResult<Response> { Ok(Response::new()) }
        #[sv::msg(reply)]
        fn reply(&self, _ctx: sylvia::types::ReplyCtx, _msg: Reply) -> StdResult<Response> { Ok(Response::new()) }
    }
}

pub mod ovr_repl_nomr {
    use super::*;
    pub mod eps {
        use super::super::*;

        pub fn reply(_deps: DepsMut, _env: Env, _msg: Reply) -> StdResult<Response> { Ok(Response::new()) }
    }

    pub struct Contract;

    #[entry_points]
    #[contract]
    #[sv::override_entry_point(reply=eps::reply(sylvia::cw_std::Reply))]
    impl Contract {
        pub fn new() -> Self { Self }
        #[sv::msg(instantiate)]
        fn instantiate(&self, _ctx: InstantiateCtx) -> StdResult<Response> { Ok(Response::new()) }
        #[sv::msg(exec)]
        fn do_exec(&self, _ctx: ExecCtx) -> StdResult<Response> { Ok(Response::new()) }
        #[sv::msg(query)]
        fn do_query(&self, _ctx: QueryCtx) -> StdResult<Resp> { Ok(Resp {}) }
        #[sv::msg(sudo)]
        fn do_sudo(&self, _ctx: SudoCtx) -> StdResult<Response> { Ok(Response::new()) }
    }
}

pub mod ovr_repl_mr_legacy {
    use super::*;
    pub mod eps {
        use super::super::*;

        pub fn reply(_deps: DepsMut, _env: Env, _msg: Reply) -> StdResult<Response> { Ok(Response::new()) }
    }

    pub struct Contract;

    #[entry_points]
    #[contract]
    #[sv::override_entry_point(reply=eps::reply(sylvia::cw_std::Reply))]
    impl Contract {
        pub fn new() -> Self { Self }
        #[sv::msg(instantiate)]
        fn instantiate(&self, _ctx: InstantiateCtx) -> StdResult<Response> { Ok(Response::new()) }
        #[sv::msg(exec)]
        fn do_exec(&self, _ctx: ExecCtx) -> StdResult<Response> { Ok(Response::new()) }
        #[sv::msg(query)]
        fn do_query(&self, _ctx: QueryCtx) -> StdResult<Resp> { Ok(Resp {}) }
        #[sv::msg(sudo)]
        fn do_sudo(&self, _ctx: SudoCtx) -> StdResult<Response> { Ok(Response::new()) }
        #[sv::msg(migrate)]
        fn migrate(&self, _ctx: MigrateCtx) -> StdResult<Response> { Ok(Response::new()) }
        #[sv::msg(reply)]
        fn reply(&self, _ctx: sylvia::types::ReplyCtx, _msg: Reply) -> StdResult<Response> { Ok(Response::new()) }
    }
}

pub mod ovr_pair_mr_r {
    use super::*;
    pub mod eps {
        use super::super::*;
        #[sylvia::cw_schema::cw_serde]
        pub struct CustomQuery {}
        #[sylvia::cw_schema::cw_serde]
        pub struct CustomSudo {}
        pub fn query(_deps: Deps, _env: Env, _msg: CustomQuery) -> StdResult<Binary> { Ok(Binary::default()) }
        pub fn sudo(_deps: DepsMut, _env: Env, _msg: CustomSudo) -> StdResult<Response> { Ok(Response::new()) }
    }

    pub struct Contract;

    #[entry_points]
    #[contract]
    #[sv::features(replies)]
    #[sv::override_entry_point(query=eps::query(eps::CustomQuery))]
    #[sv::override_entry_point(sudo=eps::sudo(eps::CustomSudo))]
    impl Contract {
        pub fn new() -> Self { Self }
        #[sv::msg(instantiate)]
        fn instantiate(&self, _ctx: InstantiateCtx) -> StdResult<Response> { Ok(Response::new()) }
        #[sv::msg(exec)]
        fn do_exec(&self, _ctx: ExecCtx) -> StdResult<Response> { Ok(Response::new()) }
        #[sv::msg(query)]
        fn do_query(&self, _ctx: QueryCtx) -> StdResult<Resp> { Ok(Resp {}) }
        #[sv::msg(sudo)]
        fn do_sudo(&self, _ctx: SudoCtx) -> StdResult<Response> { Ok(Response::new()) }
        #[sv::msg(migrate)]
        fn migrate(&self, _ctx: MigrateCtx) -> StdResult<Response> { Ok(Response::new()) }
        #[sv::msg(reply, handlers=[on_done], reply_on=success)]
        fn on_done(&self, _ctx: ReplyCtx, #[sv::payload(raw)] _payload: Binary) -> StdResult<Response> { Ok(Response::new()) }
    }
}

pub mod ovr_pair2_nomr {
    use super::*;
    pub mod eps {
        use super::super::*;
        #[sylvia::cw_schema::cw_serde]
        pub struct CustomInstantiate {}
        #[sylvia::cw_schema::cw_serde]
        pub struct CustomExec {}
        pub fn instantiate(_deps: DepsMut, _env: Env, _info: MessageInfo, _msg: CustomInstantiate) -> StdResult<Response> { Ok(Response::new()) }
        pub fn execute(_deps: DepsMut, _env: Env, _info: MessageInfo, _msg: CustomExec) -> StdResult<Response> { Ok(Response::new()) }
    }

    pub struct Contract;

    #[entry_points]
    #[contract]
    #[sv::override_entry_point(instantiate=eps::instantiate(eps::CustomInstantiate))]
    #[sv::override_entry_point(exec=eps::execute(eps::CustomExec))]
    impl Contract {
        pub fn new() -> Self { Self }
        #[sv::msg(instantiate)]
        fn instantiate(&self, _ctx: InstantiateCtx) -> StdResult<Response> { Ok(Response::new()) }
        #[sv::msg(exec)]
        fn do_exec(&self, _ctx: ExecCtx) -> StdResult<Response> { Ok(Response::new()) }
        #[sv::msg(query)]
        fn do_query(&self, _ctx: QueryCtx) -> StdResult<Resp> { Ok(Resp {}) }
        #[sv::msg(sudo)]
        fn do_sudo(&self, _ctx: SudoCtx) -> StdResult<Response> { Ok(Response::new()) }
    }
}

pub mod ovr_all_mr_r {
    use super::*;
    pub mod eps {
        use super::super::*;
        #[sylvia::cw_schema::cw_serde]
        pub struct CustomInstantiate {}
        #[sylvia::cw_schema::cw_serde]
        pub struct CustomExec {}
        #[sylvia::cw_schema::cw_serde]
        pub struct CustomQuery {}
        #[sylvia::cw_schema::cw_serde]
        pub struct CustomSudo {}
        #[sylvia::cw_schema::cw_serde]
        pub struct CustomMigrate {}
        pub fn instantiate(_deps: DepsMut, _env: Env, _info: MessageInfo, _msg: CustomInstantiate) -> StdResult<Response> { Ok(Response::new()) }
        pub fn execute(_deps: DepsMut, _env: Env, _info: MessageInfo, _msg: CustomExec) -> StdResult<Response> { Ok(Response::new()) }
        pub fn query(_deps: Deps, _env: Env, _msg: CustomQuery) -> StdResult<Binary> { Ok(Binary::default()) }
        pub fn sudo(_deps: DepsMut, _env: Env, _msg: CustomSudo) -> StdResult<Response> { Ok(Response::new()) }
        pub fn migrate(_deps: DepsMut, _env: Env, _msg: CustomMigrate) -> StdResult<Response> { Ok(Response::new()) }
        pub fn reply(_deps: DepsMut, _env: Env, _msg: Reply) -> StdResult<Response> { Ok(Response::new()) }
    }

    pub struct Contract;

    #[entry_points]
    #[contract]
    #[sv::features(replies)]
    #[sv::override_entry_point(instantiate=eps::instantiate(eps::CustomInstantiate))]
    #[sv::override_entry_point(exec=eps::execute(eps::CustomExec))]
    #[sv::override_entry_point(query=eps::query(eps::CustomQuery))]
    #[sv::override_entry_point(sudo=eps::sudo(eps::CustomSudo))]
    #[sv::override_entry_point(migrate=eps::migrate(eps::CustomMigrate))]
    #[sv::override_entry_point(reply=eps::reply(sylvia::cw_std::Reply))]
    impl Contract {
        pub fn new() -> Self { Self }
        #[sv::msg(instantiate)]
        fn instantiate(&self, _ctx: InstantiateCtx) -> StdResult<Response> { Ok(Response::new()) }
        #[sv::msg(exec)]
        fn do_exec(&self, _ctx: ExecCtx) -> StdResult<Response> { Ok(Response::new()) }
        #[sv::msg(query)]
        fn do_query(&self, _ctx: QueryCtx) -> StdResult<Resp> { Ok(Resp {}) }
        #[sv::msg(sudo)]
        fn do_sudo(&self, _ctx: SudoCtx) -> StdResult<Response> { Ok(Response::new()) }
        #[sv::msg(migrate)]
        fn migrate(&self, _ctx: MigrateCtx) -> StdResult<Response> { Ok(Response::new()) }
        #[sv::msg(reply, handlers=[on_done], reply_on=success)]
        fn on_done(&self, _ctx: ReplyCtx, #[sv::payload(raw)] _payload: Binary) -> StdResult<Response> { Ok(Response::new()) }
    }
}

pub mod ovr_none_mr_r {
    use super::*;
    pub mod eps {
        use super::super::*;


    }

    pub struct Contract;

    #[entry_points]
    #[contract]
    #[sv::features(replies)]

    impl Contract {
        pub fn new() -> Self { Self }
        #[sv::msg(instantiate)]
        fn instantiate(&self, _ctx: InstantiateCtx) -> StdResult<Response> { Ok(Response::new()) }
        #[sv::msg(exec)]
        fn do_exec(&self, _ctx: ExecCtx) -> StdResult<Response> { Ok(Response::new()) }
        #[sv::msg(query)]
        fn do_query(&self, _ctx: QueryCtx) -> StdResult<Resp> { Ok(Resp {}) }
        #[sv::msg(sudo)]
        fn do_sudo(&self, _ctx: SudoCtx) -> StdResult<Response> { Ok(Response::new()) }
        #[sv::msg(migrate)]
        fn migrate(&self, _ctx: MigrateCtx) -> StdResult<Response> { Ok(Response::new()) }
        #[sv::msg(reply, handlers=[on_done], reply_on=success)]
        fn on_done(&self, _ctx: ReplyCtx, #[sv::payload(raw)] _payload: Binary) -> StdResult<Response> { Ok(Response::new()) }
    }
}

pub mod ovr_none_mr_legacy {
    use super::*;
    pub mod eps {
        use super::super::*;


    }

    pub struct Contract;

    #[entry_points]
    #[contract]

    impl Contract {
        pub fn new() -> Self { Self }
        #[sv::msg(instantiate)]
        fn instantiate(&self, _ctx: InstantiateCtx) -> StdResult<Response> { Ok(Response::new()) }
        #[sv::msg(exec)]
        fn do_exec(&self, _ctx: ExecCtx) -> StdResult<Response> { Ok(Response::new()) }
        #[sv::msg(query)]
        fn do_query(&self, _ctx: QueryCtx) -> StdResult<Resp> { Ok(Resp {}) }
        #[sv::msg(sudo)]
        fn do_sudo(&self, _ctx: SudoCtx) -> StdResult<Response> { Ok(Response::new()) }
        #[sv::msg(migrate)]
        fn migrate(&self, _ctx: MigrateCtx) -> StdResult<Response> { Ok(Response::new()) }
        #[sv::msg(reply)]
        fn reply(&self, _ctx: sylvia::types::ReplyCtx, _msg: Reply) -> StdResult<Response> { Ok(Response::new()) }
    }
}

pub mod ovr_none_nomr {
    use super::*;
    pub mod eps {
        use super::super::*;


    }

    pub struct Contract;

    #[entry_points]
    #[contract]

    impl Contract {
        pub fn new() -> Self { Self }
        #[sv::msg(instantiate)]
        fn instantiate(&self, _ctx: InstantiateCtx) -> StdResult<Response> { Ok(Response::new()) }
        #[sv::msg(exec)]
        fn do_exec(&self, _ctx: ExecCtx) -> StdResult<Response> { Ok(Response::new()) }
        #[sv::msg(query)]
        fn do_query(&self, _ctx: QueryCtx) -> StdResult<Resp> { Ok(Resp {}) }
        #[sv::msg(sudo)]
        fn do_sudo(&self, _ctx: SudoCtx) -> StdResult<Response> { Ok(Response::new()) }
    }
}

pub mod ovr_gen_exec {
    use super::*;
    pub mod eps {
        use super::super::*;
        #[sylvia::cw_schema::cw_serde]
        pub struct CustomExec {}
        pub fn execute(_deps: DepsMut, _env: Env, _info: MessageInfo, _msg: CustomExec) -> StdResult<Response> { Ok(Response::new()) }
    }

    pub struct Contract<T> { _p: std::marker::PhantomData<T> }

    #[entry_points(generics<Empty>)]
    #[contract]
    #[sv::features(replies)]
    #[sv::override_entry_point(exec=eps::execute(eps::CustomExec))]
    impl<T> Contract<T> where T: sylvia::types::CustomMsg + 'static {
        pub fn new() -> Self { Self { _p: std::marker::PhantomData } }
        #[sv::msg(instantiate)]
        fn instantiate(&self, _ctx: InstantiateCtx) -> StdResult<Response> { Ok(Response::new()) }
        #[sv::msg(exec)]
        fn do_exec(&self, _ctx: ExecCtx, _t: Option<T>) -> StdResult<Response> { Ok(Response::new()) }
        #[sv::msg(query)]
        fn do_query(&self, _ctx: QueryCtx) -> StdResult<Resp> { Ok(Resp {}) }
        #[sv::msg(sudo)]
        fn do_sudo(&self, _ctx: SudoCtx) -> StdResult<Response> { Ok(Response::new()) }
        #[sv::msg(migrate)]
        fn migrate(&self, _ctx: MigrateCtx) -> StdResult<Response> { Ok(Response::new()) }
        #[sv::msg(reply, handlers=[on_done], reply_on=success)]
        fn on_done(&self, _ctx: ReplyCtx, #[sv::payload(raw)] _payload: Binary) -> StdResult<Response> { Ok(Response::new()) }
    }
}

pub mod ovr_gen_quer {
    use super::*;
    pub mod eps {
        use super::super::*;
        #[sylvia::cw_schema::cw_serde]
        pub struct CustomQuery {}
        pub fn query(_deps: Deps, _env: Env, _msg: CustomQuery) -> StdResult<Binary> { Ok(Binary::default()) }
    }

    pub struct Contract<T> { _p: std::marker::PhantomData<T> }

    #[entry_points(generics<Empty>)]
    #[contract]
    #[sv::features(replies)]
    #[sv::override_entry_point(query=eps::query(eps::CustomQuery))]
    impl<T> Contract<T> where T: sylvia::types::CustomMsg + 'static {
        pub fn new() -> Self { Self { _p: std::marker::PhantomData } }
        #[sv::msg(instantiate)]
        fn instantiate(&self, _ctx: InstantiateCtx) -> StdResult<Response> { Ok(Response::new()) }
        #[sv::msg(exec)]
        fn do_exec(&self, _ctx: ExecCtx, _t: Option<T>) -> StdResult<Response> { Ok(Response::new()) }
        #[sv::msg(query)]
        fn do_query(&self, _ctx: QueryCtx) -> StdResult<Resp> { Ok(Resp {}) }
        #[sv::msg(sudo)]
        fn do_sudo(&self, _ctx: SudoCtx) -> StdResult<Response> { Ok(Response::new()) }
        #[sv::msg(migrate)]
        fn migrate(&self, _ctx: MigrateCtx) -> StdResult<Response> { Ok(Response::new()) }
        #[sv::msg(reply, handlers=[on_done], reply_on=success)]
        fn on_done(&self, _ctx: ReplyCtx, #[sv::payload(raw)] _payload: Binary) -> StdResult<Response> { Ok(Response::new()) }
    }
}

pub mod ovr_gen_none {
    use super::*;
    pub mod eps {
        use super::super::*;


    }

    pub struct Contract<T> { _p: std::marker::PhantomData<T> }

    #[entry_points(generics<Empty>)]
    #[contract]
    #[sv::features(replies)]

    impl<T> Contract<T> where T: sylvia::types::CustomMsg + 'static {
        pub fn new() -> Self { Self { _p: std::marker::PhantomData } }
        #[sv::msg(instantiate)]
        fn instantiate(&self, _ctx: InstantiateCtx) -> StdResult<Response> { Ok(Response::new()) }
        #[sv::msg(exec)]
        fn do_exec(&self, _ctx: ExecCtx, _t: Option<T>) -> StdResult<Response> { Ok(Response::new()) }
        #[sv::msg(query)]
        fn do_query(&self, _ctx: QueryCtx) -> StdResult<Resp> { Ok(Resp {}) }
        #[sv::msg(sudo)]
        fn do_sudo(&self, _ctx: SudoCtx) -> StdResult<Response> { Ok(Response::new()) }
        #[sv::msg(migrate)]
        fn migrate(&self, _ctx: MigrateCtx) -> StdResult<Response> { Ok(Response::new()) }
        #[sv::msg(reply, handlers=[on_done], reply_on=success)]
        fn on_done(&self, _ctx: ReplyCtx, #[sv::payload(raw)] _payload: Binary) -> StdResult<Response> { Ok(Response::new()) }
    }
}

pub mod ovr_none_nomr_r {
    use super::*;
    pub mod eps {
        use super::super::*;


    }

    pub struct Contract;

    #[entry_points]
    #[contract]
    #[sv::features(replies)]

    impl Contract {
        pub fn new() -> Self { Self }
        #[sv::msg(instantiate)]
        fn instantiate(&self, _ctx: InstantiateCtx) -> StdResult<Response> { Ok(Response::new()) }
        #[sv::msg(exec)]
        fn do_exec(&self, _ctx: ExecCtx) -> StdResult<Response> { Ok(Response::new()) }
        #[sv::msg(query)]
        fn do_query(&self, _ctx: QueryCtx) -> StdResult<Resp> { Ok(Resp {}) }
        #[sv::msg(sudo)]
        fn do_sudo(&self, _ctx: SudoCtx) -> StdResult<Response> { Ok(Response::new()) }
    }
}

pub mod ovr_sudo_nomr_r {
    use super::*;
    pub mod eps {
        use super::super::*;
        #[sylvia::cw_schema::cw_serde]
        pub struct CustomSudo {}
        pub fn sudo(_deps: DepsMut, _env: Env, _msg: CustomSudo) -> StdResult<Response> { Ok(Response::new()) }
    }

    pub struct Contract;

    #[entry_points]
    #[contract]
    #[sv::features(replies)]
    #[sv::override_entry_point(sudo=eps::sudo(eps::CustomSudo))]
    impl Contract {
        pub fn new() -> Self { Self }
        #[sv::msg(instantiate)]
        fn instantiate(&self, _ctx: InstantiateCtx) -> StdResult<Response> { Ok(Response::new()) }
        #[sv::msg(exec)]
        fn do_exec(&self, _ctx: ExecCtx) -> StdResult<Response> { Ok(Response::new()) }
        #[sv::msg(query)]
        fn do_query(&self, _ctx: QueryCtx) -> StdResult<Resp> { Ok(Resp {}) }
        #[sv::msg(sudo)]
        fn do_sudo(&self, _ctx: SudoCtx) -> StdResult<Response> { Ok(Response::new()) }
    }
}

pub mod ovr_gen_none_nomr_r {
    use super::*;
    pub mod eps {
        use super::super::*;


    }

    pub struct Contract<T> { _p: std::marker::PhantomData<T> }

    #[entry_points(generics<Empty>)]
    #[contract]
    #[sv::features(replies)]

    impl<T> Contract<T> where T: sylvia::types::CustomMsg + 'static {
        pub fn new() -> Self { Self { _p: std::marker::PhantomData } }
        #[sv::msg(instantiate)]
        fn instantiate(&self, _ctx: InstantiateCtx) -> StdResult<Response> { Ok(Response::new()) }
        #[sv::msg(exec)]
        fn do_exec(&self, _ctx: ExecCtx, _t: Option<T>) -> StdResult<Response> { Ok(Response::new()) }
        #[sv::msg(query)]
        fn do_query(&self, _ctx: QueryCtx) -> StdResult<Resp> { Ok(Resp {}) }
        #[sv::msg(sudo)]
        fn do_sudo(&self, _ctx: SudoCtx) -> StdResult<Response> { Ok(Response::new()) }
    }
}

pub mod ovr_shared_sudo_migr {
    use super::*;
    pub mod eps {
        use super::super::*;
        #[sylvia::cw_schema::cw_serde]
        pub struct CustomMigrate {}
        pub fn migrate(_deps: DepsMut, _env: Env, _msg: CustomMigrate) -> StdResult<Response> { Ok(Response::new()) }
    }

    pub struct Contract;

    #[entry_points]
    #[contract]
    #[sv::features(replies)]
    #[sv::override_entry_point(sudo=eps::migrate(eps::CustomMigrate))]
    #[sv::override_entry_point(migrate=eps::migrate(eps::CustomMigrate))]
    impl Contract {
        pub fn new() -> Self { Self }
        #[sv::msg(instantiate)]
        fn instantiate(&self, _ctx: InstantiateCtx) -> StdResult<Response> { Ok(Response::new()) }
        #[sv::msg(exec)]
        fn do_exec(&self, _ctx: ExecCtx) -> StdResult<Response> { Ok(Response::new()) }
        #[sv::msg(query)]
        fn do_query(&self, _ctx: QueryCtx) -> StdResult<Resp> { Ok(Resp {}) }
        #[sv::msg(sudo)]
        fn do_sudo(&self, _ctx: SudoCtx) -> StdResult<Response> { Ok(Response::new()) }
        #[sv::msg(migrate)]
        fn migrate(&self, _ctx: MigrateCtx) -> StdResult<Response> { Ok(Response::new()) }
        #[sv::msg(reply, handlers=[on_done], reply_on=success)]
        fn on_done(&self, _ctx: ReplyCtx, #[sv::payload(raw)] _payload: Binary) -> StdResult<Response> { Ok(Response::new()) }
    }
}

pub mod ovr_shared_inst_exec {
    use super::*;
    pub mod eps {
        use super::super::*;
        #[sylvia::cw_schema::cw_serde]
        pub struct CustomExec {}
        pub fn execute(_deps: DepsMut, _env: Env, _info: MessageInfo, _msg: CustomExec) -> StdResult<Response> { Ok(Response::new()) }
    }

    pub struct Contract;

    #[entry_points]
    #[contract]
    #[sv::override_entry_point(instantiate=eps::execute(eps::CustomExec))]
    #[sv::override_entry_point(exec=eps::execute(eps::CustomExec))]
    impl Contract {
        pub fn new() -> Self { Self }
        #[sv::msg(instantiate)]
        fn instantiate(&self, _ctx: InstantiateCtx) -> StdResult<Response> { Ok(Response::new()) }
        #[sv::msg(exec)]
        fn do_exec(&self, _ctx: ExecCtx) -> StdResult<Response> { Ok(Response::new()) }
        #[sv::msg(query)]
        fn do_query(&self, _ctx: QueryCtx) -> StdResult<Resp> { Ok(Resp {}) }
        #[sv::msg(sudo)]
        fn do_sudo(&self, _ctx: SudoCtx) -> StdResult<Response> { Ok(Response::new()) }
        #[sv::msg(migrate)]
        fn migrate(&self, _ctx: MigrateCtx) -> StdResult<Response> { Ok(Response::new()) }
        #[sv::msg(reply)]
        fn reply(&self, _ctx: sylvia::types::ReplyCtx, _msg: Reply) -> StdResult<Response> { Ok(Response::new()) }
    }
}

pub mod ovr_shared_sudo_migr_repl {
    use super::*;
    pub mod eps {
        use super::super::*;

        pub fn reply(_deps: DepsMut, _env: Env, _msg: Reply) -> StdResult<Response> { Ok(Response::new()) }
    }

    pub struct Contract;

    #[entry_points]
    #[contract]
    #[sv::features(replies)]
    #[sv::override_entry_point(sudo=eps::reply(sylvia::cw_std::Reply))]
    #[sv::override_entry_point(migrate=eps::reply(sylvia::cw_std::Reply))]
    #[sv::override_entry_point(reply=eps::reply(sylvia::cw_std::Reply))]
    impl Contract {
        pub fn new() -> Self { Self }
        #[sv::msg(instantiate)]
        fn instantiate(&self, _ctx: InstantiateCtx) -> StdResult<Response> { Ok(Response::new()) }
        #[sv::msg(exec)]
        fn do_exec(&self, _ctx: ExecCtx) -> StdResult<Response> { Ok(Response::new()) }
        #[sv::msg(query)]
        fn do_query(&self, _ctx: QueryCtx) -> StdResult<Resp> { Ok(Resp {}) }
        #[sv::msg(sudo)]
        fn do_sudo(&self, _ctx: SudoCtx) -> StdResult<Response> { Ok(Response::new()) }
        #[sv::msg(migrate)]
        fn migrate(&self, _ctx: MigrateCtx) -> StdResult<Response> { Ok(Response::new()) }
        #[sv::msg(reply, handlers=[on_done], reply_on=success)]
        fn on_done(&self, _ctx: ReplyCtx, #[sv::payload(raw)] _payload: Binary) -> StdResult<Response> { Ok(Response::new()) }
    }
}

pub mod ovr_shared_migr_sudo_nomr {
    use super::*;
    pub mod eps {
        use super::super::*;
        #[sylvia::cw_schema::cw_serde]
        pub struct CustomSudo {}
        pub fn sudo(_deps: DepsMut, _env: Env, _msg: CustomSudo) -> StdResult<Response> { Ok(Response::new()) }
    }

    pub struct Contract;

    #[entry_points]
    #[contract]
    #[sv::override_entry_point(migrate=eps::sudo(eps::CustomSudo))]
    #[sv::override_entry_point(sudo=eps::sudo(eps::CustomSudo))]
    impl Contract {
        pub fn new() -> Self { Self }
        #[sv::msg(instantiate)]
        fn instantiate(&self, _ctx: InstantiateCtx) -> StdResult<Response> { Ok(Response::new()) }
        #[sv::msg(exec)]
        fn do_exec(&self, _ctx: ExecCtx) -> StdResult<Response> { Ok(Response::new()) }
        #[sv::msg(query)]
        fn do_query(&self, _ctx: QueryCtx) -> StdResult<Resp> { Ok(Resp {}) }
        #[sv::msg(sudo)]
        fn do_sudo(&self, _ctx: SudoCtx) -> StdResult<Response> { Ok(Response::new()) }
    }
}
