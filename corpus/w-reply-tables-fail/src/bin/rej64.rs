//@ props: C18
//@ expect: fail
//@ index: no
//@ what: rejected reply table [na:always, na:success, na:error]: a (name, outcome) pair is claimed twice or `always` is combined with another method
#![allow(dead_code, unused_imports, unused_variables, clippy::new_without_default)]
use sylvia::ctx::{ExecCtx, InstantiateCtx, QueryCtx, ReplyCtx};
use sylvia::cw_std::{Addr, Binary, Empty, Response, StdError, StdResult, SubMsgResult};
use sylvia::contract;

#[sylvia::cw_schema::cw_serde]
pub struct Payload { pub x: u32 }
#[sylvia::cw_schema::cw_serde]
pub struct Data { pub y: String }

pub mod t {
    use super::*;
    pub struct Contract;

    #[contract]
    #[sv::features(replies)]
    impl Contract {
        pub fn new() -> Self { Self }
        #[sv::msg(instantiate)]
        fn instantiate(&self, _ctx: InstantiateCtx) -> StdResult<Response> { Ok(Response::new()) }
        #[sv::msg(reply, handlers=[na], reply_on=always)]
        fn m0_alw(&self, _ctx: ReplyCtx, result: SubMsgResult, first: Payload) -> StdResult<Response> { Ok(Response::new()) }
        #[sv::msg(reply, handlers=[na], reply_on=success)]
        fn m1_suc(&self, _ctx: ReplyCtx, first: Payload) -> StdResult<Response> { Ok(Response::new()) }
        #[sv::msg(reply, handlers=[na], reply_on=error)]
        fn m2_err(&self, _ctx: ReplyCtx, error: String, first: Payload) -> StdResult<Response> { Ok(Response::new()) }
    }
}

fn main() {}
