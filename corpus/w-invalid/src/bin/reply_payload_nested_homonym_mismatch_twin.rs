//@ props: C18
//@ expect: pass
//@ index: no
//@ what: compiling twin of reply_payload_nested_homonym_mismatch
#![allow(dead_code, unused_variables, unused_imports, deprecated, clippy::new_without_default)]
use sylvia::ctx::{ExecCtx, InstantiateCtx, MigrateCtx, QueryCtx, ReplyCtx, SudoCtx};
use sylvia::cw_std::{Binary, Empty, Response, StdError, StdResult, SubMsgResult};
use sylvia::{contract, entry_points, interface};

#[sylvia::cw_schema::cw_serde]
pub struct Resp {}
pub type MyResult<T> = Result<T, StdError>;

pub mod orders {
    #[sylvia::cw_schema::cw_serde]
    pub struct Id(pub u64);
}
pub mod accounts {
    #[sylvia::cw_schema::cw_serde]
    pub struct Id(pub String);
}
pub struct Contract;

#[contract]
#[sv::features(replies)]
impl Contract {
    pub fn new() -> Self { Self }
    #[sv::msg(instantiate)]
    fn instantiate(&self, _ctx: InstantiateCtx) -> StdResult<Response> { Ok(Response::new()) }
    #[sv::msg(reply, handlers=[h], reply_on=success)]
    fn on_ok(&self, _ctx: ReplyCtx, p: Vec<orders::Id>) -> StdResult<Response> { Ok(Response::new()) }
    #[sv::msg(reply, handlers=[h], reply_on=error)]
    fn on_err(&self, _ctx: ReplyCtx, error: String, p: Vec<orders::Id>) -> StdResult<Response> { Ok(Response::new()) }
}

fn main() {}
