//@ props: C18
//@ expect: pass
//@ index: no
//@ what: compiling twin of interface_no_error_type
#![allow(dead_code, unused_variables, unused_imports, deprecated, clippy::new_without_default)]
use sylvia::ctx::{ExecCtx, InstantiateCtx, MigrateCtx, QueryCtx, ReplyCtx, SudoCtx};
use sylvia::cw_std::{Binary, Empty, Response, StdError, StdResult, SubMsgResult};
use sylvia::{contract, entry_points, interface};

#[sylvia::cw_schema::cw_serde]
pub struct Resp {}
pub type MyResult<T> = Result<T, StdError>;

pub mod api {
    use super::*;
    #[interface]
    #[sv::custom(msg = Empty, query = Empty)]
    pub trait Api1 {
        type Error: From<StdError>;
        #[sv::msg(exec)]
        fn run(&self, ctx: ExecCtx, a: u32) -> Result<Response, Self::Error>;
    }
}

fn main() {}
