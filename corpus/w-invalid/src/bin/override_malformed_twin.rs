//@ props: C18
//@ expect: pass
//@ index: no
//@ what: compiling twin of override_malformed
#![allow(dead_code, unused_variables, unused_imports, deprecated, clippy::new_without_default)]
use sylvia::ctx::{ExecCtx, InstantiateCtx, MigrateCtx, QueryCtx, ReplyCtx, SudoCtx};
use sylvia::cw_std::{Binary, Empty, Response, StdError, StdResult, SubMsgResult};
use sylvia::{contract, entry_points, interface};

#[sylvia::cw_schema::cw_serde]
pub struct Resp {}
pub type MyResult<T> = Result<T, StdError>;

pub fn my_sudo(_deps: sylvia::cw_std::DepsMut, _env: sylvia::cw_std::Env, _msg: Resp) -> StdResult<Response> { Ok(Response::new()) }
pub struct Contract;

#[contract]
#[sv::override_entry_point(sudo=my_sudo(Resp))]
impl Contract {
    pub fn new() -> Self { Self }
    #[sv::msg(instantiate)]
    fn instantiate(&self, _ctx: InstantiateCtx) -> StdResult<Response> { Ok(Response::new()) }
}

fn main() {}
