//@ props: C18
//@ expect: fail
//@ index: no
//@ what: entry_points argument that is not generics<..>
#![allow(dead_code, unused_variables, unused_imports, deprecated, clippy::new_without_default)]
use sylvia::ctx::{ExecCtx, InstantiateCtx, MigrateCtx, QueryCtx, ReplyCtx, SudoCtx};
use sylvia::cw_std::{Binary, Empty, Response, StdError, StdResult, SubMsgResult};
use sylvia::{contract, entry_points, interface};

#[sylvia::cw_schema::cw_serde]
pub struct Resp {}
pub type MyResult<T> = Result<T, StdError>;

pub struct Contract;

#[entry_points(types<Empty>)] //~ ERROR
#[contract]
impl Contract {
    pub fn new() -> Self { Self }
    #[sv::msg(instantiate)]
    fn instantiate(&self, _ctx: InstantiateCtx) -> StdResult<Response> { Ok(Response::new()) }
    #[sv::msg(exec)]
    fn run(&self, _ctx: ExecCtx, a: u32) -> StdResult<Response> { Ok(Response::new()) }
}

fn main() {}
