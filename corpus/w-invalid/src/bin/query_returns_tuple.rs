//@ props: C18
//@ expect: fail
//@ index: no
//@ what: query handler returning a tuple
#![allow(dead_code, unused_variables, unused_imports, deprecated, clippy::new_without_default)]
use sylvia::ctx::{ExecCtx, InstantiateCtx, MigrateCtx, QueryCtx, ReplyCtx, SudoCtx};
use sylvia::cw_std::{Binary, Empty, Response, StdError, StdResult, SubMsgResult};
use sylvia::{contract, entry_points, interface};

#[sylvia::cw_schema::cw_serde]
pub struct Resp {}
pub type MyResult<T> = Result<T, StdError>;

pub struct Contract;

#[contract]
impl Contract {
    pub fn new() -> Self { Self }
    #[sv::msg(instantiate)]
    fn instantiate(&self, _ctx: InstantiateCtx) -> StdResult<Response> { Ok(Response::new()) }
    #[sv::msg(query)]
    fn ask(&self, _ctx: QueryCtx) -> StdResult<(u32, String)> { Ok((1, String::new())) } //~ ERROR
}

fn main() {}
