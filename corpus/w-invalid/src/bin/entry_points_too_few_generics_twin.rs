//@ props: C18
//@ expect: pass
//@ index: no
//@ what: compiling twin of entry_points_too_few_generics
#![allow(dead_code, unused_variables, unused_imports, deprecated, clippy::new_without_default)]
use sylvia::ctx::{ExecCtx, InstantiateCtx, MigrateCtx, QueryCtx, ReplyCtx, SudoCtx};
use sylvia::cw_std::{Binary, Empty, Response, StdError, StdResult, SubMsgResult};
use sylvia::{contract, entry_points, interface};

#[sylvia::cw_schema::cw_serde]
pub struct Resp {}
pub type MyResult<T> = Result<T, StdError>;

pub struct Contract<A, B> { _p: std::marker::PhantomData<(A, B)> }

#[entry_points(generics<Empty, Empty>)]
#[contract]
impl<A, B> Contract<A, B> where A: sylvia::types::CustomMsg + 'static, B: sylvia::types::CustomMsg + 'static {
    pub fn new() -> Self { Self { _p: std::marker::PhantomData } }
    #[sv::msg(instantiate)]
    fn instantiate(&self, _ctx: InstantiateCtx, a: A, b: B) -> StdResult<Response> { Ok(Response::new()) }
}

fn main() {}
