//@ props: C19
//@ expect: pass
//@ index: no
//@ what: generic contract over single-letter parameters VWXYZ
#![allow(dead_code, non_camel_case_types, clippy::type_complexity, clippy::new_without_default)]
use sylvia::{contract, entry_points};

type WitResult = sylvia::cw_std::StdResult<sylvia::cw_std::Response>;
fn ok() -> WitResult { Ok(sylvia::cw_std::Response::new()) }

pub struct Holder<V, W, X, Y, Z> {
    _p: std::marker::PhantomData<(V, W, X, Y, Z,)>,
}

#[entry_points(generics<sylvia::cw_std::Empty, sylvia::cw_std::Empty, sylvia::cw_std::Empty, sylvia::cw_std::Empty, sylvia::cw_std::Empty>)]
#[contract]
#[sv::features(replies)]
impl<V, W, X, Y, Z> Holder<V, W, X, Y, Z>
where
    V: sylvia::types::CustomMsg + 'static,
    W: sylvia::types::CustomMsg + 'static,
    X: sylvia::types::CustomMsg + 'static,
    Y: sylvia::types::CustomMsg + 'static,
    Z: sylvia::types::CustomMsg + 'static,
{
    pub fn new() -> Self {
        Self { _p: std::marker::PhantomData }
    }
    #[sv::msg(instantiate)]
    fn instantiate(&self, _ctx: sylvia::ctx::InstantiateCtx, _a: Z) -> WitResult { ok() }
    #[sv::msg(exec)]
    fn run(&self, _ctx: sylvia::ctx::ExecCtx, _a: V, _b: Vec<Option<W>>) -> WitResult { ok() }
    #[sv::msg(query)]
    fn ask(&self, _ctx: sylvia::ctx::QueryCtx, _a: W, _b: W) -> Result<X, sylvia::cw_std::StdError> { unimplemented!() }
    #[sv::msg(sudo)]
    fn force(&self, _ctx: sylvia::ctx::SudoCtx, _a: Y) -> WitResult { ok() }
    #[sv::msg(migrate)]
    fn migrate(&self, _ctx: sylvia::ctx::MigrateCtx, _a: V) -> WitResult { ok() }
    #[sv::msg(reply, handlers=[done], reply_on=success)]
    fn done(&self, _ctx: sylvia::ctx::ReplyCtx, _p: u32) -> WitResult { ok() }
}

fn main() {}
