//@ props: C19
//@ expect: pass
//@ index: no
//@ what: generic contract over conventionally named parameters Contract, App, Api, Custom, Storage, Resp, Payload
#![allow(dead_code, non_camel_case_types, clippy::type_complexity, clippy::new_without_default)]
use sylvia::{contract, entry_points};

type WitResult = sylvia::cw_std::StdResult<sylvia::cw_std::Response>;
fn ok() -> WitResult { Ok(sylvia::cw_std::Response::new()) }

pub struct Holder<Contract, App, Api, Custom, Storage, Resp, Payload> {
    _p: std::marker::PhantomData<(Contract, App, Api, Custom, Storage, Resp, Payload,)>,
}

#[entry_points(generics<sylvia::cw_std::Empty, sylvia::cw_std::Empty, sylvia::cw_std::Empty, sylvia::cw_std::Empty, sylvia::cw_std::Empty, sylvia::cw_std::Empty, sylvia::cw_std::Empty>)]
#[contract]
#[sv::features(replies)]
impl<Contract, App, Api, Custom, Storage, Resp, Payload> Holder<Contract, App, Api, Custom, Storage, Resp, Payload>
where
    Contract: sylvia::types::CustomMsg + 'static,
    App: sylvia::types::CustomMsg + 'static,
    Api: sylvia::types::CustomMsg + 'static,
    Custom: sylvia::types::CustomMsg + 'static,
    Storage: sylvia::types::CustomMsg + 'static,
    Resp: sylvia::types::CustomMsg + 'static,
    Payload: sylvia::types::CustomMsg + 'static,
{
    pub fn new() -> Self {
        Self { _p: std::marker::PhantomData }
    }
    #[sv::msg(instantiate)]
    fn instantiate(&self, _ctx: sylvia::ctx::InstantiateCtx, _a: Storage) -> WitResult { ok() }
    #[sv::msg(exec)]
    fn run(&self, _ctx: sylvia::ctx::ExecCtx, _a: Contract, _b: Vec<Option<App>>) -> WitResult { ok() }
    #[sv::msg(query)]
    fn ask(&self, _ctx: sylvia::ctx::QueryCtx, _a: App, _b: Payload) -> Result<Api, sylvia::cw_std::StdError> { unimplemented!() }
    #[sv::msg(sudo)]
    fn force(&self, _ctx: sylvia::ctx::SudoCtx, _a: Custom) -> WitResult { ok() }
    #[sv::msg(migrate)]
    fn migrate(&self, _ctx: sylvia::ctx::MigrateCtx, _a: Resp) -> WitResult { ok() }
    #[sv::msg(reply, handlers=[done], reply_on=success)]
    fn done(&self, _ctx: sylvia::ctx::ReplyCtx, _p: u32) -> WitResult { ok() }
}

fn main() {}
