//@ props: C19
//@ expect: pass
//@ index: no
//@ what: generic contract over conventionally named parameters Item, Ctx, Response, Binary, Addr, Remote, State
#![allow(dead_code, non_camel_case_types, clippy::type_complexity, clippy::new_without_default)]
use sylvia::{contract, entry_points};

type WitResult = sylvia::cw_std::StdResult<sylvia::cw_std::Response>;
fn ok() -> WitResult { Ok(sylvia::cw_std::Response::new()) }

pub struct Holder<Item, Ctx, Response, Binary, Addr, Remote, State> {
    _p: std::marker::PhantomData<(Item, Ctx, Response, Binary, Addr, Remote, State,)>,
}

#[entry_points(generics<sylvia::cw_std::Empty, sylvia::cw_std::Empty, sylvia::cw_std::Empty, sylvia::cw_std::Empty, sylvia::cw_std::Empty, sylvia::cw_std::Empty, sylvia::cw_std::Empty>)]
#[contract]
#[sv::features(replies)]
impl<Item, Ctx, Response, Binary, Addr, Remote, State> Holder<Item, Ctx, Response, Binary, Addr, Remote, State>
where
    Item: sylvia::types::CustomMsg + 'static,
    Ctx: sylvia::types::CustomMsg + 'static,
    Response: sylvia::types::CustomMsg + 'static,
    Binary: sylvia::types::CustomMsg + 'static,
    Addr: sylvia::types::CustomMsg + 'static,
    Remote: sylvia::types::CustomMsg + 'static,
    State: sylvia::types::CustomMsg + 'static,
{
    pub fn new() -> Self {
        Self { _p: std::marker::PhantomData }
    }
    #[sv::msg(instantiate)]
    fn instantiate(&self, _ctx: sylvia::ctx::InstantiateCtx, _a: Addr) -> WitResult { ok() }
    #[sv::msg(exec)]
    fn run(&self, _ctx: sylvia::ctx::ExecCtx, _a: Item, _b: Vec<Option<Ctx>>) -> WitResult { ok() }
    #[sv::msg(query)]
    fn ask(&self, _ctx: sylvia::ctx::QueryCtx, _a: Ctx, _b: State) -> Result<Response, sylvia::cw_std::StdError> { unimplemented!() }
    #[sv::msg(sudo)]
    fn force(&self, _ctx: sylvia::ctx::SudoCtx, _a: Binary) -> WitResult { ok() }
    #[sv::msg(migrate)]
    fn migrate(&self, _ctx: sylvia::ctx::MigrateCtx, _a: Remote) -> WitResult { ok() }
    #[sv::msg(reply, handlers=[done], reply_on=success)]
    fn done(&self, _ctx: sylvia::ctx::ReplyCtx, _p: u32) -> WitResult { ok() }
}

fn main() {}
