//@ props: C19
//@ expect: pass
//@ index: no
//@ what: generic contract over conventionally named parameters Value, Key, Ret, Return, Input, Output, Args
#![allow(dead_code, non_camel_case_types, clippy::type_complexity, clippy::new_without_default)]
use sylvia::{contract, entry_points};

type WitResult = sylvia::cw_std::StdResult<sylvia::cw_std::Response>;
fn ok() -> WitResult { Ok(sylvia::cw_std::Response::new()) }

pub struct Holder<Value, Key, Ret, Return, Input, Output, Args> {
    _p: std::marker::PhantomData<(Value, Key, Ret, Return, Input, Output, Args,)>,
}

#[entry_points(generics<sylvia::cw_std::Empty, sylvia::cw_std::Empty, sylvia::cw_std::Empty, sylvia::cw_std::Empty, sylvia::cw_std::Empty, sylvia::cw_std::Empty, sylvia::cw_std::Empty>)]
#[contract]
#[sv::features(replies)]
impl<Value, Key, Ret, Return, Input, Output, Args> Holder<Value, Key, Ret, Return, Input, Output, Args>
where
    Value: sylvia::types::CustomMsg + 'static,
    Key: sylvia::types::CustomMsg + 'static,
    Ret: sylvia::types::CustomMsg + 'static,
    Return: sylvia::types::CustomMsg + 'static,
    Input: sylvia::types::CustomMsg + 'static,
    Output: sylvia::types::CustomMsg + 'static,
    Args: sylvia::types::CustomMsg + 'static,
{
    pub fn new() -> Self {
        Self { _p: std::marker::PhantomData }
    }
    #[sv::msg(instantiate)]
    fn instantiate(&self, _ctx: sylvia::ctx::InstantiateCtx, _a: Input) -> WitResult { ok() }
    #[sv::msg(exec)]
    fn run(&self, _ctx: sylvia::ctx::ExecCtx, _a: Value, _b: Vec<Option<Key>>) -> WitResult { ok() }
    #[sv::msg(query)]
    fn ask(&self, _ctx: sylvia::ctx::QueryCtx, _a: Key, _b: Args) -> Result<Ret, sylvia::cw_std::StdError> { unimplemented!() }
    #[sv::msg(sudo)]
    fn force(&self, _ctx: sylvia::ctx::SudoCtx, _a: Return) -> WitResult { ok() }
    #[sv::msg(migrate)]
    fn migrate(&self, _ctx: sylvia::ctx::MigrateCtx, _a: Output) -> WitResult { ok() }
    #[sv::msg(reply, handlers=[done], reply_on=success)]
    fn done(&self, _ctx: sylvia::ctx::ReplyCtx, _p: u32) -> WitResult { ok() }
}

fn main() {}
