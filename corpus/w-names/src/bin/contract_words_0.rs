//@ props: C19
//@ expect: pass
//@ index: no
//@ what: generic contract over conventionally named parameters Msg, Query, Param, Exec, Sudo, Data, Error
#![allow(dead_code, non_camel_case_types, clippy::type_complexity, clippy::new_without_default)]
use sylvia::{contract, entry_points};

type WitResult = sylvia::cw_std::StdResult<sylvia::cw_std::Response>;
fn ok() -> WitResult { Ok(sylvia::cw_std::Response::new()) }

pub struct Holder<Msg, Query, Param, Exec, Sudo, Data, Error> {
    _p: std::marker::PhantomData<(Msg, Query, Param, Exec, Sudo, Data, Error,)>,
}

#[entry_points(generics<sylvia::cw_std::Empty, sylvia::cw_std::Empty, sylvia::cw_std::Empty, sylvia::cw_std::Empty, sylvia::cw_std::Empty, sylvia::cw_std::Empty, sylvia::cw_std::Empty>)]
#[contract]
#[sv::features(replies)]
impl<Msg, Query, Param, Exec, Sudo, Data, Error> Holder<Msg, Query, Param, Exec, Sudo, Data, Error>
where
    Msg: sylvia::types::CustomMsg + 'static,
    Query: sylvia::types::CustomMsg + 'static,
    Param: sylvia::types::CustomMsg + 'static,
    Exec: sylvia::types::CustomMsg + 'static,
    Sudo: sylvia::types::CustomMsg + 'static,
    Data: sylvia::types::CustomMsg + 'static,
    Error: sylvia::types::CustomMsg + 'static,
{
    pub fn new() -> Self {
        Self { _p: std::marker::PhantomData }
    }
    #[sv::msg(instantiate)]
    fn instantiate(&self, _ctx: sylvia::ctx::InstantiateCtx, _a: Sudo) -> WitResult { ok() }
    #[sv::msg(exec)]
    fn run(&self, _ctx: sylvia::ctx::ExecCtx, _a: Msg, _b: Vec<Option<Query>>) -> WitResult { ok() }
    #[sv::msg(query)]
    fn ask(&self, _ctx: sylvia::ctx::QueryCtx, _a: Query, _b: Error) -> Result<Param, sylvia::cw_std::StdError> { unimplemented!() }
    #[sv::msg(sudo)]
    fn force(&self, _ctx: sylvia::ctx::SudoCtx, _a: Exec) -> WitResult { ok() }
    #[sv::msg(migrate)]
    fn migrate(&self, _ctx: sylvia::ctx::MigrateCtx, _a: Data) -> WitResult { ok() }
    #[sv::msg(reply, handlers=[done], reply_on=success)]
    fn done(&self, _ctx: sylvia::ctx::ReplyCtx, _p: u32) -> WitResult { ok() }
}

fn main() {}
