//@ props: C19
//@ expect: pass
//@ index: no
//@ what: interface whose associated types are the single letters VWXYZ
#![allow(dead_code, non_camel_case_types, clippy::new_without_default)]
use sylvia::ctx::{ExecCtx, InstantiateCtx, QueryCtx, SudoCtx};
use sylvia::cw_std::{Empty, Response, StdError, StdResult};
use sylvia::{contract, interface};

pub mod api {
    use sylvia::ctx::{ExecCtx, QueryCtx, SudoCtx};
    use sylvia::interface;
    #[interface]
    #[sv::custom(msg = sylvia::cw_std::Empty, query = sylvia::cw_std::Empty)]
    pub trait Api2 {
        type Error: From<sylvia::cw_std::StdError>;
        type V: sylvia::types::CustomMsg + 'static;
        type W: sylvia::types::CustomMsg + 'static;
        type X: sylvia::types::CustomMsg + 'static;
        type Y: sylvia::types::CustomMsg + 'static;
        type Z: sylvia::types::CustomMsg + 'static;
        #[sv::msg(exec)]
        fn run(&self, ctx: ExecCtx, a: Self::V, b: Vec<Self::W>) -> Result<sylvia::cw_std::Response, Self::Error>;
        #[sv::msg(query)]
        fn ask(&self, ctx: QueryCtx, a: Self::X, b: Self::V, c: Self::W) -> Result<Self::Y, Self::Error>;
        #[sv::msg(sudo)]
        fn force(&self, ctx: SudoCtx, a: Self::Z) -> Result<sylvia::cw_std::Response, Self::Error>;
    }
}

pub struct Holder;

impl api::Api2 for Holder {
    type Error = StdError;
    type V = Empty;
    type W = Empty;
    type X = Empty;
    type Y = Empty;
    type Z = Empty;
    fn run(&self, _ctx: ExecCtx, _a: Empty, _b: Vec<Empty>) -> StdResult<Response> { Ok(Response::new()) }
    fn ask(&self, _ctx: QueryCtx, _a: Empty, _b: Empty, _c: Empty) -> StdResult<Empty> { Ok(Empty {}) }
    fn force(&self, _ctx: SudoCtx, _a: Empty) -> StdResult<Response> { Ok(Response::new()) }
}

#[contract]
#[sv::messages(api as Api2)]
impl Holder {
    pub fn new() -> Self { Self }
    #[sv::msg(instantiate)]
    fn instantiate(&self, _ctx: InstantiateCtx) -> StdResult<Response> { Ok(Response::new()) }
}

fn main() {}
