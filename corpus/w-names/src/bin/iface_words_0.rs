//@ props: C19
//@ expect: pass
//@ index: no
//@ what: interface whose associated types are named Msg, Query, Param, Exec, Sudo, Data, Contract
#![allow(dead_code, non_camel_case_types, clippy::new_without_default)]
use sylvia::ctx::{ExecCtx, InstantiateCtx, QueryCtx, SudoCtx};
use sylvia::cw_std::{Empty, Response, StdError, StdResult};
use sylvia::{contract, interface};

pub mod api {
    use sylvia::ctx::{ExecCtx, QueryCtx, SudoCtx};
    use sylvia::interface;
    #[interface]
    #[sv::custom(msg = sylvia::cw_std::Empty, query = sylvia::cw_std::Empty)]
    pub trait Api2 {
        type Error: From<sylvia::cw_std::StdError>;
        type Msg: sylvia::types::CustomMsg + 'static;
        type Query: sylvia::types::CustomMsg + 'static;
        type Param: sylvia::types::CustomMsg + 'static;
        type Exec: sylvia::types::CustomMsg + 'static;
        type Sudo: sylvia::types::CustomMsg + 'static;
        type Data: sylvia::types::CustomMsg + 'static;
        type Contract: sylvia::types::CustomMsg + 'static;
        #[sv::msg(exec)]
        fn run(&self, ctx: ExecCtx, a: Self::Msg, b: Vec<Self::Query>) -> Result<sylvia::cw_std::Response, Self::Error>;
        #[sv::msg(query)]
        fn ask(&self, ctx: QueryCtx, a: Self::Param, b: Self::Data, c: Self::Contract) -> Result<Self::Exec, Self::Error>;
        #[sv::msg(sudo)]
        fn force(&self, ctx: SudoCtx, a: Self::Sudo) -> Result<sylvia::cw_std::Response, Self::Error>;
    }
}

pub struct Holder;

impl api::Api2 for Holder {
    type Error = StdError;
    type Msg = Empty;
    type Query = Empty;
    type Param = Empty;
    type Exec = Empty;
    type Sudo = Empty;
    type Data = Empty;
    type Contract = Empty;
    fn run(&self, _ctx: ExecCtx, _a: Empty, _b: Vec<Empty>) -> StdResult<Response> { Ok(Response::new()) }
    fn ask(&self, _ctx: QueryCtx, _a: Empty, _b: Empty, _c: Empty) -> StdResult<Empty> { Ok(Empty {}) }
    fn force(&self, _ctx: SudoCtx, _a: Empty) -> StdResult<Response> { Ok(Response::new()) }
}

#[contract]
#[sv::messages(api as Api2)]
impl Holder {
    pub fn new() -> Self { Self }
    #[sv::msg(instantiate)]
    fn instantiate(&self, _ctx: InstantiateCtx) -> StdResult<Response> { Ok(Response::new()) }
}

fn main() {}
