//@ props: C19
//@ expect: pass
//@ index: no
//@ what: generic contract over single-letter parameters ABCDEFG
#![allow(dead_code, non_camel_case_types, clippy::type_complexity, clippy::new_without_default)]
use sylvia::{contract, entry_points};

type WitResult = sylvia::cw_std::StdResult<sylvia::cw_std::Response>;
fn ok() -> WitResult { Ok(sylvia::cw_std::Response::new()) }

pub struct Holder<A, B, C, D, E, F, G> {
    _p: std::marker::PhantomData<(A, B, C, D, E, F, G,)>,
}

#[entry_points(generics<sylvia::cw_std::Empty, sylvia::cw_std::Empty, sylvia::cw_std::Empty, sylvia::cw_std::Empty, sylvia::cw_std::Empty, sylvia::cw_std::Empty, sylvia::cw_std::Empty>)]
#[contract]
#[sv::features(replies)]
impl<A, B, C, D, E, F, G> Holder<A, B, C, D, E, F, G>
where
    A: sylvia::types::CustomMsg + 'static,
    B: sylvia::types::CustomMsg + 'static,
    C: sylvia::types::CustomMsg + 'static,
    D: sylvia::types::CustomMsg + 'static,
    E: sylvia::types::CustomMsg + 'static,
    F: sylvia::types::CustomMsg + 'static,
    G: sylvia::types::CustomMsg + 'static,
{
    pub fn new() -> Self {
        Self { _p: std::marker::PhantomData }
    }
    #[sv::msg(instantiate)]
    fn instantiate(&self, _ctx: sylvia::ctx::InstantiateCtx, _a: E) -> WitResult { ok() }
    #[sv::msg(exec)]
    fn run(&self, _ctx: sylvia::ctx::ExecCtx, _a: A, _b: Vec<Option<B>>) -> WitResult { ok() }
    #[sv::msg(query)]
    fn ask(&self, _ctx: sylvia::ctx::QueryCtx, _a: B, _b: G) -> Result<C, sylvia::cw_std::StdError> { unimplemented!() }
    #[sv::msg(sudo)]
    fn force(&self, _ctx: sylvia::ctx::SudoCtx, _a: D) -> WitResult { ok() }
    #[sv::msg(migrate)]
    fn migrate(&self, _ctx: sylvia::ctx::MigrateCtx, _a: F) -> WitResult { ok() }
    #[sv::msg(reply, handlers=[done], reply_on=success)]
    fn done(&self, _ctx: sylvia::ctx::ReplyCtx, _p: u32) -> WitResult { ok() }
}

fn main() {}
