//@ props: C19
//@ expect: pass
//@ index: no
//@ what: interface whose associated types are the single letters HIJKLMN
#![allow(dead_code, non_camel_case_types, clippy::new_without_default)]
use sylvia::ctx::{ExecCtx, InstantiateCtx, QueryCtx, SudoCtx};
use sylvia::cw_std::{Empty, Response, StdError, StdResult};
use sylvia::{contract, interface};

pub mod api {
    use sylvia::ctx::{ExecCtx, QueryCtx, SudoCtx};
    use sylvia::interface;
    #[interface]
    #[sv::custom(msg = sylvia::cw_std::Empty, query = sylvia::cw_std::Empty)]
    pub trait Api2 {
        type Error: From<sylvia::cw_std::StdError>;
        type H: sylvia::types::CustomMsg + 'static;
        type I: sylvia::types::CustomMsg + 'static;
        type J: sylvia::types::CustomMsg + 'static;
        type K: sylvia::types::CustomMsg + 'static;
        type L: sylvia::types::CustomMsg + 'static;
        type M: sylvia::types::CustomMsg + 'static;
        type N: sylvia::types::CustomMsg + 'static;
        #[sv::msg(exec)]
        fn run(&self, ctx: ExecCtx, a: Self::H, b: Vec<Self::I>) -> Result<sylvia::cw_std::Response, Self::Error>;
        #[sv::msg(query)]
        fn ask(&self, ctx: QueryCtx, a: Self::J, b: Self::M, c: Self::N) -> Result<Self::K, Self::Error>;
        #[sv::msg(sudo)]
        fn force(&self, ctx: SudoCtx, a: Self::L) -> Result<sylvia::cw_std::Response, Self::Error>;
    }
}

pub struct Holder;

impl api::Api2 for Holder {
    type Error = StdError;
    type H = Empty;
    type I = Empty;
    type J = Empty;
    type K = Empty;
    type L = Empty;
    type M = Empty;
    type N = Empty;
    fn run(&self, _ctx: ExecCtx, _a: Empty, _b: Vec<Empty>) -> StdResult<Response> { Ok(Response::new()) }
    fn ask(&self, _ctx: QueryCtx, _a: Empty, _b: Empty, _c: Empty) -> StdResult<Empty> { Ok(Empty {}) }
    fn force(&self, _ctx: SudoCtx, _a: Empty) -> StdResult<Response> { Ok(Response::new()) }
}

#[contract]
#[sv::messages(api as Api2)]
impl Holder {
    pub fn new() -> Self { Self }
    #[sv::msg(instantiate)]
    fn instantiate(&self, _ctx: InstantiateCtx) -> StdResult<Response> { Ok(Response::new()) }
}

fn main() {}
