//@ props: C19
//@ expect: pass
//@ index: no
//@ what: generic contract over single-letter parameters HIJKLMN
#![allow(dead_code, non_camel_case_types, clippy::type_complexity, clippy::new_without_default)]
use sylvia::{contract, entry_points};

type WitResult = sylvia::cw_std::StdResult<sylvia::cw_std::Response>;
fn ok() -> WitResult { Ok(sylvia::cw_std::Response::new()) }

pub struct Holder<H, I, J, K, L, M, N> {
    _p: std::marker::PhantomData<(H, I, J, K, L, M, N,)>,
}

#[entry_points(generics<sylvia::cw_std::Empty, sylvia::cw_std::Empty, sylvia::cw_std::Empty, sylvia::cw_std::Empty, sylvia::cw_std::Empty, sylvia::cw_std::Empty, sylvia::cw_std::Empty>)]
#[contract]
#[sv::features(replies)]
impl<H, I, J, K, L, M, N> Holder<H, I, J, K, L, M, N>
where
    H: sylvia::types::CustomMsg + 'static,
    I: sylvia::types::CustomMsg + 'static,
    J: sylvia::types::CustomMsg + 'static,
    K: sylvia::types::CustomMsg + 'static,
    L: sylvia::types::CustomMsg + 'static,
    M: sylvia::types::CustomMsg + 'static,
    N: sylvia::types::CustomMsg + 'static,
{
    pub fn new() -> Self {
        Self { _p: std::marker::PhantomData }
    }
    #[sv::msg(instantiate)]
    fn instantiate(&self, _ctx: sylvia::ctx::InstantiateCtx, _a: L) -> WitResult { ok() }
    #[sv::msg(exec)]
    fn run(&self, _ctx: sylvia::ctx::ExecCtx, _a: H, _b: Vec<Option<I>>) -> WitResult { ok() }
    #[sv::msg(query)]
    fn ask(&self, _ctx: sylvia::ctx::QueryCtx, _a: I, _b: N) -> Result<J, sylvia::cw_std::StdError> { unimplemented!() }
    #[sv::msg(sudo)]
    fn force(&self, _ctx: sylvia::ctx::SudoCtx, _a: K) -> WitResult { ok() }
    #[sv::msg(migrate)]
    fn migrate(&self, _ctx: sylvia::ctx::MigrateCtx, _a: M) -> WitResult { ok() }
    #[sv::msg(reply, handlers=[done], reply_on=success)]
    fn done(&self, _ctx: sylvia::ctx::ReplyCtx, _p: u32) -> WitResult { ok() }
}

fn main() {}
