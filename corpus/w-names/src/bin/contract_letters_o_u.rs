//@ props: C19
//@ expect: pass
//@ index: no
//@ what: generic contract over single-letter parameters OPQRSTU
#![allow(dead_code, non_camel_case_types, clippy::type_complexity, clippy::new_without_default)]
use sylvia::{contract, entry_points};

type WitResult = sylvia::cw_std::StdResult<sylvia::cw_std::Response>;
fn ok() -> WitResult { Ok(sylvia::cw_std::Response::new()) }

pub struct Holder<O, P, Q, R, S, T, U> {
    _p: std::marker::PhantomData<(O, P, Q, R, S, T, U,)>,
}

#[entry_points(generics<sylvia::cw_std::Empty, sylvia::cw_std::Empty, sylvia::cw_std::Empty, sylvia::cw_std::Empty, sylvia::cw_std::Empty, sylvia::cw_std::Empty, sylvia::cw_std::Empty>)]
#[contract]
#[sv::features(replies)]
impl<O, P, Q, R, S, T, U> Holder<O, P, Q, R, S, T, U>
where
    O: sylvia::types::CustomMsg + 'static,
    P: sylvia::types::CustomMsg + 'static,
    Q: sylvia::types::CustomMsg + 'static,
    R: sylvia::types::CustomMsg + 'static,
    S: sylvia::types::CustomMsg + 'static,
    T: sylvia::types::CustomMsg + 'static,
    U: sylvia::types::CustomMsg + 'static,
{
    pub fn new() -> Self {
        Self { _p: std::marker::PhantomData }
    }
    #[sv::msg(instantiate)]
    fn instantiate(&self, _ctx: sylvia::ctx::InstantiateCtx, _a: S) -> WitResult { ok() }
    #[sv::msg(exec)]
    fn run(&self, _ctx: sylvia::ctx::ExecCtx, _a: O, _b: Vec<Option<P>>) -> WitResult { ok() }
    #[sv::msg(query)]
    fn ask(&self, _ctx: sylvia::ctx::QueryCtx, _a: P, _b: U) -> Result<Q, sylvia::cw_std::StdError> { unimplemented!() }
    #[sv::msg(sudo)]
    fn force(&self, _ctx: sylvia::ctx::SudoCtx, _a: R) -> WitResult { ok() }
    #[sv::msg(migrate)]
    fn migrate(&self, _ctx: sylvia::ctx::MigrateCtx, _a: T) -> WitResult { ok() }
    #[sv::msg(reply, handlers=[done], reply_on=success)]
    fn done(&self, _ctx: sylvia::ctx::ReplyCtx, _p: u32) -> WitResult { ok() }
}

fn main() {}
