//@ props: C13 C17 C01 C02
//@ expect: pass
//@ what: pass-through stress: helper methods, associated consts, doc comments, cfg, allow, must_use, track_caller, inline, inner macros, visibility variants, foreign two-segment attributes (rustfmt::skip, clippy::..), sv-like attributes of unknown name are not sylvia's, parameter attributes, trailing commas, where clauses
#![allow(dead_code, unused_variables, clippy::new_without_default, clippy::too_many_arguments)]
use sylvia::ctx::{ExecCtx, InstantiateCtx, QueryCtx, SudoCtx};
use sylvia::cw_std::{Addr, Response, StdError, StdResult};
use sylvia::{contract, entry_points, interface};

#[sylvia::cw_schema::cw_serde]
pub struct Resp {
    pub n: u32,
}

pub mod plain {
    use super::*;

    pub struct Contract {
        pub(crate) n: u32,
    }

    /// Doc comment on the impl block.
    /// Second line with "quotes" and 'apostrophes'.
    #[entry_points]
    #[contract]
    #[allow(clippy::needless_lifetimes)]
    #[sv::msg_attr(exec, derive(PartialOrd))]
    #[sv::msg_attr(query, doc = "forwarded to QueryMsg")]
    #[cfg_attr(feature = "extra", allow(unused))]
    impl Contract {
        /// Associated constant with a doc comment.
        pub const LIMIT: u32 = 10;
        const PRIVATE: &'static str = "x";

        #[allow(clippy::new_without_default)]
        pub const fn new() -> Self {
            Self { n: 0 }
        }

        /// Helper without a message attribute.
        #[must_use]
        #[inline]
        pub(crate) fn helper(&self, a: u32, b: u32) -> u32 {
            let v = vec![a, b];
            let s = format!("{}-{}", a, b);
            v.iter().sum::<u32>() + s.len() as u32
        }

        #[rustfmt::skip]
        fn odd_format (  &self  ) -> u32 { 1 }

        #[cfg(feature = "extra")]
        fn only_with_extra(&self) {}

        /// Instantiate with a trailing comma and a parameter attribute.
        #[sv::msg(instantiate)]
        pub fn instantiate(
            &self,
            ctx: InstantiateCtx,
            #[serde(default)] start: u32,
            admin: Option<String>,
        ) -> StdResult<Response> {
            let _ = (start, admin);
            Ok(Response::new())
        }

        /// Exec handler.
        #[sv::msg(exec)]
        #[sv::attr(doc = "variant level doc")]
        #[track_caller]
        pub fn bump(&self, ctx: ExecCtx, #[serde(default)] by: u32, #[serde(rename = "toWhom")] to: Addr) -> StdResult<Response> {
            assert!(by < Self::LIMIT * 1000, "too much: {}", by);
            Ok(Response::new().add_attribute("by", by.to_string()))
        }

        #[sv::msg(exec)]
        fn private_exec(&self, _ctx: ExecCtx) -> Result<Response, StdError> {
            #[allow(unused_mut)]
            let mut local = 1;
            fn nested(#[allow(unused)] x: u32) -> u32 {
                x
            }
            let _ = nested(local);
            Ok(Response::new())
        }

        #[sv::msg(query)]
        #[doc = "explicit doc attribute"]
        pub fn count(&self, _ctx: QueryCtx) -> StdResult<Resp> {
            Ok(Resp { n: self.helper(1, 2) })
        }

        #[sv::msg(sudo)]
        #[cfg_attr(feature = "extra", inline(never))]
        pub fn force(&self, _ctx: SudoCtx, #[doc = "parameter doc"] value: u32) -> StdResult<Response> {
            Ok(Response::new())
        }
    }
}

pub mod generic_where {
    use super::*;
    use sylvia::types::CustomMsg;

    pub struct Contract<T, U> {
        _p: std::marker::PhantomData<(T, U)>,
    }

    #[contract]
    impl<T, U> Contract<T, U>
    where
        T: CustomMsg + 'static,
        U: CustomMsg + std::fmt::Debug + 'static,
    {
        pub fn new() -> Self {
            Self { _p: std::marker::PhantomData }
        }

        pub fn helper<'a, V: Into<u64>>(&'a self, v: V) -> u64 {
            v.into()
        }

        #[sv::msg(instantiate)]
        fn instantiate(&self, _ctx: InstantiateCtx, t: T,) -> StdResult<Response> {
            Ok(Response::new())
        }

        #[sv::msg(exec)]
        fn run(&self, _ctx: ExecCtx, u: Vec<Option<U>>,) -> StdResult<Response> {
            Ok(Response::new())
        }
    }
}

pub mod iface {
    use super::*;

    /// Interface doc.
    #[interface]
    #[sv::custom(msg = sylvia::cw_std::Empty, query = sylvia::cw_std::Empty)]
    #[sv::msg_attr(exec, derive(PartialOrd))]
    #[allow(clippy::wrong_self_convention)]
    pub trait Thing {
        type Error: From<StdError>;

        /// Provided (default) method without message attribute.
        fn provided(&self) -> u32 {
            let x = vec![1u32, 2];
            x.len() as u32 + 1
        }

        #[sv::msg(exec)]
        #[sv::attr(doc = "variant doc")]
        fn poke(&self, ctx: ExecCtx, #[serde(default)] times: u8,) -> Result<Response, Self::Error>;

        /// Query doc.
        #[sv::msg(query)]
        #[must_use]
        fn peek(&self, ctx: QueryCtx) -> Result<Resp, Self::Error>;
    }
}

/// A handler whose variant carries a forwarded `serde(rename)`: the message is (de)serialised under the new name.
pub mod fwd_rename {
    use super::*;

    pub struct Renamer;

    #[contract]
    impl Renamer {
        pub fn new() -> Self {
            Self
        }
        #[sv::msg(instantiate)]
        fn instantiate(&self, _ctx: InstantiateCtx) -> StdResult<Response> {
            Ok(Response::new())
        }
        #[sv::msg(exec)]
        #[sv::attr(serde(rename = "renamed_on_the_wire"))]
        fn bump(&self, _ctx: ExecCtx) -> StdResult<Response> {
            Ok(Response::new())
        }
        #[sv::msg(exec)]
        fn other(&self, _ctx: ExecCtx) -> StdResult<Response> {
            Ok(Response::new())
        }
    }
}

/// distinct marker attributes per kind / handler / parameter (C17)
pub mod fwd_attrs {
    use super::*;

    pub struct Marked;

    #[entry_points]
    #[contract]
    #[sv::msg_attr(instantiate, doc = "marker-instantiate")]
    #[sv::msg_attr(exec, doc = "marker-exec")]
    #[sv::msg_attr(exec, derive(PartialOrd))]
    #[sv::msg_attr(query, doc = "marker-query")]
    #[sv::msg_attr(query, derive(Eq))]
    #[sv::msg_attr(sudo, doc = "marker-sudo")]
    #[sv::msg_attr(migrate, doc = "marker-migrate")]
    #[sv::msg_attr(migrate, derive(Eq, PartialOrd))]
    impl Marked {
        pub fn new() -> Self {
            Self
        }
        #[sv::msg(instantiate)]
        fn instantiate(&self, _ctx: InstantiateCtx, #[doc = "p-inst"] #[serde(default)] seed: u64) -> StdResult<Response> {
            Ok(Response::new())
        }
        #[sv::msg(migrate)]
        fn migrate(&self, _ctx: sylvia::ctx::MigrateCtx, #[doc = "p-migrate"] to: u32) -> StdResult<Response> {
            Ok(Response::new())
        }
        #[sv::msg(exec)]
        #[sv::attr(doc = "v-exec-one")]
        fn one(&self, _ctx: ExecCtx, #[doc = "p-one-a"] a: u32, b: u32) -> StdResult<Response> {
            Ok(Response::new())
        }
        #[sv::msg(exec)]
        #[sv::attr(doc = "v-exec-two")]
        #[sv::attr(doc = "v-exec-two-second")]
        fn two(&self, _ctx: ExecCtx, a: u32, #[doc = "p-two-b"] #[serde(default)] b: Option<u32>) -> StdResult<Response> {
            Ok(Response::new())
        }
        #[sv::msg(query)]
        #[sv::attr(doc = "v-query")]
        fn ask(&self, _ctx: QueryCtx, #[serde(default)] verbose: bool) -> StdResult<Resp> {
            Ok(Resp { n: 0 })
        }
        #[sv::msg(sudo)]
        #[sv::attr(doc = "v-sudo")]
        fn force(&self, _ctx: SudoCtx) -> StdResult<Response> {
            Ok(Response::new())
        }
        /// forwarded attribute written ABOVE the sv::msg attribute
        #[sv::attr(doc = "v-before-msg")]
        #[sv::msg(exec)]
        fn attr_first(&self, _ctx: ExecCtx) -> StdResult<Response> {
            Ok(Response::new())
        }
        /// forwarded attributes on both sides of sv::msg
        #[sv::attr(doc = "v-around-1")]
        #[sv::msg(sudo)]
        #[sv::attr(doc = "v-around-2")]
        fn attr_around(&self, _ctx: SudoCtx) -> StdResult<Response> {
            Ok(Response::new())
        }
    }
}

pub mod fwd_attrs_iface {
    use super::*;

    #[interface]
    #[sv::custom(msg = sylvia::cw_std::Empty, query = sylvia::cw_std::Empty)]
    #[sv::msg_attr(exec, doc = "i-marker-exec")]
    #[sv::msg_attr(query, doc = "i-marker-query")]
    #[sv::msg_attr(sudo, doc = "i-marker-sudo")]
    #[sv::msg_attr(sudo, derive(Eq))]
    pub trait MarkedIface {
        type Error: From<StdError>;
        #[sv::msg(exec)]
        #[sv::attr(doc = "iv-exec")]
        fn e(&self, ctx: ExecCtx, #[doc = "ip-e"] a: u32) -> Result<Response, Self::Error>;
        #[sv::msg(query)]
        fn q(&self, ctx: QueryCtx, #[serde(default)] a: u32) -> Result<Resp, Self::Error>;
        #[sv::msg(sudo)]
        #[sv::attr(doc = "iv-sudo")]
        fn s(&self, ctx: SudoCtx) -> Result<Response, Self::Error>;
        #[sv::attr(doc = "iv-before-msg")]
        #[sv::msg(exec)]
        fn attr_first(&self, ctx: ExecCtx) -> Result<Response, Self::Error>;
    }
}

/// The pre-1.0 form `#[contract(module = ...)]` on an interface implementation (MIGRATING.md): a non-empty macro argument makes
/// `contract` generate nothing, but the impl is still re-emitted with sylvia's attributes and all parameter attributes removed.
pub mod legacy_contract_arg {
    use super::*;

    pub struct Legacy;

    /// Doc on the legacy impl.
    #[contract(module = crate::legacy_contract_arg)]
    #[sv::messages(crate::iface as Thing)]
    #[allow(clippy::needless_lifetimes)]
    impl iface::Thing for Legacy {
        type Error = StdError;

        #[sv::msg(exec)]
        #[inline]
        fn poke(&self, _ctx: ExecCtx, #[serde(default)] times: u8,) -> Result<Response, Self::Error> {
            Ok(Response::new().add_attribute("times", times.to_string()))
        }

        /// Query doc.
        #[sv::msg(query)]
        #[sv::attr(doc = "never forwarded anywhere")]
        fn peek(&self, _ctx: QueryCtx) -> Result<Resp, Self::Error> {
            Ok(Resp { n: 0 })
        }
    }

    pub struct Legacy2;

    #[sylvia::contract(anything goes here)]
    impl Legacy2 {
        pub fn new() -> Self {
            Self
        }
        #[sv::msg(instantiate)]
        fn instantiate(&self, _ctx: InstantiateCtx, #[doc = "param attr"] _a: u32) -> StdResult<Response> {
            Ok(Response::new())
        }
    }
}

/// Attributes forwarded to message kinds for which the impl block has no handler: the (empty) message types are generated all the
/// same and must carry them; the same for an interface without handlers of a kind.
pub mod fwd_attrs_no_handlers {
    use super::*;

    pub struct Bare;

    #[contract]
    #[sv::msg_attr(exec, doc = "b-marker-exec")]
    #[sv::msg_attr(query, doc = "b-marker-query")]
    #[sv::msg_attr(query, derive(PartialOrd))]
    #[sv::msg_attr(sudo, doc = "b-marker-sudo")]
    #[sv::msg_attr(sudo, derive(PartialOrd))]
    #[sv::msg_attr(migrate, doc = "b-marker-migrate")]
    #[sv::msg_attr(instantiate, doc = "b-marker-instantiate")]
    impl Bare {
        pub fn new() -> Self {
            Self
        }
        #[sv::msg(instantiate)]
        fn instantiate(&self, _ctx: InstantiateCtx) -> StdResult<Response> {
            Ok(Response::new())
        }
    }

    pub mod only_exec {
    use super::*;
    pub struct OnlyExec;

    #[contract]
    #[sv::msg_attr(exec, doc = "o-marker-exec")]
    #[sv::msg_attr(query, doc = "o-marker-query")]
    #[sv::msg_attr(sudo, derive(Eq))]
    impl OnlyExec {
        pub fn new() -> Self {
            Self
        }
        #[sv::msg(instantiate)]
        fn instantiate(&self, _ctx: InstantiateCtx) -> StdResult<Response> {
            Ok(Response::new())
        }
        #[sv::msg(exec)]
        fn go(&self, _ctx: ExecCtx) -> StdResult<Response> {
            Ok(Response::new())
        }
    }
    }

    pub mod only_query_iface {
        use super::*;

        #[interface]
        #[sv::custom(msg = sylvia::cw_std::Empty, query = sylvia::cw_std::Empty)]
        #[sv::msg_attr(exec, doc = "q-marker-exec")]
        #[sv::msg_attr(query, doc = "q-marker-query")]
        #[sv::msg_attr(sudo, doc = "q-marker-sudo")]
        pub trait OnlyQuery {
            type Error: From<StdError>;
            #[sv::msg(query)]
            fn q(&self, ctx: QueryCtx) -> Result<Resp, Self::Error>;
        }
    }
}

/// Query handlers whose response type is itself a framework / primitive type (`Binary`, `Response`, `String`, `Vec<u8>`,
/// `Option<Binary>`): the caller still gets the JSON *encoding* of the returned value, never the raw value.
pub mod query_returning_plain_types {
    use super::*;
    use sylvia::cw_std::Binary;

    pub struct Raw;

    #[entry_points]
    #[contract]
    impl Raw {
        pub fn new() -> Self {
            Self
        }
        #[sv::msg(instantiate)]
        fn instantiate(&self, _ctx: InstantiateCtx) -> StdResult<Response> {
            Ok(Response::new())
        }
        #[sv::msg(query)]
        fn raw_bytes(&self, _ctx: QueryCtx) -> StdResult<Binary> {
            Ok(Binary::from(vec![7u8, 7, 7]))
        }
        #[sv::msg(query)]
        fn raw_bytes_result(&self, _ctx: QueryCtx, n: u8) -> Result<Binary, StdError> {
            Ok(Binary::from(vec![n]))
        }
        #[sv::msg(query)]
        fn raw_bytes_qualified(&self, _ctx: QueryCtx) -> StdResult<sylvia::cw_std::Binary> {
            Ok(Binary::default())
        }
        #[sv::msg(query)]
        fn a_response(&self, _ctx: QueryCtx) -> StdResult<Response> {
            Ok(Response::new())
        }
        #[sv::msg(query)]
        fn a_string(&self, _ctx: QueryCtx) -> StdResult<String> {
            Ok(String::new())
        }
        #[sv::msg(query)]
        fn some_bytes(&self, _ctx: QueryCtx) -> StdResult<Vec<u8>> {
            Ok(vec![])
        }
        #[sv::msg(query)]
        fn maybe_bytes(&self, _ctx: QueryCtx) -> StdResult<Option<Binary>> {
            Ok(None)
        }
    }

    pub mod raw_iface {
        use super::*;

        #[interface]
        #[sv::custom(msg = sylvia::cw_std::Empty, query = sylvia::cw_std::Empty)]
        pub trait RawIface {
            type Error: From<StdError>;
            #[sv::msg(query)]
            fn iface_bytes(&self, ctx: QueryCtx) -> Result<Binary, Self::Error>;
            #[sv::msg(query)]
            fn iface_string(&self, ctx: QueryCtx, a: u32) -> Result<String, Self::Error>;
        }
    }
}

/// Order of the attributes that stay: a sylvia attribute in front of, and between, several foreign attributes (lint levels — the
/// later one wins —, doc lines, cfg_attr) on the impl / trait and on handler methods; the re-emitted item keeps the written order.
pub mod attr_order {
    use super::*;

    pub struct Ordered;

    #[contract]
    #[sv::msg_attr(exec, doc = "ordered-exec")]
    #[deny(unused)]
    #[allow(unused_variables)]
    #[sv::msg_attr(query, doc = "ordered-query")]
    /// first doc line after the sylvia attributes
    /// second doc line
    #[allow(clippy::needless_lifetimes)]
    impl Ordered {
        pub fn new() -> Self {
            Self
        }
        #[sv::msg(instantiate)]
        #[deny(unused)]
        #[allow(unused_variables)]
        fn instantiate(&self, ctx: InstantiateCtx, value: u32) -> StdResult<Response> {
            Ok(Response::new())
        }
        /// doc one
        #[sv::msg(exec)]
        /// doc two
        #[deny(unused)]
        #[sv::attr(doc = "variant doc")]
        #[allow(unused_variables)]
        /// doc three
        #[inline]
        fn run(&self, ctx: ExecCtx, value: u32) -> StdResult<Response> {
            Ok(Response::new())
        }
        #[sv::msg(query)]
        #[deny(unused)]
        #[allow(unused_variables)]
        #[must_use]
        fn ask(&self, ctx: QueryCtx, value: u32) -> StdResult<Resp> {
            Ok(Resp { n: 0 })
        }
    }

    pub mod ordered_iface {
        use super::*;

        #[interface]
        #[sv::custom(msg = sylvia::cw_std::Empty, query = sylvia::cw_std::Empty)]
        #[deny(unused)]
        #[allow(unused_variables)]
        /// trait doc after the sylvia attribute
        #[allow(clippy::wrong_self_convention)]
        pub trait OrderedIface {
            type Error: From<StdError>;

            #[sv::msg(exec)]
            #[deny(unused)]
            #[allow(unused_variables)]
            /// trailing doc
            fn poke(&self, ctx: ExecCtx, value: u32) -> Result<Response, Self::Error>;

            /// leading doc
            #[sv::msg(query)]
            #[must_use]
            #[allow(unused_variables)]
            #[deny(unused_mut)]
            fn peek(&self, ctx: QueryCtx, value: u32) -> Result<Resp, Self::Error>;
        }
    }
}

/// Argument attributes wrapped in `cfg_attr`: the compiler applies the inner attribute when the predicate holds, so the generated
/// field must carry it exactly like a plainly written one (and must not when the predicate is false).
pub mod cfg_attr_on_arguments {
    use super::*;

    pub struct Conditional;

    #[contract]
    impl Conditional {
        pub fn new() -> Self {
            Self
        }
        #[sv::msg(instantiate)]
        fn instantiate(&self, _ctx: InstantiateCtx, #[cfg_attr(not(target_arch = "wasm32"), serde(default))] label: String, cap: u32) -> StdResult<Response> {
            Ok(Response::new())
        }
        #[sv::msg(exec)]
        fn transfer(
            &self,
            _ctx: ExecCtx,
            to: String,
            #[cfg_attr(not(target_arch = "wasm32"), serde(default))] memo: String,
            #[cfg_attr(target_arch = "wasm32", serde(default))] never_on_host: u8,
            #[cfg_attr(all(), doc = "always-on doc")] noted: u8,
        ) -> StdResult<Response> {
            Ok(Response::new())
        }
    }

    pub mod conditional_iface {
        use super::*;

        #[interface]
        #[sv::custom(msg = sylvia::cw_std::Empty, query = sylvia::cw_std::Empty)]
        pub trait ConditionalIface {
            type Error: From<StdError>;
            #[sv::msg(exec)]
            fn note(&self, ctx: ExecCtx, #[cfg_attr(not(target_arch = "wasm32"), serde(default))] memo: String) -> Result<Response, Self::Error>;
        }
    }
}
