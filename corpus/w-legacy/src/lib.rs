//@ props: C14 C06
//@ expect: pass
//@ what: legacy (no `replies` feature) contracts: one reply method; two reply methods (the program has no documented meaning, but it is accepted: which method the reply entry point calls must not depend on declaration order)
#![allow(dead_code, unused_variables, deprecated, clippy::new_without_default)]
use sylvia::ctx::InstantiateCtx;
use sylvia::cw_std::{Reply, Response, StdResult};
use sylvia::types::ReplyCtx;
use sylvia::{contract, entry_points};

pub mod legacy_one {
    use super::*;
    pub struct Contract;

    #[entry_points]
    #[contract]
    impl Contract {
        pub fn new() -> Self {
            Self
        }
        #[sv::msg(instantiate)]
        fn instantiate(&self, _ctx: InstantiateCtx) -> StdResult<Response> {
            Ok(Response::new())
        }
        #[sv::msg(reply)]
        fn on_reply(&self, _ctx: ReplyCtx, _msg: Reply) -> StdResult<Response> {
            Ok(Response::new())
        }
    }
}

pub mod legacy_two_replies {
    use super::*;
    pub struct Contract;

    #[entry_points]
    #[contract]
    impl Contract {
        pub fn new() -> Self {
            Self
        }
        #[sv::msg(instantiate)]
        fn instantiate(&self, _ctx: InstantiateCtx) -> StdResult<Response> {
            Ok(Response::new())
        }
        #[sv::msg(reply)]
        fn first_reply(&self, _ctx: ReplyCtx, _msg: Reply) -> StdResult<Response> {
            Ok(Response::new().add_attribute("which", "first"))
        }
        #[sv::msg(reply)]
        fn second_reply(&self, _ctx: ReplyCtx, _msg: Reply) -> StdResult<Response> {
            Ok(Response::new().add_attribute("which", "second"))
        }
    }
}
